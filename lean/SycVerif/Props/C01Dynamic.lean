/-
C01, positive half, for DYNAMIC dependency graphs: computation bodies may branch on tracked reads
(`ifpos h t e`), so the set of nodes a computation subscribes to changes from run to run.

`C01_full` is false because of late edges (`Props/C01.lean`): a computation that is re-run during a
propagation may start reading a memo that is still pending, see its stale value, and never be
re-run.  This file proves that this is the ONLY obstruction: if no late edge appears during the
propagation (`NoLateEdgeStatic`, checkable on the arena before the propagation starts; or the
sharper trace hypothesis `NoLateEdgeRun`), then after a signal write returns every live
memo/selector/effect holds what its function yields from the current values, its dependency list is
the list of reads of a run against the current values, each computation ran at most once, signals
kept their values and a computation that did not run kept value and dependencies
(`C01_dynamic_set`, `C01_dynamic_set_run`).

The static hypothesis implies the trace hypothesis (`noLateEdgeStatic_run`), strictly (`dynDemo3`).
`C01_static_set` (branch-free bodies) is an instance (`C01_dynamic_static`); the D1 witness violates
both hypotheses (`d1_violates_noLateEdge`, `d1_violates_noLateEdgeRun`); `dynDemo`, `dynDemo2` are
programs with a branch flip that satisfy them.  Helper lemmas: `SycVerif/Lemmas/PropagateDyn.lean`.
-/
import SycVerif.Lemmas.PropagateDyn
import SycVerif.Props.C01Static
import SycVerif.Props.C01
namespace SycVerif.Reactive

/-! ### 1. the invariant and the hypotheses -/

/-- a state "at rest" of a program made of signals/scopes and pure computations:
* `StructD r` (`Lemmas/PropagateDyn.lean`): `NoDangling`, `EdgesSym`, and for every live node
  (`DynNodeOk`): it holds a value; a node without callback (signal/scope) has `dependencies = []`; a
  node with `callback = some (eq, cl)` has no children, no cleanups, a `PureBody` all of whose read
  handles (on every branch) exist in `cl.env`, are signal/memo handles, are older than the node
  (`PureHandlesOk`) and are alive, and `dependencies ⊆ allReads cl.env cl.body`;
* no DFS mark, no dirty flag, no tracker, no batch, empty queue;
* every node is `locallyConsistent`;
* `deps`: the dependency list of every computation is `trackedReads r cl.env cl.body`, the reads (in
  order, duplicates included, following the branch taken) of a run against the CURRENT values. -/
structure DynArena (r : Root) : Prop where
  struct : StructD r
  unmarked : Unmarked r
  clean : ∀ j n, r.get? j = some n → n.dirty = false
  tracker : r.tracker = none
  batching : r.batching = false
  queue : r.queue = []
  consistent : ∀ j, locallyConsistent r j
  deps : ∀ j n, r.get? j = some n → DepsCurrent r n

/-- **no late edge, static form** (checkable on the arena `r` on which the propagation from `s`
starts): for every scheduled computation `c` (`Reach r s c`) and every node `d` that the body of `c`
can read on ANY branch, if `d` is scheduled too then the edge `d → c` exists already, i.e. `d` is a
current dependency of `c` — so `d` is before `c` in the order fixed by `dfs`. -/
def NoLateEdgeStatic (r : Root) (s : Id) : Prop :=
  ∀ c d, Reach r s c → d ∈ allReadsOf r c → Reach r s d → d ∈ depsOf r c

/-- **no late edge, trace form** (`NoLateRun`, `Lemmas/PropagateDyn.lean`): along the run of
`propagateUpdates fuel r s` itself, no computation reads, at the moment it is re-run, a node that is
still waiting in the schedule.  Only the reads on the branch actually taken count. -/
def NoLateEdgeRun : Nat → Root → Id → Prop
  | fuel + 2, r, s =>
    match visitStarts r [] [s] with
    | .ok (rM, buf) => NoLateRun fuel rM buf.reverse
    | .error _ => True
  | _, _, _ => True

/-! ### 2. the state handed to the second loop -/

/-- overwriting the value of a node that holds a value keeps the structural invariant -/
theorem StructD.setValue {r : Root} {s : Id} {ns : Node} (hS : StructD r) (hn : r.get? s = some ns)
    (v : Int) : StructD (r.setNode s { ns with value := some v }) := by
  have hp := setNode_sameEdges_preserves (n' := { ns with value := some v }) hn rfl rfl
  have hal : ∀ d, (r.setNode s { ns with value := some v }).alive d = r.alive d :=
    Root.alive_setNode_of_alive _ (Root.alive_iff.2 ⟨ns, hn⟩)
  have hnode : ∀ j m, r.get? j = some m → DynNodeOk (r.setNode s { ns with value := some v }) j m := by
    intro j m hm
    have hk := hS.node j m hm
    refine ⟨hk.value, hk.plain, fun eq cl hc => ?_⟩
    obtain ⟨a1, a2, a3, a4, a5, a6⟩ := hk.comp eq cl hc
    exact ⟨a1, a2, a3, a4, fun d hd => by rw [hal]; exact a5 d hd, a6⟩
  refine ⟨hp.1 hS.nd, hp.2 hS.sym, fun j m hm => ?_⟩
  rw [Dfs.get?_setNode_of_get? hn] at hm
  split at hm
  · subst j; cases hm
    have hk := hnode _ ns hn
    exact ⟨rfl, hk.plain, hk.comp⟩
  · exact hnode j m hm

/-- the state handed to the second loop satisfies the loop invariant -/
theorem loopInvD_start {r : Root} {s : Id} {ns : Node} {v : Int} {rD : Root} {buf : List Id}
    (hA : DynArena r) (hn : r.get? s = some ns) (hc : ns.callback = none)
    (hSch : Scheduled (r.setNode s { ns with value := some v }) s rD buf) :
    LoopInvD (markDependentsDirty rD s) buf.reverse := by
  have hS1 := hA.struct.setValue hn v
  obtain ⟨r1, hr1⟩ : ∃ r1, r1 = r.setNode s { ns with value := some v } := ⟨_, rfl⟩
  rw [← hr1] at hSch hS1
  have hget1 : ∀ j, r1.get? j = if j = s then some { ns with value := some v } else r.get? j := by
    intro j; rw [hr1]; exact Dfs.get?_setNode_of_get? hn _ j
  have hS := hA.struct
  have hRD := hSch.frame.flagsRel
  have hSD := hRD.structD hS1
  have hRM := markDependentsDirty_flagsRel rD s
  have hSM := hRM.structD hSD
  -- the node of `rM` in terms of the node of `rD`
  have hM : ∀ j m, (markDependentsDirty rD s).get? j = some m → ∃ mD, rD.get? j = some mD ∧
      m = { mD with dirty := mD.dirty || isDependentOf rD s j } := by
    intro j m hm
    rw [hSch.dirty, Option.map_eq_some_iff] at hm
    obtain ⟨mD, hmD, e⟩ := hm
    exact ⟨mD, hmD, e.symm⟩
  -- nothing is dirty in `rD`
  have hcleanD : ∀ j mD, rD.get? j = some mD → mD.dirty = false := by
    intro j mD hmD
    obtain ⟨m1, hm1, he⟩ := hSch.frame.get?_bwd hmD
    have hd : mD.dirty = m1.dirty := by
      have := congrArg Node.dirty he; simpa [Node.eraseMark] using this
    rw [hd]
    rw [hget1] at hm1
    split at hm1
    · cases hm1; exact hA.clean _ ns hn
    · exact hA.clean j m1 hm1
  obtain ⟨nsD, hnsD⟩ := Root.alive_iff.1 (hSch.alive s hSch.start)
  -- a flagged node is a direct dependent of `s`
  have hflag : ∀ j mD, rD.get? j = some mD → isDependentOf rD s j = true →
      j ∈ buf ∧ s ∈ mD.dependencies := by
    intro j mD hmD hdep
    rw [isDependentOf_eq hnsD, List.contains_eq_mem, decide_eq_true_eq] at hdep
    exact ⟨(hSch.order s hSch.start nsD hnsD j hdep).mem_left,
      (mem_dependents_iff hSD.sym hnsD hmD).1 hdep⟩
  refine ⟨hSM, ?_, ?_, ?_, ?_, ?_⟩
  · intro j m hm
    obtain ⟨mD, hmD, rfl⟩ := hM j m hm
    simp only [List.mem_reverse]
    exact hSch.marks j mD hmD
  · intro j hj
    obtain ⟨mD, hmD⟩ := Root.alive_iff.1 (hSch.alive j (List.mem_reverse.1 hj))
    obtain ⟨m, hm, _⟩ := hRM.fwd hmD
    exact Root.alive_iff.2 ⟨m, hm⟩
  · intro j m hm hd
    obtain ⟨mD, hmD, rfl⟩ := hM j m hm
    simp only [hcleanD j mD hmD, Bool.false_or] at hd
    obtain ⟨h1, h2⟩ := hflag j mD hmD hd
    refine ⟨List.mem_reverse.2 h1, fun hcn => ?_⟩
    rw [(hSD.node j mD hmD).plain hcn] at h2; cases h2
  · intro j m hm hd
    obtain ⟨mD, hmD, hmeq⟩ := hM j m hm
    rw [hmeq] at hd
    simp only [hcleanD j mD hmD, Bool.false_or] at hd
    refine hRM.settled hmD hm ?_
    -- `j` in `r1`
    obtain ⟨m1, hm1, _, e2, _, _, _, e6, _⟩ := hRD.bwd hmD
    refine hRD.settled hm1 hmD ?_
    by_cases hj : j = s
    · subst hj
      rw [hget1, if_pos rfl] at hm1; cases hm1
      exact ⟨locallyConsistent_of_plain (n := { ns with value := some v }) (by rw [hget1, if_pos rfl]) hc,
        fun eq cl hcb => by simp [hc] at hcb⟩
    · have hm0 : r.get? j = some m1 := by rw [hget1, if_neg hj] at hm1; exact hm1
      refine settled_congr hm0 hm1 rfl rfl rfl (fun eq cl hcb id hid => ?_)
        ⟨hA.consistent j, hA.deps j m1 hm0⟩
      have hne : id ≠ s := by
        rintro rfl
        have : id ∈ mD.dependencies := by rw [e6, hA.deps j m1 hm0 eq cl hcb]; exact hid
        have hdep : isDependentOf rD id j = true := by
          rw [isDependentOf_eq hnsD, List.contains_eq_mem, decide_eq_true_eq]
          exact (mem_dependents_iff hSD.sym hnsD hmD).2 this
        rw [hdep] at hd; cases hd
      apply getUntracked_congr; rw [hget1, if_neg hne]
  · refine sched_of_before (nodup_reverse hSch.nodup) (fun i hi d hd => ?_) buf.reverse [] rfl
    have hi' := List.mem_reverse.1 hi
    obtain ⟨ni, hni⟩ := Root.alive_iff.1 (hSch.alive i hi')
    simp only [depsOf] at hd
    split at hd
    · rename_i md hmd
      obtain ⟨mD, hmD, rfl⟩ := hM d md hmd
      exact (hSch.order i hi' ni hni d ((mem_dependents_iff hSD.sym hni hmD).2 hd)).reverse
    · cases hd

/-- `visitStarts` only rewrites marks and dirty flags -/
theorem scheduled_evolvesD {r1 : Root} {s : Id} {rD : Root} {buf : List Id} (hSch : Scheduled r1 s rD buf) :
    EvolvesD r1 (markDependentsDirty rD s) [] := by
  have hRM := markDependentsDirty_flagsRel rD s
  obtain ⟨_, _, _, sfM⟩ := markDependentsDirty_frame rD s
  obtain ⟨g1, g2, g3, g4, g5, g6, g7, g8⟩ := sfM
  have hEM : Evolves rD (markDependentsDirty rD s) [] := hRM.evolves ⟨g1, g2, g3, g4, g5, g6, g7⟩ g8
  simpa using (hSch.frame.evolves.trans hEM).toD

/-- the static hypothesis on the arena gives `LateOk` for the schedule -/
theorem lateOk_start {r1 : Root} {s : Id} {rD : Root} {buf : List Id} (hSch : Scheduled r1 s rD buf)
    (hreach : ∀ i, i ∈ buf ↔ Reach r1 s i) (hL : NoLateEdgeStatic r1 s) :
    LateOk (markDependentsDirty rD s) buf.reverse := by
  have hE := scheduled_evolvesD hSch
  intro c hc d hd hdm
  rw [hE.allReadsOf_eq] at hd
  rw [hE.depsOf_eq (by simp [runIds])]
  exact hL c d ((hreach c).1 (List.mem_reverse.1 hc)) hd ((hreach d).1 (List.mem_reverse.1 hdm))

/-! ### 3. the theorems -/

/-- what the two theorems below share: from the state handed to the second loop to the result -/
theorem C01_dynamic_finish {r : Root} {s : Id} {ns : Node} {v : Int} {rD : Root} {buf : List Id}
    {f : Nat} {r' : Root} {ran : List Event}
    (hA : DynArena r)
    (hvis : visitStarts (r.setNode s { ns with value := some v }) [] [s] = .ok (markDependentsDirty rD s, buf))
    (hSch : Scheduled (r.setNode s { ns with value := some v }) s rD buf)
    (hreach : ∀ i, i ∈ buf ↔ Reach (r.setNode s { ns with value := some v }) s i)
    (hrun : propagateLoop f (markDependentsDirty rD s) buf.reverse = .ok r')
    (hI' : LoopInvD r' []) (hE : EvolvesD (markDependentsDirty rD s) r' ran)
    (hsub : (runIds ran).Sublist buf.reverse) :
    propagateUpdates (f + 2) (r.setNode s { ns with value := some v }) s = .ok r' ∧
      DynArena r' ∧ EvolvesD (r.setNode s { ns with value := some v }) r' ran ∧ (runIds ran).Nodup ∧
      ∀ j ∈ runIds ran, Reach (r.setNode s { ns with value := some v }) s j := by
  obtain ⟨f1, f2, f3, f4, f5, f6, f7, f8⟩ := SameFrame.setNode r s { ns with value := some v }
  have hEall : EvolvesD (r.setNode s { ns with value := some v }) r' ran := by
    simpa using (scheduled_evolvesD hSch).trans hE
  refine ⟨?_, ?_, hEall, hsub.nodup (nodup_reverse hSch.nodup),
    fun j hj => (hreach j).1 (List.mem_reverse.1 (hsub.subset hj))⟩
  · simp [propagateUpdates, propagateNodeUpdates, f6, hA.batching, hvis, hSch.loop_resetMarks, hrun]
  · obtain ⟨_, e2, _, _, e5, e6, _⟩ := hEall.frame
    have hclean : ∀ j m, r'.get? j = some m → m.dirty = false := by
      intro j m hm
      cases hd : m.dirty with
      | false => rfl
      | true => exact absurd (hI'.dirty j m hm hd).1 (by simp)
    refine ⟨hI'.struct, fun j m hm => by simpa using hI'.marks j m hm, hclean,
      by rw [e2, f2, hA.tracker], by rw [e6, f6, hA.batching], by rw [e5, f5, hA.queue], fun j => ?_,
      fun j m hm => (hI'.cons j m hm (hclean j m hm)).2⟩
    cases hm : r'.get? j with
    | none => unfold locallyConsistent; rw [hm]; trivial
    | some m => exact (hI'.cons j m hm (hclean j m hm)).1

/-- what the two theorems below share: the first loop -/
theorem C01_dynamic_schedule {r : Root} {s : Id} {ns : Node} (hA : DynArena r) (hn : r.get? s = some ns)
    (hc : ns.callback = none) {B : Nat} (hB : PureBound r B) (v : Int) :
    ∃ rD buf, visitStarts (r.setNode s { ns with value := some v }) [] [s] = .ok (markDependentsDirty rD s, buf) ∧
      Scheduled (r.setNode s { ns with value := some v }) s rD buf ∧
      (∀ i, i ∈ buf ↔ Reach (r.setNode s { ns with value := some v }) s i) ∧
      LoopInvD (markDependentsDirty rD s) buf.reverse ∧ PureBound (markDependentsDirty rD s) B ∧
      buf.reverse.length ≤ r.nodes.size := by
  have hS1 := hA.struct.setValue hn v
  have hloop := fun rD buf => loopInvD_start (v := v) (rD := rD) (buf := buf) hA hn hc
  have hsf := SameFrame.setNode r s { ns with value := some v }
  have hget1 := Dfs.get?_setNode_of_get? hn { ns with value := some v }
  obtain ⟨r1, hr1⟩ : ∃ r1, r1 = r.setNode s { ns with value := some v } := ⟨_, rfl⟩
  rw [← hr1] at hS1 hloop hsf hget1 ⊢
  obtain ⟨f1, f2, f3, f4, f5, f6, f7, f8⟩ := hsf
  have hU1 : Unmarked r1 := by
    intro j m hm
    rw [hget1] at hm
    split at hm
    · cases hm; exact hA.unmarked s ns hn
    · exact hA.unmarked j m hm
  have hal : r1.alive s = true := Root.alive_iff.2 ⟨_, by rw [hget1, if_pos rfl]⟩
  have hB1 : PureBound r1 B := by
    intro j m eq cl hm hcb
    rw [hget1] at hm
    split at hm
    · cases hm; rw [hc] at hcb; cases hcb
    · exact hB j m eq cl hm hcb
  obtain ⟨rD, buf, hvis, hSch, hreach⟩ := visitStarts_sched hS1.up hS1.nd hU1 hal
  refine ⟨rD, buf, hvis, hSch, hreach, hloop rD buf hSch, (scheduled_evolvesD hSch).pureBound hB1, ?_⟩
  rw [List.length_reverse, ← f1, ← hSch.frame.size]
  exact length_le_size_of_nodup hSch.nodup hSch.alive

/-- **C01 for dynamic dependency graphs, static no-late-edge hypothesis.**  Writing `v` into the
signal `s` of a `DynArena` (`setSilent`, then `propagateUpdates` with any fuel `≥ size + B + 6`, `B` a
bound on the body costs), when the arena after the write satisfies `NoLateEdgeStatic`, does not panic
and ends in a `DynArena` again: every live computation is locally consistent, nothing is dirty, all
marks are `none`, every dependency list is the list of tracked reads of a run on the final values.
Moreover (`EvolvesD`): liveness, callbacks, children, cleanups and parents are as before; the values
of callback-less nodes (signals, scopes) are untouched by the propagation; the trace grew by `ran`,
which consists of `run` events only, at most one per node (`(runIds ran).Nodup`), all of scheduled
nodes; a node that did not run kept its value and its dependency list. -/
theorem C01_dynamic_set {r : Root} {s : Id} {ns : Node} {old : Int} {B fuel : Nat}
    (hA : DynArena r) (hn : r.get? s = some ns) (hc : ns.callback = none) (hv : ns.value = some old)
    (hB : PureBound r B) (hf : r.nodes.size + B + 6 ≤ fuel) (v : Int)
    (hL : NoLateEdgeStatic (r.setNode s { ns with value := some v }) s) :
    setSilent r s v = .ok (r.setNode s { ns with value := some v }) ∧
    ∃ r' ran, propagateUpdates fuel (r.setNode s { ns with value := some v }) s = .ok r' ∧
      DynArena r' ∧ EvolvesD (r.setNode s { ns with value := some v }) r' ran ∧ (runIds ran).Nodup ∧
      ∀ j ∈ runIds ran, Reach (r.setNode s { ns with value := some v }) s j := by
  refine ⟨setSilent_eq hn hv v, ?_⟩
  obtain ⟨rD, buf, hvis, hSch, hreach, hI, hBM, hlen⟩ := C01_dynamic_schedule hA hn hc hB v
  obtain ⟨f, rfl⟩ : ∃ f, fuel = f + 2 := ⟨fuel - 2, by omega⟩
  obtain ⟨r', ran, hrun, hI', hE, hsub⟩ := propagateLoop_dyn buf.reverse _ f B hI
    (lateOk_start hSch hreach hL) hBM (by omega)
  exact ⟨r', ran, C01_dynamic_finish hA hvis hSch hreach hrun hI' hE hsub⟩

/-- **C01 for dynamic dependency graphs, trace hypothesis.**  The same conclusion when, along the
run of the propagation itself, no computation reads at the moment it is re-run a node that is still
waiting in the schedule (`NoLateEdgeRun`: only the reads on the branch actually taken count). -/
theorem C01_dynamic_set_run {r : Root} {s : Id} {ns : Node} {old : Int} {B fuel : Nat}
    (hA : DynArena r) (hn : r.get? s = some ns) (hc : ns.callback = none) (hv : ns.value = some old)
    (hB : PureBound r B) (hf : r.nodes.size + B + 6 ≤ fuel) (v : Int)
    (hL : NoLateEdgeRun fuel (r.setNode s { ns with value := some v }) s) :
    setSilent r s v = .ok (r.setNode s { ns with value := some v }) ∧
    ∃ r' ran, propagateUpdates fuel (r.setNode s { ns with value := some v }) s = .ok r' ∧
      DynArena r' ∧ EvolvesD (r.setNode s { ns with value := some v }) r' ran ∧ (runIds ran).Nodup ∧
      ∀ j ∈ runIds ran, Reach (r.setNode s { ns with value := some v }) s j := by
  refine ⟨setSilent_eq hn hv v, ?_⟩
  obtain ⟨rD, buf, hvis, hSch, hreach, hI, hBM, hlen⟩ := C01_dynamic_schedule hA hn hc hB v
  obtain ⟨f, rfl⟩ : ∃ f, fuel = f + 2 := ⟨fuel - 2, by omega⟩
  simp only [NoLateEdgeRun, hvis] at hL
  obtain ⟨r', ran, hrun, hI', hE, hsub⟩ := propagateLoop_dyn_run buf.reverse _ f B hI hL hBM (by omega)
  exact ⟨r', ran, C01_dynamic_finish hA hvis hSch hreach hrun hI' hE hsub⟩

/-- the static hypothesis implies the trace hypothesis (so `C01_dynamic_set_run` is the sharper
theorem) -/
theorem noLateEdgeStatic_run {r : Root} {s : Id} {ns : Node} {B fuel : Nat}
    (hA : DynArena r) (hn : r.get? s = some ns) (hc : ns.callback = none)
    (hB : PureBound r B) (hf : r.nodes.size + B + 6 ≤ fuel) (v : Int)
    (hL : NoLateEdgeStatic (r.setNode s { ns with value := some v }) s) :
    NoLateEdgeRun fuel (r.setNode s { ns with value := some v }) s := by
  obtain ⟨rD, buf, hvis, hSch, hreach, hI, hBM, hlen⟩ := C01_dynamic_schedule hA hn hc hB v
  obtain ⟨f, rfl⟩ : ∃ f, fuel = f + 2 := ⟨fuel - 2, by omega⟩
  simp only [NoLateEdgeRun, hvis]
  exact lateOk_noLateRun buf.reverse _ f B hI (lateOk_start hSch hreach hL) hBM (by omega)

/-- `C01_dynamic_set` with the fuel bound left implicit -/
theorem C01_dynamic_set_exists {r : Root} {s : Id} {ns : Node} {old : Int}
    (hA : DynArena r) (hn : r.get? s = some ns) (hc : ns.callback = none) (hv : ns.value = some old)
    (v : Int) (hL : NoLateEdgeStatic (r.setNode s { ns with value := some v }) s) :
    ∃ F, ∀ fuel, F ≤ fuel →
      ∃ r' ran, propagateUpdates fuel (r.setNode s { ns with value := some v }) s = .ok r' ∧
        DynArena r' ∧ EvolvesD (r.setNode s { ns with value := some v }) r' ran ∧ (runIds ran).Nodup := by
  obtain ⟨B, hB⟩ := exists_pureBound r
  refine ⟨r.nodes.size + B + 6, fun fuel hf => ?_⟩
  obtain ⟨_, r', ran, h1, h2, h3, h4, _⟩ := C01_dynamic_set hA hn hc hv hB hf v hL
  exact ⟨r', ran, h1, h2, h3, h4⟩

/-- the same through the DSL statement `set h e` -/
theorem C01_dynamic_execSet {r : Root} {c : Ctx} {h : Nat} {e : Ex} {hd : Handle} {ns : Node} {old : Int}
    {B fuel : Nat} (hA : DynArena r) (hl : c.env[h]? = some hd) (hk : hd.kind = .signal)
    (hn : r.get? hd.id = some ns) (hc : ns.callback = none) (hv : ns.value = some old)
    (hB : PureBound r B) (hf : r.nodes.size + B + 7 ≤ fuel)
    (hL : NoLateEdgeStatic (r.setNode hd.id { ns with value := some (evalEx e c.acc) }) hd.id) :
    ∃ r', execStmt fuel r c (.set h e) = .ok (r', c) ∧ DynArena r' ∧
      (∃ ran, EvolvesD (r.setNode hd.id { ns with value := some (evalEx e c.acc) }) r' ran ∧
        (runIds ran).Nodup) := by
  obtain ⟨f, rfl⟩ : ∃ f, fuel = f + 1 := ⟨fuel - 1, by omega⟩
  obtain ⟨hss, r', ran, hp, hA', hE, hN, _⟩ :=
    C01_dynamic_set (fuel := f) hA hn hc hv hB (by omega) (evalEx e c.acc) hL
  exact ⟨r', by simp [execStmt, lookup, hl, hk, hss, hp], hA', ran, hE, hN⟩

/-! ### 4. the intermediate results, restated

The proofs are in `Lemmas/PropagateDyn.lean`; the statements are repeated here so that everything
the theorem rests on can be read in one place. -/

/-- (a) `runClosure` on a pure body under `tracker = some t`: if every node read on the branch taken
is alive and holds a value, the run succeeds with value `evalPureBody`, appends `trackedReads` to the
tracker, logs `pureObs`, and changes nothing else in the root. Fuel: `pureCost` + 2 (one unit per
statement, two per nesting level). -/
theorem C01_dynamic_runClosure {fuel : Nat} {r : Root} {cl : Closure} {t : List Id} {self : Id}
    (hp : PureBody cl.body) (hok : PureHandlesOk self cl.env cl.body) (ht : r.tracker = some t)
    (hal : ∀ id ∈ trackedReads r cl.env cl.body, ∃ n v, r.get? id = some n ∧ n.value = some v)
    (hf : pureCost cl.body + 2 ≤ fuel) :
    ∃ v, evalPureBody r cl.env cl.body 0 = some v ∧
      runClosure fuel r cl =
        .ok ({ r with tracker := some (t ++ trackedReads r cl.env cl.body) }, v,
             pureObs r cl.env cl.body) :=
  runClosure_pure hp hok ht hal hf

/-- (b) `runNodeUpdate` on a pure computation of a `StructD` state: no panic; the node's value
becomes `evalPureBody` of the current values (or stays, if the selector's `eq` accepts), it is clean,
its dependency list becomes `trackedReads` of the current values, its callback / children / cleanups
/ mark are as before; every other node keeps everything except `dependents` and gets `dirty` iff the
value changed and it has `cur` among its dependencies; `NoDangling` and `EdgesSym` still hold; exactly
one `run` event is logged (`RunPostD`). -/
theorem C01_dynamic_runNodeUpdate {fuel : Nat} {r : Root} {cur : Id} {n : Node} {eq : EqKind}
    {cl : Closure} {old : Int} (hS : StructD r) (hn : r.get? cur = some n)
    (hcb : n.callback = some (eq, cl)) (hv : n.value = some old) (hf : pureCost cl.body + 3 ≤ fuel) :
    ∃ new r', evalPureBody r cl.env cl.body 0 = some new ∧ runNodeUpdate fuel r cur = .ok r' ∧
      RunPostD r cur (if eqHolds eq new old then old else new) (!eqHolds eq new old)
        (trackedReads r cl.env cl.body) (.run cur (pureObs r cl.env cl.body) new) r' :=
  runNodeUpdate_dyn hS hn hcb hv hf

/-- (c) the second loop under the trace hypothesis: from a state satisfying `LoopInvD`, if along the
run no computation reads a node that is still pending (`NoLateRun`), the loop ends without panic
with nothing pending, having run a sublist of the schedule -/
theorem C01_dynamic_loop_run (Pn : List Id) (r : Root) (fuel B : Nat) (hI : LoopInvD r Pn)
    (hL : NoLateRun fuel r Pn) (hB : PureBound r B) (hf : Pn.length + B + 4 ≤ fuel) :
    ∃ r' ran, propagateLoop fuel r Pn = .ok r' ∧ LoopInvD r' [] ∧ EvolvesD r r' ran ∧
      (runIds ran).Sublist Pn :=
  propagateLoop_dyn_run Pn r fuel B hI hL hB hf

/-- (c') the static hypothesis on the schedule (`LateOk`) implies the trace hypothesis -/
theorem C01_dynamic_lateOk (Pn : List Id) (r : Root) (fuel B : Nat) (hI : LoopInvD r Pn)
    (hL : LateOk r Pn) (hB : PureBound r B) (hf : Pn.length + B + 4 ≤ fuel) : NoLateRun fuel r Pn :=
  lateOk_noLateRun Pn r fuel B hI hL hB hf

/-! ### 5. static dependency graphs are an instance -/

theorem Struct.toD {r : Root} (h : Struct r) : StructD r := by
  refine ⟨h.nd, h.sym, fun j n hn => ?_⟩
  have hk := h.node j n hn
  refine ⟨hk.value, hk.plain, fun eq cl hc => ?_⟩
  obtain ⟨a1, a2, a3, a4, a5⟩ := hk.comp eq cl hc
  obtain ⟨p1, _, p3, _, p5⟩ := readOnly_pure a3
  refine ⟨a1, a2, p1, p5 j cl.env a4, fun d hd => ?_, fun d hd => ?_⟩
  · rw [p3, ← a5] at hd; exact (h.nd j n hn).2 d hd
  · rw [p3, ← a5]; exact hd

theorem StaticArena.toDyn {r : Root} (h : StaticArena r) : DynArena r := by
  refine ⟨h.struct.toD, h.unmarked, h.clean, h.tracker, h.batching, h.queue, h.consistent,
    fun j n hn eq cl hc => ?_⟩
  obtain ⟨_, _, a3, _, a5⟩ := (h.struct.node j n hn).comp eq cl hc
  rw [a5, ((readOnly_pure a3).2.2.2.1 r cl.env).1]

/-- with branch-free bodies every node a body can read is a dependency: no late edge is possible -/
theorem noLateEdgeStatic_of_struct {r : Root} (hS : Struct r) (s : Id) : NoLateEdgeStatic r s := by
  intro c d _ hd _
  unfold allReadsOf at hd
  unfold depsOf
  split at hd
  · rename_i n hn
    split at hd
    · rename_i eq cl hc
      obtain ⟨_, _, a3, _, a5⟩ := (hS.node c n hn).comp eq cl hc
      rw [(readOnly_pure a3).2.2.1, ← a5] at hd
      simpa [hn] using hd
    · cases hd
  · cases hd

theorem BodyBound.toPure {r : Root} {B : Nat} (hS : Struct r) (hB : BodyBound r B) : PureBound r B := by
  intro j n eq cl hn hc
  obtain ⟨_, _, a3, _, _⟩ := (hS.node j n hn).comp eq cl hc
  rw [(readOnly_pure a3).2.1]; exact hB j n eq cl hn hc

/-- a `DynArena` all of whose bodies are branch-free is a `StaticArena` -/
theorem DynArena.toStatic {r : Root} (h : DynArena r)
    (hro : ∀ j n eq cl, r.get? j = some n → n.callback = some (eq, cl) →
      ReadOnly cl.body ∧ ReadHandlesOk j cl.env cl.body) : StaticArena r := by
  refine ⟨⟨h.struct.nd, h.struct.sym, fun j n hn => ?_⟩, h.unmarked, h.clean, h.tracker, h.batching,
    h.queue, h.consistent⟩
  have hk := h.struct.node j n hn
  refine ⟨hk.value, hk.plain, fun eq cl hc => ?_⟩
  obtain ⟨a1, a2, _⟩ := hk.comp eq cl hc
  obtain ⟨b1, b2⟩ := hro j n eq cl hn hc
  refine ⟨a1, a2, b1, b2, ?_⟩
  rw [h.deps j n hn eq cl hc, ((readOnly_pure b1).2.2.2.1 r cl.env).1]

/-- **`C01_static_set` is an instance of `C01_dynamic_set`**: the statement of `C01_static_set`,
proved from the dynamic theorem (a `StaticArena` is a `DynArena`, and `NoLateEdgeStatic` holds
because `allReads = dependencies`) -/
theorem C01_dynamic_static {r : Root} {s : Id} {ns : Node} {old : Int} {B fuel : Nat}
    (hA : StaticArena r) (hn : r.get? s = some ns) (hc : ns.callback = none) (hv : ns.value = some old)
    (hB : BodyBound r B) (hf : r.nodes.size + B + 6 ≤ fuel) (v : Int) :
    setSilent r s v = .ok (r.setNode s { ns with value := some v }) ∧
    ∃ r' ran, propagateUpdates fuel (r.setNode s { ns with value := some v }) s = .ok r' ∧
      StaticArena r' ∧ Evolves (r.setNode s { ns with value := some v }) r' ran ∧ (runIds ran).Nodup := by
  have hS1 := hA.struct.setValue hn v
  obtain ⟨h0, r', ran, h1, h2, h3, h4, _⟩ := C01_dynamic_set hA.toDyn hn hc hv (hB.toPure hA.struct) hf v
    (noLateEdgeStatic_of_struct hS1 s)
  -- the bodies of `r'` are the bodies of `r1`
  have hbody : ∀ j n' eq cl, r'.get? j = some n' → n'.callback = some (eq, cl) →
      ∃ n1, (r.setNode s { ns with value := some v }).get? j = some n1 ∧ n1.callback = some (eq, cl) := by
    intro j n' eq cl hn' hcb
    cases hm : (r.setNode s { ns with value := some v }).get? j with
    | none => rw [h3.dead j hm] at hn'; cases hn'
    | some m =>
      obtain ⟨m', hm', c1, _⟩ := h3.node j m hm
      rw [hn'] at hm'; cases hm'
      exact ⟨m, rfl, c1 ▸ hcb⟩
  have hA' : StaticArena r' := h2.toStatic fun j n' eq cl hn' hcb => by
    obtain ⟨n1, hn1, hc1⟩ := hbody j n' eq cl hn' hcb
    obtain ⟨_, _, a3, a4, _⟩ := (hS1.node j n1 hn1).comp eq cl hc1
    exact ⟨a3, a4⟩
  refine ⟨h0, r', ran, h1, hA', ⟨h3.frame, h3.trace, h3.runs, h3.dead, fun j m hm => ?_⟩, h4⟩
  obtain ⟨m', hm', c1, c3, c4, c5, c6, c7⟩ := h3.node j m hm
  refine ⟨m', hm', c1, ?_, c3, c4, c5, fun hcn => (c6 hcn).1, fun hj => (c7 hj).1⟩
  cases hcb : m.callback with
  | none => exact (c6 hcb).2
  | some p =>
    obtain ⟨eq, cl⟩ := p
    rw [((hS1.node j m hm).comp eq cl hcb).2.2.2.2, ((hA'.struct.node j m' hm').comp eq cl (c1.trans hcb)).2.2.2.2]

/-! ### 6. Boolean checkers (used for the examples) -/

mutual
def pureBodyB : Body → Bool
  | .nil => true
  | .cons s rest => pureStmtB s && pureBodyB rest
def pureStmtB : Stmt → Bool
  | .read _ => true
  | .ifpos _ t e => pureBodyB t && pureBodyB e
  | _ => false
end

mutual
def pureHandlesOkB (self : Id) (env : List Handle) : Body → Bool
  | .nil => true
  | .cons s rest => pureHandlesOkStmtB self env s && pureHandlesOkB self env rest
def pureHandlesOkStmtB (self : Id) (env : List Handle) : Stmt → Bool
  | .read h =>
    match env[h]? with
    | none => false
    | some hd => isValueKind hd.kind && decide (hd.id < self)
  | .ifpos h t e =>
    (match env[h]? with
     | none => false
     | some hd => isValueKind hd.kind && decide (hd.id < self)) &&
    pureHandlesOkB self env t && pureHandlesOkB self env e
  | _ => true
end

mutual
theorem pureBodyB_sound (b : Body) (h : pureBodyB b = true) : PureBody b := by
  cases b with
  | nil => trivial
  | cons s rest =>
    simp only [pureBodyB, Bool.and_eq_true] at h
    exact ⟨pureStmtB_sound s h.1, pureBodyB_sound rest h.2⟩
theorem pureStmtB_sound (s : Stmt) (h : pureStmtB s = true) : PureStmt s := by
  cases s with
  | read _ => trivial
  | ifpos _ t e =>
    simp only [pureStmtB, Bool.and_eq_true] at h
    exact ⟨pureBodyB_sound t h.1, pureBodyB_sound e h.2⟩
  | _ => simp [pureStmtB] at h
end

theorem handleOkB_sound {self : Id} {env : List Handle} {h : Nat}
    (hb : (match env[h]? with
      | none => false
      | some hd => isValueKind hd.kind && decide (hd.id < self)) = true) :
    ∃ hd, env[h]? = some hd ∧ isValueKind hd.kind = true ∧ hd.id < self := by
  split at hb
  · cases hb
  · rename_i hd hhd
    simp only [Bool.and_eq_true, decide_eq_true_eq] at hb
    exact ⟨hd, hhd, hb.1, hb.2⟩

mutual
theorem pureHandlesOkB_sound {self : Id} {env : List Handle} (b : Body)
    (h : pureHandlesOkB self env b = true) : PureHandlesOk self env b := by
  cases b with
  | nil => trivial
  | cons s rest =>
    simp only [pureHandlesOkB, Bool.and_eq_true] at h
    exact ⟨pureHandlesOkStmtB_sound s h.1, pureHandlesOkB_sound rest h.2⟩
theorem pureHandlesOkStmtB_sound {self : Id} {env : List Handle} (s : Stmt)
    (h : pureHandlesOkStmtB self env s = true) : PureHandlesOkStmt self env s := by
  cases s with
  | read hh =>
    simp only [pureHandlesOkStmtB] at h
    exact handleOkB_sound h
  | ifpos hh t e =>
    simp only [pureHandlesOkStmtB, Bool.and_eq_true] at h
    exact ⟨handleOkB_sound h.1.1, pureHandlesOkB_sound t h.1.2, pureHandlesOkB_sound e h.2⟩
  | _ => simp [PureHandlesOkStmt]
end

def dynNodeOkB (r : Root) (j : Id) (n : Node) : Bool :=
  n.value.isSome &&
  match n.callback with
  | none => decide (n.dependencies = [])
  | some (_, cl) =>
    n.children.isEmpty && n.cleanups.isEmpty && pureBodyB cl.body && pureHandlesOkB j cl.env cl.body &&
    (allReads cl.env cl.body).all r.alive &&
    n.dependencies.all (fun d => (allReads cl.env cl.body).contains d) &&
    decide (n.dependencies = trackedReads r cl.env cl.body)

theorem dynNodeOkB_sound {r : Root} {j : Id} {n : Node} (h : dynNodeOkB r j n = true) :
    DynNodeOk r j n ∧ DepsCurrent r n := by
  simp only [dynNodeOkB, Bool.and_eq_true] at h
  obtain ⟨h1, h2⟩ := h
  refine ⟨⟨h1, fun hc => ?_, fun eq cl hc => ?_⟩, fun eq cl hc => ?_⟩
  · rw [hc] at h2; simpa using h2
  · rw [hc] at h2
    simp only [Bool.and_eq_true, decide_eq_true_eq, List.isEmpty_iff, List.all_eq_true,
      List.contains_eq_mem] at h2
    obtain ⟨⟨⟨⟨⟨⟨a, b⟩, c⟩, d⟩, e⟩, f⟩, _⟩ := h2
    exact ⟨a, b, pureBodyB_sound _ c, pureHandlesOkB_sound _ d, e, f⟩
  · rw [hc] at h2
    simp only [Bool.and_eq_true, decide_eq_true_eq] at h2
    exact h2.2

def dynArenaB (r : Root) : Bool :=
  let L := liveNodes r
  L.all (fun p => p.2.dependents.all r.alive && p.2.dependencies.all r.alive) &&
  L.all (fun a => L.all fun b => a.2.dependents.count b.1 == b.2.dependencies.count a.1) &&
  L.all (fun p => dynNodeOkB r p.1 p.2) &&
  L.all (fun p => p.2.mark == .none && !p.2.dirty) &&
  r.tracker.isNone && !r.batching && r.queue.isEmpty &&
  L.all (fun p => decide (locallyConsistent r p.1))

theorem dynArenaB_sound {r : Root} (h : dynArenaB r = true) : DynArena r := by
  simp only [dynArenaB, Bool.and_eq_true, List.all_eq_true, decide_eq_true_eq, Bool.not_eq_true',
    beq_iff_eq, Option.isNone_iff_eq_none, List.isEmpty_iff] at h
  obtain ⟨⟨⟨⟨⟨⟨⟨h1, h2⟩, h3⟩, h4⟩, h5⟩, h6⟩, h7⟩, h8⟩ := h
  refine ⟨⟨fun i n hn => ?_, fun a b na nb ha hb => ?_, fun j n hn => ?_⟩, fun j n hn => ?_, fun j n hn => ?_,
    h5, h6, h7, fun j => ?_, fun j n hn => ?_⟩
  · have := h1 _ (mem_liveNodes hn)
    exact ⟨fun d hd => this.1 d hd, fun d hd => this.2 d hd⟩
  · exact h2 _ (mem_liveNodes ha) _ (mem_liveNodes hb)
  · exact (dynNodeOkB_sound (h3 _ (mem_liveNodes hn))).1
  · exact (h4 _ (mem_liveNodes hn)).1
  · exact (h4 _ (mem_liveNodes hn)).2
  · cases hn : r.get? j with
    | none => unfold locallyConsistent; rw [hn]; trivial
    | some n => exact h8 _ (mem_liveNodes hn)
  · exact (dynNodeOkB_sound (h3 _ (mem_liveNodes hn))).2

def pureBoundB (r : Root) (B : Nat) : Bool :=
  (liveNodes r).all fun p =>
    match p.2.callback with
    | some (_, cl) => decide (pureCost cl.body ≤ B)
    | none => true

theorem pureBoundB_sound {r : Root} {B : Nat} (h : pureBoundB r B = true) : PureBound r B := by
  intro j n eq cl hn hc
  simp only [pureBoundB, List.all_eq_true] at h
  have := h _ (mem_liveNodes hn)
  simpa [hc] using this

/-- `NoLateEdgeStatic`, computed with the model's own `dfs`: the buffer is the set of scheduled nodes -/
def noLateEdgeB (r : Root) (s : Id) : Bool :=
  match visitStarts r [] [s] with
  | .ok (_, buf) =>
    buf.all fun c => (allReadsOf r c).all fun d => !buf.contains d || (depsOf r c).contains d
  | .error _ => false

theorem noLateEdgeB_iff {r : Root} {s : Id} (hu : Up r) (hnd : NoDangling r) (hm : Unmarked r)
    (hs : r.alive s = true) : noLateEdgeB r s = true ↔ NoLateEdgeStatic r s := by
  obtain ⟨rD, buf, hvis, _, hreach⟩ := visitStarts_sched hu hnd hm hs
  unfold noLateEdgeB NoLateEdgeStatic
  rw [hvis]
  simp only [List.all_eq_true, Bool.or_eq_true, Bool.not_eq_true', List.contains_eq_mem,
    decide_eq_false_iff_not, decide_eq_true_eq]
  constructor
  · intro h c d hc hd hdr
    rcases h c ((hreach c).2 hc) d hd with h | h
    · exact absurd ((hreach d).2 hdr) h
    · exact h
  · intro h c hc d hd
    by_cases hdb : d ∈ buf
    · exact .inr (h c d ((hreach c).1 hc) hd ((hreach d).1 hdb))
    · exact .inl hdb

/-- the checker decides the hypothesis of `C01_dynamic_set` -/
theorem noLateEdgeB_iff_write {r : Root} {s : Id} {ns : Node} (hA : DynArena r) (hn : r.get? s = some ns)
    (v : Int) :
    noLateEdgeB (r.setNode s { ns with value := some v }) s = true ↔
      NoLateEdgeStatic (r.setNode s { ns with value := some v }) s := by
  have hS1 := hA.struct.setValue hn v
  have hget1 := Dfs.get?_setNode_of_get? hn { ns with value := some v }
  refine noLateEdgeB_iff hS1.up hS1.nd (fun j m hm => ?_) (Root.alive_iff.2 ⟨_, by rw [hget1, if_pos rfl]⟩)
  rw [hget1] at hm
  split at hm
  · cases hm; exact hA.unmarked s ns hn
  · exact hA.unmarked j m hm

/-! ### 7. the D1 witness violates the hypothesis -/

/-- after the first three operations of `d1Witness` (`s = signal 0` is node 1, `b = memo(s, s)` node 2,
`c = memo(if s > 0 { b })` node 3) the arena is a `DynArena`, and the arena after the write `s := 1`
does NOT satisfy the no-late-edge hypothesis: `c` can read `b`, both are scheduled, and `b` is not a
dependency of `c` -/
def d1LateCheck : Bool :=
  match runOps 60 (d1Witness.take 3) Root.init [] with
  | .ok (r, _) =>
    dynArenaB r &&
    (match r.get? 1 with
     | some ns => ns.callback.isNone && !(noLateEdgeB (r.setNode 1 { ns with value := some 1 }) 1)
     | none => false)
  | .error _ => false

theorem d1LateCheck_true : d1LateCheck = true := by decide +kernel

/-- **sanity: `NoLateEdgeStatic` is exactly what excludes the D1 witness** -/
theorem d1_violates_noLateEdge : ∃ r env ns,
    runOps 60 (d1Witness.take 3) Root.init [] = .ok (r, env) ∧ DynArena r ∧ r.get? 1 = some ns ∧
    ns.callback = none ∧ ¬ NoLateEdgeStatic (r.setNode 1 { ns with value := some 1 }) 1 := by
  have h := d1LateCheck_true
  unfold d1LateCheck at h
  split at h
  · rename_i r env hr
    simp only [Bool.and_eq_true] at h
    obtain ⟨hA, h2⟩ := h
    have hA' := dynArenaB_sound hA
    split at h2
    · rename_i ns hns
      simp only [Bool.and_eq_true, Option.isNone_iff_eq_none, Bool.not_eq_true'] at h2
      refine ⟨r, env, ns, hr, hA', hns, h2.1, fun hL => ?_⟩
      rw [(noLateEdgeB_iff_write hA' hns 1).2 hL] at h2
      exact absurd h2.2 (by simp)
    · cases h2
  · cases h

/-! ### 8. non-vacuity: programs WITH conditional reads and a write that flips the branch -/

theorem runOps_single {fuel : Nat} {st : Stmt} {r r' : Root} {env : List Handle} {c' : Ctx}
    (h : execStmt fuel r ⟨env, 0, []⟩ st = .ok (r', c')) : runOps fuel [st] r env = .ok (r', c'.env) := by
  simp [runOps, h]

/-- Boolean form of: `prog` runs; the result `r` is a `DynArena` with body costs `≤ 10`; handle 0 is
the signal node 1; the arena after `s := v` has no late edge; node `c` has dependencies `before`;
and after `set 0 v` the arena is a `DynArena` again in which `c` has dependencies `after` -/
def dynDemoCheck (prog : List Stmt) (v : Int) (c : Id) (before after : List Id) : Bool :=
  match runOps 60 prog Root.init [] with
  | .ok (r, env) =>
    dynArenaB r && pureBoundB r 10 && decide (r.nodes.size ≤ 40) && decide (depsOf r c = before) &&
    decide (env[0]? = some ⟨1, .signal⟩) &&
    (match r.get? 1 with
     | some ns => ns.callback.isNone && ns.value.isSome &&
        noLateEdgeB (r.setNode 1 { ns with value := some v }) 1
     | none => false) &&
    (match runOps 60 [.set 0 (.const v)] r env with
     | .ok (r', _) => decide (depsOf r' c = after) && dynArenaB r'
     | .error _ => false)
  | .error _ => false

/-- what a successful `dynDemoCheck` means: all hypotheses of `C01_dynamic_execSet` hold, hence (by
the theorem, not by running the model) the write ends in a `DynArena`; and the dependency list of
`c` really changed from `before` to `after` -/
theorem dynDemoCheck_sound {prog : List Stmt} {v : Int} {c : Id} {before after : List Id}
    (h : dynDemoCheck prog v c before after = true) :
    ∃ r env ns, runOps 60 prog Root.init [] = .ok (r, env) ∧ DynArena r ∧ PureBound r 10 ∧
      r.get? 1 = some ns ∧ ns.callback = none ∧
      NoLateEdgeStatic (r.setNode 1 { ns with value := some v }) 1 ∧ depsOf r c = before ∧
      ∃ r', execStmt 60 r ⟨env, 0, []⟩ (.set 0 (.const v)) = .ok (r', ⟨env, 0, []⟩) ∧ DynArena r' ∧
        depsOf r' c = after := by
  unfold dynDemoCheck at h
  split at h
  · rename_i r env hr
    simp only [Bool.and_eq_true, decide_eq_true_eq] at h
    obtain ⟨⟨⟨⟨⟨⟨hA, hB⟩, hsz⟩, hbef⟩, henv⟩, h6⟩, h7⟩ := h
    have hA' := dynArenaB_sound hA
    have hB' := pureBoundB_sound hB
    split at h6
    · rename_i ns hns
      simp only [Bool.and_eq_true, Option.isNone_iff_eq_none] at h6
      obtain ⟨⟨hcb, hval⟩, hL⟩ := h6
      obtain ⟨old, hold⟩ := Option.isSome_iff_exists.1 hval
      have hL' := (noLateEdgeB_iff_write hA' hns v).1 hL
      obtain ⟨r', hex, hA'', _⟩ := C01_dynamic_execSet (c := ⟨env, 0, []⟩) (h := 0) (e := .const v)
        (hd := ⟨1, .signal⟩) (fuel := 60) hA' henv rfl hns hcb hold hB' (by omega) hL'
      refine ⟨r, env, ns, hr, hA', hB', hns, hcb, hL', hbef, r', hex, hA'', ?_⟩
      rw [runOps_single hex] at h7
      simp only [Bool.and_eq_true, decide_eq_true_eq] at h7
      exact h7.1
    · cases h6
  · cases h

/-- `s = signal 1; t = signal 5; m = memo(t); c = memo(if s > 0 { m } else { t })`, then `s.set(0)`:
the branch flips, `c` (node 4) stops reading `m` (node 3) and starts reading `t` (node 2), which is
not scheduled -/
def dynDemo : List Stmt :=
  [.signal 1, .signal 5, .memo (.cons (.read 1) .nil),
   .memo (.cons (.ifpos 0 (.cons (.read 2) .nil) (.cons (.read 1) .nil)) .nil)]

theorem dynDemo_check : dynDemoCheck dynDemo 0 4 [1, 3] [1, 2] = true := by decide +kernel

/-- **non-vacuity 1**: `C01_dynamic_set` applies to `dynDemo` and the branch flips -/
theorem dynDemo_instance :
    ∃ r env ns, runOps 60 dynDemo Root.init [] = .ok (r, env) ∧ DynArena r ∧ PureBound r 10 ∧
      r.get? 1 = some ns ∧ ns.callback = none ∧
      NoLateEdgeStatic (r.setNode 1 { ns with value := some 0 }) 1 ∧ depsOf r 4 = [1, 3] ∧
      ∃ r', execStmt 60 r ⟨env, 0, []⟩ (.set 0 (.const 0)) = .ok (r', ⟨env, 0, []⟩) ∧ DynArena r' ∧
        depsOf r' 4 = [1, 2] :=
  dynDemoCheck_sound dynDemo_check

/-- `s = signal 1; t = signal 5; m = memo(s); c = memo(if s > 0 { m } else { t }); e = effect(c, m)`,
then `s.set(0)`: `m` (node 3) IS scheduled and is read by `c` (node 4) on one branch, but the edge
`m → c` exists when the order is fixed; the run drops it -/
def dynDemo2 : List Stmt :=
  [.signal 1, .signal 5, .memo (.cons (.read 0) .nil),
   .memo (.cons (.ifpos 0 (.cons (.read 2) .nil) (.cons (.read 1) .nil)) .nil),
   .effect (.cons (.read 3) (.cons (.read 2) .nil))]

theorem dynDemo2_check : dynDemoCheck dynDemo2 0 4 [1, 3] [1, 2] = true := by decide +kernel

/-- **non-vacuity 2**: a scheduled memo is read on the old branch; the edge is dropped -/
theorem dynDemo2_instance :
    ∃ r env ns, runOps 60 dynDemo2 Root.init [] = .ok (r, env) ∧ DynArena r ∧ PureBound r 10 ∧
      r.get? 1 = some ns ∧ ns.callback = none ∧
      NoLateEdgeStatic (r.setNode 1 { ns with value := some 0 }) 1 ∧ depsOf r 4 = [1, 3] ∧
      ∃ r', execStmt 60 r ⟨env, 0, []⟩ (.set 0 (.const 0)) = .ok (r', ⟨env, 0, []⟩) ∧ DynArena r' ∧
        depsOf r' 4 = [1, 2] :=
  dynDemoCheck_sound dynDemo2_check

/-- the reverse write on `dynDemo2` (`s: 0 → 1`, the D1 shape) has a late edge: the checker rejects it -/
def dynDemo2Rev : List Stmt :=
  [.signal 0, .signal 5, .memo (.cons (.read 0) .nil),
   .memo (.cons (.ifpos 0 (.cons (.read 2) .nil) (.cons (.read 1) .nil)) .nil)]

theorem dynDemo2Rev_rejected :
    (match runOps 60 dynDemo2Rev Root.init [] with
     | .ok (r, _) =>
       dynArenaB r &&
       (match r.get? 1 with
        | some ns => !(noLateEdgeB (r.setNode 1 { ns with value := some 1 }) 1)
        | none => false)
     | .error _ => false) = true := by decide +kernel

/-! ### 9. the trace hypothesis is decidable, excludes D1, and is strictly weaker than the static one -/

/-- Boolean mirror of `NoLateRun` -/
def noLateRunB : Nat → Root → List Id → Bool
  | 0, _, _ => true
  | _ + 1, _, [] => true
  | fuel + 1, r, node :: rest =>
    match r.get? node with
    | none => noLateRunB fuel r rest
    | some n =>
      if n.dirty then
        (readsNow (r.setNode node { n with mark := .none }) node).all (fun d => !rest.contains d) &&
        (match runNodeUpdate fuel (r.setNode node { n with mark := .none }) node with
         | .error _ => true
         | .ok r3 => noLateRunB fuel r3 rest)
      else noLateRunB fuel (r.setNode node { n with mark := .none }) rest

theorem noLateRunB_iff : ∀ (fuel : Nat) (r : Root) (Pn : List Id),
    noLateRunB fuel r Pn = true ↔ NoLateRun fuel r Pn
  | 0, _, _ => by simp [noLateRunB, NoLateRun]
  | _ + 1, _, [] => by simp [noLateRunB, NoLateRun]
  | fuel + 1, r, node :: rest => by
    simp only [noLateRunB, NoLateRun]
    cases hn : r.get? node with
    | none => exact noLateRunB_iff fuel r rest
    | some n =>
      simp only []
      by_cases hd : n.dirty = true
      · rw [if_pos hd, if_pos hd]
        simp only [Bool.and_eq_true, List.all_eq_true, Bool.not_eq_true', List.contains_eq_mem,
          decide_eq_false_iff_not]
        refine and_congr Iff.rfl ?_
        cases runNodeUpdate fuel (r.setNode node { n with mark := .none }) node with
        | error e => simp
        | ok r3 => exact noLateRunB_iff fuel r3 rest
      · rw [if_neg hd, if_neg hd]
        exact noLateRunB_iff fuel _ rest

def noLateEdgeRunB : Nat → Root → Id → Bool
  | fuel + 2, r, s =>
    match visitStarts r [] [s] with
    | .ok (rM, buf) => noLateRunB fuel rM buf.reverse
    | .error _ => true
  | _, _, _ => true

theorem noLateEdgeRunB_iff (fuel : Nat) (r : Root) (s : Id) :
    noLateEdgeRunB fuel r s = true ↔ NoLateEdgeRun fuel r s := by
  unfold noLateEdgeRunB NoLateEdgeRun
  split
  · split
    · exact noLateRunB_iff _ _ _
    · simp
  · simp

/-- `C01_dynamic_set_run` through the DSL statement `set h e` -/
theorem C01_dynamic_execSet_run {r : Root} {c : Ctx} {h : Nat} {e : Ex} {hd : Handle} {ns : Node} {old : Int}
    {B fuel : Nat} (hA : DynArena r) (hl : c.env[h]? = some hd) (hk : hd.kind = .signal)
    (hn : r.get? hd.id = some ns) (hc : ns.callback = none) (hv : ns.value = some old)
    (hB : PureBound r B) (hf : r.nodes.size + B + 6 ≤ fuel)
    (hL : NoLateEdgeRun fuel (r.setNode hd.id { ns with value := some (evalEx e c.acc) }) hd.id) :
    ∃ r', execStmt (fuel + 1) r c (.set h e) = .ok (r', c) ∧ DynArena r' ∧
      (∃ ran, EvolvesD (r.setNode hd.id { ns with value := some (evalEx e c.acc) }) r' ran ∧
        (runIds ran).Nodup) := by
  obtain ⟨hss, r', ran, hp, hA', hE, hN, _⟩ :=
    C01_dynamic_set_run (fuel := fuel) hA hn hc hv hB hf (evalEx e c.acc) hL
  exact ⟨r', by simp [execStmt, lookup, hl, hk, hss, hp], hA', ran, hE, hN⟩

theorem runOps_append (fuel : Nat) (a b : List Stmt) (r : Root) (env : List Handle) :
    runOps fuel (a ++ b) r env =
      match runOps fuel a r env with
      | .ok (r', env') => runOps fuel b r' env'
      | .error e => .error e := by
  induction a generalizing r env with
  | nil => simp [runOps]
  | cons st a ih =>
    simp only [List.cons_append, runOps]
    cases execStmt fuel r ⟨env, 0, []⟩ st with
    | error e => rfl
    | ok p => exact ih p.1 p.2.env

/-- the facts about the arena before the last operation of `d1Witness` that the next theorem uses -/
def d1RunCheck : Bool :=
  match runOps 60 (d1Witness.take 3) Root.init [] with
  | .ok (r, env) =>
    dynArenaB r && pureBoundB r 10 && decide (r.nodes.size ≤ 40) &&
    decide (env[0]? = some ⟨1, .signal⟩) &&
    (match r.get? 1 with
     | some ns => ns.callback.isNone && ns.value.isSome &&
        !(noLateEdgeRunB 59 (r.setNode 1 { ns with value := some 1 }) 1)
     | none => false)
  | .error _ => false

theorem d1RunCheck_true : d1RunCheck = true := by decide +kernel

/-- **the D1 witness violates the trace hypothesis** as well — and here this is not only computed
(`d1RunCheck`): if it held, `C01_dynamic_set_run` would make node 3 consistent after the write,
contradicting `d1_witness_inconsistent` (`Props/C01.lean`) -/
theorem d1_violates_noLateEdgeRun : ∃ r env ns,
    runOps 60 (d1Witness.take 3) Root.init [] = .ok (r, env) ∧ DynArena r ∧ r.get? 1 = some ns ∧
    ns.callback = none ∧ ¬ NoLateEdgeRun 59 (r.setNode 1 { ns with value := some 1 }) 1 := by
  have h := d1RunCheck_true
  unfold d1RunCheck at h
  split at h
  · rename_i r env hr
    simp only [Bool.and_eq_true, decide_eq_true_eq] at h
    obtain ⟨⟨⟨⟨hA, hB⟩, hsz⟩, henv⟩, h5⟩ := h
    have hA' := dynArenaB_sound hA
    split at h5
    · rename_i ns hns
      simp only [Bool.and_eq_true, Option.isNone_iff_eq_none, Bool.not_eq_true'] at h5
      obtain ⟨⟨hcb, hval⟩, _⟩ := h5
      obtain ⟨old, hold⟩ := Option.isSome_iff_exists.1 hval
      refine ⟨r, env, ns, hr, hA', hns, hcb, fun hL => ?_⟩
      -- by the theorem the write ends in a consistent arena …
      obtain ⟨r', hex, hA'', _⟩ := C01_dynamic_execSet_run (c := ⟨env, 0, []⟩) (h := 0) (e := .const 1)
        (hd := ⟨1, .signal⟩) (fuel := 59) hA' henv rfl hns hcb hold (pureBoundB_sound hB) (by omega) hL
      -- … which is the arena `d1Check` looks at
      have hfull : runOps 60 d1Witness Root.init [] = .ok (r', env) := by
        have : d1Witness = d1Witness.take 3 ++ [.set 0 (.const 1)] := rfl
        rw [this, runOps_append, hr]
        exact runOps_single hex
      have hw := d1_witness_inconsistent
      unfold d1Check at hw
      rw [hfull] at hw
      simp only [Bool.and_eq_true, Bool.not_eq_true', decide_eq_false_iff_not] at hw
      exact hw.2 (hA''.consistent 3)
    · cases h5
  · cases h

/-- `s = signal 1; t = signal 5; m = memo(s); c = memo(if s > 0 { t } else { m })`, then `s.set(2)`:
`c` (node 4) CAN read the scheduled memo `m` (node 3), which is not one of its dependencies, so the
static hypothesis fails; but the write does not flip the branch, `m` is not read, and the trace
hypothesis holds -/
def dynDemo3 : List Stmt :=
  [.signal 1, .signal 5, .memo (.cons (.read 0) .nil),
   .memo (.cons (.ifpos 0 (.cons (.read 1) .nil) (.cons (.read 2) .nil)) .nil)]

def dynDemo3Check : Bool :=
  match runOps 60 dynDemo3 Root.init [] with
  | .ok (r, env) =>
    dynArenaB r && pureBoundB r 10 && decide (r.nodes.size ≤ 40) &&
    decide (env[0]? = some ⟨1, .signal⟩) &&
    (match r.get? 1 with
     | some ns => ns.callback.isNone && ns.value.isSome &&
        !(noLateEdgeB (r.setNode 1 { ns with value := some 2 }) 1) &&
        noLateEdgeRunB 59 (r.setNode 1 { ns with value := some 2 }) 1
     | none => false)
  | .error _ => false

theorem dynDemo3Check_true : dynDemo3Check = true := by decide +kernel

/-- **non-vacuity 3 / strictness**: on `dynDemo3` the static hypothesis FAILS, the trace hypothesis
holds, and `C01_dynamic_set_run` applies -/
theorem dynDemo3_instance :
    ∃ r env ns, runOps 60 dynDemo3 Root.init [] = .ok (r, env) ∧ DynArena r ∧
      r.get? 1 = some ns ∧ ns.callback = none ∧
      ¬ NoLateEdgeStatic (r.setNode 1 { ns with value := some 2 }) 1 ∧
      NoLateEdgeRun 59 (r.setNode 1 { ns with value := some 2 }) 1 ∧
      ∃ r', execStmt 60 r ⟨env, 0, []⟩ (.set 0 (.const 2)) = .ok (r', ⟨env, 0, []⟩) ∧ DynArena r' := by
  have h := dynDemo3Check_true
  unfold dynDemo3Check at h
  split at h
  · rename_i r env hr
    simp only [Bool.and_eq_true, decide_eq_true_eq] at h
    obtain ⟨⟨⟨⟨hA, hB⟩, hsz⟩, henv⟩, h5⟩ := h
    have hA' := dynArenaB_sound hA
    split at h5
    · rename_i ns hns
      simp only [Bool.and_eq_true, Option.isNone_iff_eq_none, Bool.not_eq_true'] at h5
      obtain ⟨⟨⟨hcb, hval⟩, hnot⟩, hrunB⟩ := h5
      obtain ⟨old, hold⟩ := Option.isSome_iff_exists.1 hval
      have hL := (noLateEdgeRunB_iff _ _ _).1 hrunB
      obtain ⟨r', hex, hA'', _⟩ := C01_dynamic_execSet_run (c := ⟨env, 0, []⟩) (h := 0) (e := .const 2)
        (hd := ⟨1, .signal⟩) (fuel := 59) hA' henv rfl hns hcb hold (pureBoundB_sound hB) (by omega) hL
      refine ⟨r, env, ns, hr, hA', hns, hcb, fun hS => ?_, hL, r', hex, hA''⟩
      rw [(noLateEdgeB_iff_write hA' hns 2).2 hS] at hnot
      cases hnot
    · cases h5
  · cases h

/-
`#print axioms` (Lean 4.33.0) of `C01_dynamic_set`, `C01_dynamic_set_run`, `noLateEdgeStatic_run`,
`C01_dynamic_set_exists`, `C01_dynamic_execSet`, `C01_dynamic_execSet_run`, `C01_dynamic_runNodeUpdate`,
`C01_dynamic_loop_run`, `C01_dynamic_lateOk`, `C01_dynamic_static`, `d1_violates_noLateEdge`,
`d1_violates_noLateEdgeRun`, `dynDemo_instance`, `dynDemo2_instance`, `dynDemo3_instance`:
[propext, Classical.choice, Quot.sound]; of `C01_dynamic_runClosure`: [propext, Quot.sound];
of `dynDemo2Rev_rejected`: [propext].
-/

end SycVerif.Reactive
