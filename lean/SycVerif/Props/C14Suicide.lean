/-
C14, disposal INSIDE a poll — "A future spawned in a scope is never polled after that scope is disposed",
for the case in which the scope is disposed by the body of the future itself: the task is aborted WHILE it
is being polled.

Model: `completeX m t` / `stepX xs m e` in `SycVerif/Model/Async.lean`. `stepX xs` is `step` for a machine in
which the tasks listed in `xs` dispose the scope they were spawned in (never the root scope 0) when their body
resumes: `complete t` for `t ∈ xs` logs the resumption, disposes `tk.scope` (the task itself is aborted by the
cleanup, like every pending task of the subtree), lets the body run on to its next await point or to its end
(with no await point left the task is finished and its guard released AFTER the disposal), and then the
executor turn drops the aborted tasks. `runX xs m es = es.foldl (stepX xs) m` (`Lemmas/AsyncX.lean`).

Vocabulary as in `Props/C14.lean`: `pollOf m t` is the poll recorded by an ORDINARY `complete m t`
(`[(t, awaits - 1)]` if `t` is pending with an await point left, else `[]`); the subtree of `s` is
`inSubtree m s m.scopes.length ·` (the scopes killed by `dispose m s`); `Anc m s i`: `s` is `i` or an ancestor
of `i`. `ReachX xs m`: `m` is reached from a build by `stepX xs` events (`ReachX.good`: the invariants of
`Reach` hold there as well; `Reach.reachX_nil`: `Reach m → ReachX [] m`).

The hypotheses "`t` really disposes its scope" are spelled out in every statement:
`m.tasks[t]? = some tk`, `tk.status = .pending`, `0 < tk.awaits`, `tk.scope ≠ 0`, `t ∈ xs`.
-/
import SycVerif.Lemmas.Async
import SycVerif.Lemmas.AsyncX
namespace SycVerif.Async

/-! ### `stepX` without such tasks is `step` -/

/-- everything proved about `step` is the special case `xs = []` -/
theorem C14_stepX_nil (m : M) (e : Ev) : stepX [] m e = step m e := stepX_nil m e

theorem C14_runX_def (xs : List Nat) (m : M) (es : List Ev) : runX xs m es = es.foldl (stepX xs) m := rfl

theorem C14_runX_nil (m : M) (es : List Ev) : runX [] m es = run m es := runX_nil_eq_run m es

/-- a task that is not in `xs`, and `dispose`, behave as in `step` -/
theorem C14_stepX_other (xs : List Nat) (m : M) (e : Ev) (h : ∀ t, e = .complete t → t ∉ xs) :
    stepX xs m e = step m e := by
  cases e with
  | dispose s => rfl
  | complete t => exact stepX_complete_not_mem (h t rfl) m

/-! ### polls -/

/-- The log entry of a completion is the same whether or not the body disposes its scope: the body resumes
exactly once (if the task is pending with an await point left), and not at all otherwise. -/
theorem C14_suicide_polls (m : M) (xs : List Nat) (t : Nat) :
    (stepX xs m (.complete t)).polls = m.polls ++ pollOf m t :=
  stepX_complete_polls xs m t

/-- `complete t` on a task that is not pending (finished, or cancelled) polls nothing, in `xs` or not -/
theorem C14_suicide_complete_not_pending {m : M} {xs : List Nat} {t : Nat} {tk : Task}
    (ht : m.tasks[t]? = some tk) (hp : tk.status ≠ .pending) : (stepX xs m (.complete t)).polls = m.polls := by
  rw [stepX_complete_polls]
  unfold pollOf; rw [ht]; simp [hp]

/-! ### the scope is dead, its tasks are cancelled -/

/-- the self-disposal kills exactly the live scopes of the subtree of the task's scope
(cf. `C14_dispose_scopes`) -/
theorem C14_suicide_scopes {m : M} {xs : List Nat} {t : Nat} {tk : Task}
    (ht : m.tasks[t]? = some tk) (hp : tk.status = .pending) (ha : 0 < tk.awaits) (hs : tk.scope ≠ 0)
    (hx : t ∈ xs) (i : Nat) :
    scopeAlive (stepX xs m (.complete t)) i = (scopeAlive m i && !inSubtree m tk.scope m.scopes.length i) := by
  rw [stepX_complete_mem hx, Suicide.alive_after ⟨ht, hp, ha, hs⟩]; rfl

/-- after the step the scope the task was spawned in is dead -/
theorem C14_suicide_scope_dead {m : M} {xs : List Nat} {t : Nat} {tk : Task}
    (ht : m.tasks[t]? = some tk) (hp : tk.status = .pending) (ha : 0 < tk.awaits) (hs : tk.scope ≠ 0)
    (hx : t ∈ xs) :
    scopeAlive (stepX xs m (.complete t)) tk.scope = false := by
  rw [C14_suicide_scopes ht hp ha hs hx]
  cases h : scopeAlive m tk.scope with
  | false => rfl
  | true =>
    have hlt : tk.scope < m.scopes.length := by
      unfold scopeAlive at h
      cases h' : m.scopes[tk.scope]? with
      | none => simp [h'] at h
      | some sc => exact (List.getElem?_eq_some_iff.1 h').1
    have := dying_self (m := m) (by omega) tk.scope
    unfold dying at this
    simp [this]

/-- After the step NO task spawned in the subtree of the disposed scope is pending: every such task is finished
or dropped (`tku` is the task before the step, the subtree is the one `C14_dispose_cancels` speaks about). -/
theorem C14_suicide_not_pending {m : M} {xs : List Nat} {t : Nat} {tk : Task}
    (ht : m.tasks[t]? = some tk) (hp : tk.status = .pending) (ha : 0 < tk.awaits) (hs : tk.scope ≠ 0)
    (hx : t ∈ xs) {u : Nat} {tku : Task} (hu : m.tasks[u]? = some tku)
    (hsub : inSubtree m tk.scope m.scopes.length tku.scope = true) :
    ∃ tku', (stepX xs m (.complete t)).tasks[u]? = some tku' ∧ tku'.scope = tku.scope ∧
      tku'.boundary = tku.boundary ∧ tku'.status ≠ .pending ∧
      (tku'.status = .done ∨ tku'.status = .dropped) := by
  have hS : Suicide m t tk := ⟨ht, hp, ha, hs⟩
  have hget : (drain (completeX m t)).tasks[u]? = some (afterX m t tk u tku) := by
    rw [hS.step_tasks', hu]; rfl
  have hnp : (afterX m t tk u tku).status ≠ .pending := afterX_kills hS hu hsub
  have hna : (afterX m t tk u tku).status ≠ .aborted := drain_noAborted_after _ u _ hget
  have hst := tstat_afterX m t tk u tku
  rw [stepX_complete_mem hx]
  refine ⟨_, hget, congrArg Prod.fst hst, congrArg Prod.snd hst, hnp, ?_⟩
  cases h : (afterX m t tk u tku).status <;> simp_all

/-- in particular the task itself is not pending afterwards, provided its scope exists (true in every
reachable state: `Struct.task_scope`) -/
theorem C14_suicide_self_not_pending {m : M} {xs : List Nat} {t : Nat} {tk : Task}
    (ht : m.tasks[t]? = some tk) (hp : tk.status = .pending) (ha : 0 < tk.awaits) (hs : tk.scope ≠ 0)
    (hx : t ∈ xs) (hsc : tk.scope < m.scopes.length) :
    ∃ tk', (stepX xs m (.complete t)).tasks[t]? = some tk' ∧ tk'.status ≠ .pending ∧
      (tk'.status = .done ∨ tk'.status = .dropped) := by
  have hsub : inSubtree m tk.scope m.scopes.length tk.scope = true := dying_self (m := m) (by omega) tk.scope
  obtain ⟨tk', h1, _, _, h2, h3⟩ := C14_suicide_not_pending ht hp ha hs hx ht hsub
  exact ⟨tk', h1, h2, h3⟩

/-- … exactly: with its last await point completed the task is finished (its body ran to the end), with await
points left it is dropped, one await point further than before -/
theorem C14_suicide_self {m : M} {xs : List Nat} {t : Nat} {tk : Task}
    (ht : m.tasks[t]? = some tk) (hp : tk.status = .pending) (ha : 0 < tk.awaits) (hs : tk.scope ≠ 0)
    (hx : t ∈ xs) (hsc : tk.scope < m.scopes.length) :
    (stepX xs m (.complete t)).tasks[t]? =
      some (if tk.awaits = 1 then { tk with awaits := 0, status := .done }
            else { tk with awaits := tk.awaits - 1, status := .dropped }) := by
  have hS : Suicide m t tk := ⟨ht, hp, ha, hs⟩
  have hd : dying m tk.scope tk.scope = true := dying_self (by omega) tk.scope
  rw [stepX_complete_mem hx, hS.step_tasks', ht]
  simp only [Option.map_some, afterX, if_true, abortIf_of_dying hp hd]
  by_cases h1 : tk.awaits = 1
  · simp [h1, finX, fixT]
  · have : ¬ (tk.awaits - 1 = 0) := by omega
    simp [h1, this, finX, fixT]

/-- every OTHER pending task spawned in the subtree is cancelled: aborted by the cleanup, dropped by the
executor turn (cf. `C14_dispose_cancels`) -/
theorem C14_suicide_cancels {m : M} {xs : List Nat} {t : Nat} {tk : Task}
    (ht : m.tasks[t]? = some tk) (hp : tk.status = .pending) (ha : 0 < tk.awaits) (hs : tk.scope ≠ 0)
    (hx : t ∈ xs) {u : Nat} {tku : Task} (hu : m.tasks[u]? = some tku) (hut : u ≠ t)
    (hsub : inSubtree m tk.scope m.scopes.length tku.scope = true) (hpu : tku.status = .pending) :
    (stepX xs m (.complete t)).tasks[u]? = some { tku with status := .dropped } := by
  have hS : Suicide m t tk := ⟨ht, hp, ha, hs⟩
  have htu : ¬ t = u := fun h => hut h.symm
  rw [stepX_complete_mem hx, hS.step_tasks', hu]
  simp only [Option.map_some, afterX, htu, if_false, abortIf_of_dying hpu hsub]
  simp [fixT]

/-- … and no other task is touched (cf. `C14_dispose_others`) -/
theorem C14_suicide_others {m : M} {xs : List Nat} (hr : ReachX xs m) {t : Nat} {tk : Task}
    (ht : m.tasks[t]? = some tk) (hp : tk.status = .pending) (ha : 0 < tk.awaits) (hs : tk.scope ≠ 0)
    (hx : t ∈ xs) {u : Nat} {tku : Task} (hu : m.tasks[u]? = some tku) (hut : u ≠ t)
    (hsub : inSubtree m tk.scope m.scopes.length tku.scope = false ∨ tku.status ≠ .pending) :
    (stepX xs m (.complete t)).tasks[u]? = some tku := by
  have hS : Suicide m t tk := ⟨ht, hp, ha, hs⟩
  have htu : ¬ t = u := fun h => hut h.symm
  have h1 : abortIf m tk.scope tku = tku := abortIf_of_not (hsub.symm.imp id id)
  have h2 : fixT tku = tku := by unfold fixT; rw [if_neg (hr.good.noAborted u tku hu)]
  rw [stepX_complete_mem hx, hS.step_tasks', hu]
  simp only [Option.map_some, afterX, htu, if_false, h1, h2]

/-- a task never becomes pending again (cf. `C14_pending_antitone`) -/
theorem C14_suicide_pending_antitone {xs : List Nat} {m : M} {es : List Ev} {t : Nat} {tk' : Task}
    (ht : (runX xs m es).tasks[t]? = some tk') (hp : tk'.status = .pending) :
    ∃ tk, m.tasks[t]? = some tk ∧ tk.status = .pending :=
  runX_pending ht hp

/-- the subtree of `s` is the same in every state of a run (cf. `C14_subtree_constant`) -/
theorem C14_suicide_subtree_constant (xs : List Nat) (m : M) (es : List Ev) (s i : Nat) :
    inSubtree (runX xs m es) s (runX xs m es).scopes.length i = inSubtree m s m.scopes.length i := by
  have h := sameSkel_runX xs m es
  rw [h.len]; exact inSubtree_sameSkel h s _ i

/-! ### no poll after a disposal that happens inside a poll -/

/-- Along ANY event sequence `pre ++ complete t :: post` from ANY state `m`, where after `pre` the task `t ∈ xs`
is pending with an await point left (so its body resumes and disposes `tk.scope`): every poll recorded after
that `complete t` — the poll of `t` in which the disposal happens is the last entry of the log before `extra` —
belongs to a task whose scope is outside the subtree of `tk.scope`. In particular `t` itself is never polled
again. (Cf. `C14_no_poll_after_dispose`, with `complete t` in the place of `dispose s`.) -/
theorem C14_suicide_no_poll_after (xs : List Nat) (m : M) (pre post : List Ev) (t : Nat) {tk : Task}
    (ht : (runX xs m pre).tasks[t]? = some tk) (hp : tk.status = .pending) (ha : 0 < tk.awaits)
    (hs : tk.scope ≠ 0) (hx : t ∈ xs) :
    ∃ extra : List (Nat × Nat),
      (runX xs m (pre ++ .complete t :: post)).polls = (runX xs m (pre ++ [.complete t])).polls ++ extra ∧
      ∀ p, p ∈ extra → ∀ tk', m.tasks[p.1]? = some tk' →
        inSubtree m tk.scope m.scopes.length tk'.scope = false := by
  have hS : Suicide (runX xs m pre) t tk := ⟨ht, hp, ha, hs⟩
  have e1 : runX xs m (pre ++ .complete t :: post) = runX xs (stepX xs (runX xs m pre) (.complete t)) post := by
    rw [runX_append, runX_cons]
  have e2 : runX xs m (pre ++ [.complete t]) = stepX xs (runX xs m pre) (.complete t) := by
    rw [runX_append, runX_cons, runX_nil]
  rw [e1, e2]
  obtain ⟨extra, h1, h2⟩ := runX_polls xs (stepX xs (runX xs m pre) (.complete t)) post
  refine ⟨extra, h1, ?_⟩
  intro p hp' tk' htk'
  obtain ⟨tk2, h3, h4⟩ := h2 p hp'
  have hsk : SameSkel m (stepX xs (runX xs m pre) (.complete t)) :=
    (sameSkel_runX xs m pre).trans (sameSkel_stepX xs _ _)
  obtain ⟨tk0, h5, h6, _⟩ := hsk.task_of h3
  rw [htk'] at h5; cases h5
  rw [h6, ← C14_suicide_subtree_constant xs m pre tk.scope tk2.scope]
  cases hd : inSubtree (runX xs m pre) tk.scope (runX xs m pre).scopes.length tk2.scope with
  | false => rfl
  | true =>
    rw [stepX_complete_mem hx] at h3
    exact absurd h4 (hS.kills h3 hd)

/-- the poll in which the disposal happens is the last entry of the log before `extra` above -/
theorem C14_suicide_last_poll (xs : List Nat) (m : M) (pre : List Ev) (t : Nat) {tk : Task}
    (ht : (runX xs m pre).tasks[t]? = some tk) (hp : tk.status = .pending) (ha : 0 < tk.awaits) :
    (runX xs m (pre ++ [.complete t])).polls = (runX xs m pre).polls ++ [(t, tk.awaits - 1)] := by
  rw [runX_append, runX_cons, runX_nil, stepX_complete_polls]
  unfold pollOf; rw [ht]; simp only []
  rw [if_pos ⟨hp, by omega⟩]

/-- the same from a reachable state, with the ownership tree spelled out: no task spawned in the scope of `t` or
in a descendant of it — `t` included — is polled after the poll in which `t` disposes its scope
(cf. `C14_no_poll_after_dispose'`) -/
theorem C14_suicide_no_poll_after' {xs : List Nat} {m : M} (hr : ReachX xs m) (pre post : List Ev) (t : Nat)
    {tk : Task} (ht : (runX xs m pre).tasks[t]? = some tk) (hp : tk.status = .pending) (ha : 0 < tk.awaits)
    (hs : tk.scope ≠ 0) (hx : t ∈ xs) :
    ∃ extra : List (Nat × Nat),
      (runX xs m (pre ++ .complete t :: post)).polls = (runX xs m (pre ++ [.complete t])).polls ++ extra ∧
      (∀ p, p ∈ extra → ∀ tk', m.tasks[p.1]? = some tk' → ¬ Anc m tk.scope tk'.scope) ∧
      ∀ p, p ∈ extra → p.1 ≠ t := by
  obtain ⟨extra, h1, h2⟩ := C14_suicide_no_poll_after xs m pre post t ht hp ha hs hx
  have hanc : ∀ p, p ∈ extra → ∀ tk', m.tasks[p.1]? = some tk' → ¬ Anc m tk.scope tk'.scope := by
    intro p hp' tk' htk' hanc
    have := h2 p hp' tk' htk'
    rw [(inSubtree_iff hr.good.struct tk.scope tk'.scope (hr.good.struct.task_scope _ tk' htk')).2 hanc] at this
    cases this
  refine ⟨extra, h1, hanc, ?_⟩
  intro p hp' hpt
  obtain ⟨tk0, h5, h6, _⟩ := (sameSkel_runX xs m pre).task_of ht
  rw [← hpt] at h5
  exact hanc p hp' tk0 h5 (h6 ▸ .refl)

/-! ### a self-disposal with await points left is a completion followed by a disposal -/

/-- For a task with MORE than one await point left, in a state without aborted tasks (every state between two
events is such a state: `ReachX.good`, see the next theorem), the self-disposal inside the poll is
indistinguishable from an ordinary completion followed by `dispose` of the task's scope: the two states are
EQUAL (all fields: scopes, counters, tasks, poll log, resource owners).

With exactly one await point left (`tk.awaits = 1`) the equality can fail, in one field: the task finishes in
both orders, but in `stepX` its guard is released AFTER the disposal, so a counter that died with the scope is
not decremented (D5), whereas `complete` then `dispose` decrements it before it dies. Only the `remaining` of a
boundary whose counter scope is dead afterwards can differ (see the last example of this file); scopes, tasks,
the poll log and every counter that is still alive agree: `C14_suicide_as_two_steps_obs`. -/
theorem C14_suicide_as_two_steps {m : M} {xs : List Nat} {t : Nat} {tk : Task}
    (hn : m.tasks.all (fun x => x.status != .aborted) = true)
    (ht : m.tasks[t]? = some tk) (hp : tk.status = .pending) (ha : 1 < tk.awaits) (hs : tk.scope ≠ 0)
    (hx : t ∈ xs) :
    stepX xs m (.complete t) = step (step m (.complete t)) (.dispose tk.scope) :=
  Suicide.stepX_two_steps ⟨ht, hp, by omega, hs⟩ ha (noAborted_of_all hn) hx

/-- reachable states have no aborted tasks -/
theorem C14_suicide_as_two_steps' {m : M} {xs : List Nat} (hr : ReachX xs m) {t : Nat} {tk : Task}
    (ht : m.tasks[t]? = some tk) (hp : tk.status = .pending) (ha : 1 < tk.awaits) (hs : tk.scope ≠ 0)
    (hx : t ∈ xs) :
    stepX xs m (.complete t) = step (step m (.complete t)) (.dispose tk.scope) :=
  Suicide.stepX_two_steps ⟨ht, hp, by omega, hs⟩ ha hr.good.noAborted hx

/-- For ANY number of await points left (in particular the last one), from a reachable state: the self-disposal
inside the poll and `complete t` followed by `dispose tk.scope` agree on the scopes, the tasks, the poll log,
the resource owners, and on every boundary up to the `remaining` of a counter whose scope is dead afterwards
(a dead counter cannot be read: `use_is_loading_global` skips it, D9). -/
theorem C14_suicide_as_two_steps_obs {m : M} {xs : List Nat} (hr : ReachX xs m) {t : Nat} {tk : Task}
    (ht : m.tasks[t]? = some tk) (hp : tk.status = .pending) (ha : 0 < tk.awaits) (hs : tk.scope ≠ 0)
    (hx : t ∈ xs) :
    let A := stepX xs m (.complete t)
    let B := step (step m (.complete t)) (.dispose tk.scope)
    A.scopes = B.scopes ∧ A.tasks = B.tasks ∧ A.polls = B.polls ∧ A.resOwner = B.resOwner ∧
    ∀ (b : Nat) (bd : Boundary), A.boundaries[b]? = some bd →
      ∃ bd', B.boundaries[b]? = some bd' ∧ bd'.parent = bd.parent ∧ bd'.counterScope = bd.counterScope ∧
        bd'.innerScope = bd.innerScope ∧ (scopeAlive A bd.counterScope = true → bd'.remaining = bd.remaining) := by
  intro A B
  have hS : Suicide m t tk := ⟨ht, hp, ha, hs⟩
  obtain ⟨h1, h2, h3, h4⟩ := hS.two_steps_obs hx
  exact ⟨h1, h2, h3, h4, fun b bd hb => hS.two_steps_boundaries hr.good hx hb⟩

/-- the states reached with self-disposing tasks satisfy the invariants of `Reach` (`Good`: static shape, live
scopes closed under parents, live counters count the guards held, pending tasks live in live scopes, no aborted
task between two events) -/
theorem C14_suicide_invariant {m : M} {xs : List Nat} (hr : ReachX xs m) : Good m := hr.good

/-! ### non-vacuity -/

/-- `S1 { B0 { S3 { t0(2)  t1(1) }  t2(1) } }`:
scopes 0 root, 1 = S1, 2 = inner(B0), 3 = S3; B0's counter lives in scope 1; t0, t1 are tasks of S3, t2 of
inner(B0); all three registered at B0 -/
def c14xM : M := buildItems M.init 0 none [.scope [.boundary [.scope [.task 2, .task 1], .task 1]]]

example : (c14xM.scopes.map (·.parent)) = [none, some 0, some 1, some 2] ∧
    (c14xM.tasks.map fun tk => (tk.scope, tk.boundary, tk.awaits)) = [(3, some 0, 2), (3, some 0, 1), (2, some 0, 1)] ∧
    (c14xM.boundaries.map fun bd => (bd.counterScope, bd.innerScope, bd.remaining)) = [(1, 2, 3)] := by decide
-- t0 (2 await points, nested scope S3) disposes S3 when it first resumes: one poll, t0 and its sibling t1 are
-- dropped, S3 is dead (and nothing else), B0's counter (alive) is released by both: 3 → 1
example : let m := runX [0] c14xM [.complete 0]
    m.polls = [(0, 1)] ∧ (m.tasks.map fun tk => (tk.status, tk.awaits)) = [(.dropped, 1), (.dropped, 1), (.pending, 1)] ∧
    (m.scopes.map (·.alive)) = [true, true, true, false] ∧ scopeAlive m 3 = false ∧
    (m.boundaries.map (·.remaining)) = [1] ∧ isLoading m 2 0 = true := by decide
-- the sibling t1 was cancelled by it: completing t1 (or t0 again) later adds no poll; t2 (outside S3) still runs
example : (runX [0] c14xM [.complete 0, .complete 1, .complete 0, .complete 1]).polls = [(0, 1)] ∧
    (let m := runX [0] c14xM [.complete 0, .complete 1, .complete 0, .complete 2]
     m.polls = [(0, 1), (2, 0)] ∧ (m.tasks.map (·.status)) = [.dropped, .dropped, .done] ∧
     (m.boundaries.map (·.remaining)) = [0] ∧ isLoading m 2 0 = false) := by decide
-- without such tasks (`xs = []`) the same events poll t0 twice and t1 once
example : (runX [] c14xM [.complete 0, .complete 1, .complete 0]).polls = [(0, 1), (1, 0), (0, 0)] := by decide
-- `C14_suicide_as_two_steps`: the same state, field by field, as `complete 0` then `dispose 3`
example : let a := stepX [0] c14xM (.complete 0)
    let b := step (step c14xM (.complete 0)) (.dispose 3)
    a.polls = b.polls ∧ (a.tasks.map fun tk => (tk.scope, tk.boundary, tk.awaits, tk.status)) =
      (b.tasks.map fun tk => (tk.scope, tk.boundary, tk.awaits, tk.status)) ∧
    (a.scopes.map (·.alive)) = (b.scopes.map (·.alive)) ∧
    (a.boundaries.map (·.remaining)) = (b.boundaries.map (·.remaining)) := by decide
-- t1 (1 await point) disposes S3 at its last await point: it is finished (done), its sibling t0 is dropped
-- without ever having been polled, the counter is released by both
example : let m := runX [1] c14xM [.complete 1, .complete 0, .complete 1]
    m.polls = [(1, 0)] ∧ (m.tasks.map fun tk => (tk.status, tk.awaits)) = [(.dropped, 2), (.done, 0), (.pending, 1)] ∧
    scopeAlive m 3 = false ∧ scopeAlive m 2 = true ∧ (m.boundaries.map (·.remaining)) = [1] := by decide
-- t2 disposes inner(B0): S3 below it dies as well, all three tasks are cancelled/finished, the counter is 0
example : let m := runX [2] c14xM [.complete 2, .complete 0, .complete 1]
    m.polls = [(2, 0)] ∧ (m.tasks.map (·.status)) = [.dropped, .dropped, .done] ∧
    (m.scopes.map (·.alive)) = [true, true, false, false] ∧ (m.boundaries.map (·.remaining)) = [0] ∧
    globalLoading m = false := by decide
-- the hypotheses of the theorems above hold here
example : (c14xM.tasks[0]?).map (fun tk => (tk.scope, tk.boundary, tk.awaits, tk.status)) = some (3, some 0, 2, .pending) ∧
    inSubtree c14xM 3 c14xM.scopes.length 3 = true ∧ inSubtree c14xM 3 c14xM.scopes.length 2 = false ∧
    c14xM.tasks.all (fun x => x.status != .aborted) = true := by decide
example : ReachX [0] (runX [0] c14xM [.complete 0]) := (ReachX.build _).runX _

/-- `S1 { resource 0   B0 { use 0 } }`: scopes 0 root, 1 = S1, 2 = inner(B0); task 0 = the fetch, task 1 = the guard
of the read, both tasks of S1 (the owner), the guard registered at B0 whose counter lives in S1 as well -/
def c14xUse : M := buildItems M.init 0 none [.scope [.resource 0, .boundary [.use 0]]]

-- the last await point (`tk.awaits = 1`) with a counter that dies with the scope: the self-disposal leaves the
-- dead counter alone (1), `complete` then `dispose` decrements it before it dies (0); everything else agrees
example : let a := stepX [1] c14xUse (.complete 1)
    let b := step (step c14xUse (.complete 1)) (.dispose 1)
    (a.boundaries.map (·.remaining)) = [1] ∧ (b.boundaries.map (·.remaining)) = [0] ∧
    (a.boundaries.map fun bd => scopeAlive a bd.counterScope) = [false] ∧
    a.polls = [(1, 0)] ∧ a.polls = b.polls ∧
    (a.tasks.map (·.status)) = [.dropped, .done] ∧ (a.tasks.map (·.status)) = (b.tasks.map (·.status)) ∧
    (a.scopes.map (·.alive)) = [true, false, false] ∧ (a.scopes.map (·.alive)) = (b.scopes.map (·.alive)) := by decide

end SycVerif.Async
