/-
C19 (easing half) — every easing function maps 0 to 0 and 1 to 1 and is well defined on [0,1],
proved over ℝ for the definitions regenerated from `easing.rs` on every run.
-/
import SycVerif.Model.EasingGen
import Mathlib.Tactic.Linarith
import Mathlib.Tactic.NormNum
import Mathlib.Analysis.SpecialFunctions.Trigonometric.Basic
import Mathlib.Analysis.SpecialFunctions.Pow.Real
import Mathlib.Analysis.SpecialFunctions.Sqrt

set_option linter.unusedVariables false
set_option linter.unusedSimpArgs false

namespace SycVerif.Easing
open EasingOps

/-- The real-number reading of the operations (π is the real π, EPSILON = 2⁻²³). -/
noncomputable instance instReal : EasingOps ℝ where
  add := (· + ·)
  sub := (· - ·)
  mul := (· * ·)
  div := (· / ·)
  neg := fun x => -x
  abs := fun x => |x|
  sqrt := Real.sqrt
  sin := Real.sin
  cos := Real.cos
  powf := fun x y => x ^ y
  lit := fun m e => (m : ℝ) / 10 ^ e
  pi := Real.pi
  eps := 1 / 2 ^ 23
  lt := (· < ·)
  le := (· ≤ ·)
  decLt := fun _ _ => Classical.propDecidable _
  decLe := fun _ _ => Classical.propDecidable _

/-- unfold the abstract operations at ℝ -/
macro "ease_unfold" : tactic =>
  `(tactic| simp only [EasingOps.add, EasingOps.sub, EasingOps.mul, EasingOps.div, EasingOps.neg,
      EasingOps.abs, EasingOps.sqrt, EasingOps.sin, EasingOps.cos, EasingOps.powf, EasingOps.lit,
      EasingOps.pi, EasingOps.eps, EasingOps.lt, EasingOps.le, instReal])

/-- endpoint of a polynomial / piecewise polynomial function -/
macro "ease_poly" f:ident : tactic =>
  `(tactic| (unfold $f; ease_unfold; norm_num))

theorem linear_ends : linear (0:ℝ) = 0 ∧ linear (1:ℝ) = 1 := ⟨rfl, rfl⟩
theorem quad_in_ends : quad_in (0:ℝ) = 0 ∧ quad_in (1:ℝ) = 1 := by
  constructor <;> ease_poly quad_in
theorem quad_out_ends : quad_out (0:ℝ) = 0 ∧ quad_out (1:ℝ) = 1 := by
  constructor <;> ease_poly quad_out
theorem quad_inout_ends : quad_inout (0:ℝ) = 0 ∧ quad_inout (1:ℝ) = 1 := by
  constructor <;> ease_poly quad_inout
theorem cubic_in_ends : cubic_in (0:ℝ) = 0 ∧ cubic_in (1:ℝ) = 1 := by
  constructor <;> ease_poly cubic_in
theorem cubic_out_ends : cubic_out (0:ℝ) = 0 ∧ cubic_out (1:ℝ) = 1 := by
  constructor <;> ease_poly cubic_out
theorem cubic_inout_ends : cubic_inout (0:ℝ) = 0 ∧ cubic_inout (1:ℝ) = 1 := by
  constructor <;> ease_poly cubic_inout
theorem quart_in_ends : quart_in (0:ℝ) = 0 ∧ quart_in (1:ℝ) = 1 := by
  constructor <;> ease_poly quart_in
theorem quart_out_ends : quart_out (0:ℝ) = 0 ∧ quart_out (1:ℝ) = 1 := by
  constructor <;> ease_poly quart_out
theorem quart_inout_ends : quart_inout (0:ℝ) = 0 ∧ quart_inout (1:ℝ) = 1 := by
  constructor <;> ease_poly quart_inout
theorem quint_in_ends : quint_in (0:ℝ) = 0 ∧ quint_in (1:ℝ) = 1 := by
  constructor <;> ease_poly quint_in
theorem quint_out_ends : quint_out (0:ℝ) = 0 ∧ quint_out (1:ℝ) = 1 := by
  constructor <;> ease_poly quint_out
theorem quint_inout_ends : quint_inout (0:ℝ) = 0 ∧ quint_inout (1:ℝ) = 1 := by
  constructor <;> ease_poly quint_inout
theorem circ_in_ends : circ_in (0:ℝ) = 0 ∧ circ_in (1:ℝ) = 1 := by
  constructor <;> ease_poly circ_in
theorem circ_out_ends : circ_out (0:ℝ) = 0 ∧ circ_out (1:ℝ) = 1 := by
  constructor <;> ease_poly circ_out
theorem circ_inout_ends : circ_inout (0:ℝ) = 0 ∧ circ_inout (1:ℝ) = 1 := by
  constructor <;> ease_poly circ_inout
theorem expo_in_ends : expo_in (0:ℝ) = 0 ∧ expo_in (1:ℝ) = 1 := by
  constructor <;> ease_poly expo_in
theorem expo_out_ends : expo_out (0:ℝ) = 0 ∧ expo_out (1:ℝ) = 1 := by
  constructor <;> ease_poly expo_out
theorem expo_inout_ends : expo_inout (0:ℝ) = 0 ∧ expo_inout (1:ℝ) = 1 := by
  constructor <;> ease_poly expo_inout
theorem sine_in_ends : sine_in (0:ℝ) = 0 ∧ sine_in (1:ℝ) = 1 := by
  constructor <;> ease_poly sine_in
theorem sine_out_ends : sine_out (0:ℝ) = 0 ∧ sine_out (1:ℝ) = 1 := by
  constructor <;> ease_poly sine_out
theorem sine_inout_ends : sine_inout (0:ℝ) = 0 ∧ sine_inout (1:ℝ) = 1 := by
  constructor <;> ease_poly sine_inout
theorem bounce_out_ends : bounce_out (0:ℝ) = 0 ∧ bounce_out (1:ℝ) = 1 := by
  constructor <;> ease_poly bounce_out
theorem bounce_in_ends : bounce_in (0:ℝ) = 0 ∧ bounce_in (1:ℝ) = 1 := by
  have h := bounce_out_ends
  constructor <;> (unfold bounce_in; ease_unfold; norm_num; try simp [h.1, h.2])
theorem bounce_inout_ends : bounce_inout (0:ℝ) = 0 ∧ bounce_inout (1:ℝ) = 1 := by
  have h := bounce_out_ends
  constructor <;> (unfold bounce_inout; ease_unfold; norm_num; try simp [h.1, h.2])

end SycVerif.Easing

namespace SycVerif.Easing
open EasingOps

/-- Every function of the regenerated table maps 0 to 0 and 1 to 1 (over ℝ). A function added to
`easing.rs` enlarges `table` and this proof stops checking until its endpoints are proved. -/
theorem C19_easing_endpoints : ∀ p ∈ (table : List (String × (ℝ → ℝ))), p.2 0 = 0 ∧ p.2 1 = 1 := by
  simp only [table, List.mem_cons, List.not_mem_nil, or_false]
  rintro p (rfl | rfl | rfl | rfl | rfl | rfl | rfl | rfl | rfl | rfl | rfl | rfl | rfl | rfl | rfl |
    rfl | rfl | rfl | rfl | rfl | rfl | rfl | rfl | rfl | rfl)
  exacts [linear_ends, quad_in_ends, quad_out_ends, quad_inout_ends, cubic_in_ends, cubic_out_ends,
    cubic_inout_ends, quart_in_ends, quart_out_ends, quart_inout_ends, quint_in_ends, quint_out_ends,
    quint_inout_ends, circ_in_ends, circ_out_ends, circ_inout_ends, expo_in_ends, expo_out_ends,
    expo_inout_ends, sine_in_ends, sine_out_ends, sine_inout_ends, bounce_in_ends, bounce_out_ends,
    bounce_inout_ends]

/-! ### Well-definedness on [0,1]: every square root has a non-negative argument and no division
is by zero. The operations are re-instantiated on pairs (value, "all side conditions so far"). -/

noncomputable instance instChk : EasingOps (ℝ × Prop) where
  add := fun x y => (x.1 + y.1, x.2 ∧ y.2)
  sub := fun x y => (x.1 - y.1, x.2 ∧ y.2)
  mul := fun x y => (x.1 * y.1, x.2 ∧ y.2)
  div := fun x y => (x.1 / y.1, x.2 ∧ y.2 ∧ y.1 ≠ 0)
  neg := fun x => (-x.1, x.2)
  abs := fun x => (|x.1|, x.2)
  sqrt := fun x => (Real.sqrt x.1, x.2 ∧ 0 ≤ x.1)
  sin := fun x => (Real.sin x.1, x.2)
  cos := fun x => (Real.cos x.1, x.2)
  powf := fun x y => (x.1 ^ y.1, x.2 ∧ y.2 ∧ 0 < x.1)
  lit := fun m e => ((m : ℝ) / 10 ^ e, True)
  pi := (Real.pi, True)
  eps := (1 / 2 ^ 23, True)
  lt := fun x y => x.1 < y.1
  le := fun x y => x.1 ≤ y.1
  decLt := fun _ _ => Classical.propDecidable _
  decLe := fun _ _ => Classical.propDecidable _

macro "chk_unfold" : tactic =>
  `(tactic| simp only [EasingOps.add, EasingOps.sub, EasingOps.mul, EasingOps.div, EasingOps.neg,
      EasingOps.abs, EasingOps.sqrt, EasingOps.sin, EasingOps.cos, EasingOps.powf, EasingOps.lit,
      EasingOps.pi, EasingOps.eps, EasingOps.lt, EasingOps.le, instChk, instReal])

/-- `WellDefined f t`: evaluating `f t` takes no square root of a negative number, divides by no
zero and raises no non-positive base to a real power. -/
def WellDefined (f : ℝ × Prop → ℝ × Prop) (t : ℝ) : Prop := (f (t, True)).2

theorem circ_in_wd (t : ℝ) (h0 : 0 ≤ t) (h1 : t ≤ 1) : WellDefined circ_in t := by
  unfold WellDefined circ_in; chk_unfold; simp; nlinarith

theorem circ_out_wd (t : ℝ) (h0 : 0 ≤ t) (h1 : t ≤ 1) : WellDefined circ_out t := by
  unfold WellDefined circ_out; chk_unfold; simp
  have : (t - 1) * (t - 1) ≤ 1 := by nlinarith
  have : 0 ≤ (t - 1) * (t - 1) := by nlinarith
  nlinarith

theorem circ_inout_wd (t : ℝ) (h0 : 0 ≤ t) (h1 : t ≤ 1) : WellDefined circ_inout t := by
  unfold WellDefined circ_inout; chk_unfold
  split_ifs with h <;> simp at h ⊢ <;> nlinarith

end SycVerif.Easing

namespace SycVerif.Easing
open EasingOps

/-- generic attempt: unfold, split the branches, discharge arithmetic side conditions -/
macro "ease_wd" f:ident : tactic =>
  `(tactic| (unfold WellDefined $f; chk_unfold; (try split_ifs) <;> (try simp) <;> (try norm_num) <;> (try nlinarith)))

theorem linear_wd (t : ℝ) (h0 : 0 ≤ t) (h1 : t ≤ 1) : WellDefined linear t := by
  unfold WellDefined linear; trivial
theorem quad_in_wd (t : ℝ) (h0 : 0 ≤ t) (h1 : t ≤ 1) : WellDefined quad_in t := by ease_wd quad_in
theorem quad_out_wd (t : ℝ) (h0 : 0 ≤ t) (h1 : t ≤ 1) : WellDefined quad_out t := by ease_wd quad_out
theorem quad_inout_wd (t : ℝ) (h0 : 0 ≤ t) (h1 : t ≤ 1) : WellDefined quad_inout t := by ease_wd quad_inout
theorem cubic_in_wd (t : ℝ) (h0 : 0 ≤ t) (h1 : t ≤ 1) : WellDefined cubic_in t := by ease_wd cubic_in
theorem cubic_out_wd (t : ℝ) (h0 : 0 ≤ t) (h1 : t ≤ 1) : WellDefined cubic_out t := by ease_wd cubic_out
theorem cubic_inout_wd (t : ℝ) (h0 : 0 ≤ t) (h1 : t ≤ 1) : WellDefined cubic_inout t := by ease_wd cubic_inout
theorem quart_in_wd (t : ℝ) (h0 : 0 ≤ t) (h1 : t ≤ 1) : WellDefined quart_in t := by ease_wd quart_in
theorem quart_out_wd (t : ℝ) (h0 : 0 ≤ t) (h1 : t ≤ 1) : WellDefined quart_out t := by ease_wd quart_out
theorem quart_inout_wd (t : ℝ) (h0 : 0 ≤ t) (h1 : t ≤ 1) : WellDefined quart_inout t := by ease_wd quart_inout
theorem quint_in_wd (t : ℝ) (h0 : 0 ≤ t) (h1 : t ≤ 1) : WellDefined quint_in t := by ease_wd quint_in
theorem quint_out_wd (t : ℝ) (h0 : 0 ≤ t) (h1 : t ≤ 1) : WellDefined quint_out t := by ease_wd quint_out
theorem quint_inout_wd (t : ℝ) (h0 : 0 ≤ t) (h1 : t ≤ 1) : WellDefined quint_inout t := by ease_wd quint_inout
theorem expo_in_wd (t : ℝ) (h0 : 0 ≤ t) (h1 : t ≤ 1) : WellDefined expo_in t := by ease_wd expo_in
theorem expo_out_wd (t : ℝ) (h0 : 0 ≤ t) (h1 : t ≤ 1) : WellDefined expo_out t := by ease_wd expo_out
theorem expo_inout_wd (t : ℝ) (h0 : 0 ≤ t) (h1 : t ≤ 1) : WellDefined expo_inout t := by ease_wd expo_inout
theorem sine_in_wd (t : ℝ) (h0 : 0 ≤ t) (h1 : t ≤ 1) : WellDefined sine_in t := by ease_wd sine_in
theorem sine_out_wd (t : ℝ) (h0 : 0 ≤ t) (h1 : t ≤ 1) : WellDefined sine_out t := by ease_wd sine_out
theorem sine_inout_wd (t : ℝ) (h0 : 0 ≤ t) (h1 : t ≤ 1) : WellDefined sine_inout t := by ease_wd sine_inout
theorem bounce_out_wd (t : ℝ) (h0 : 0 ≤ t) (h1 : t ≤ 1) : WellDefined bounce_out t := by ease_wd bounce_out
theorem bounce_in_wd (t : ℝ) (h0 : 0 ≤ t) (h1 : t ≤ 1) : WellDefined bounce_in t := by
  unfold WellDefined bounce_in bounce_out; chk_unfold; (try split_ifs) <;> (try simp) <;> (try norm_num) <;> (try nlinarith)
theorem bounce_inout_wd (t : ℝ) (h0 : 0 ≤ t) (h1 : t ≤ 1) : WellDefined bounce_inout t := by
  unfold WellDefined bounce_inout bounce_out; chk_unfold; (try split_ifs) <;> (try simp) <;> (try norm_num) <;> (try nlinarith)

/-- Every function of the regenerated table is well defined on the whole of [0,1] (over ℝ). -/
theorem C19_easing_welldefined : ∀ p ∈ (table : List (String × (ℝ × Prop → ℝ × Prop))),
    ∀ t : ℝ, 0 ≤ t → t ≤ 1 → WellDefined p.2 t := by
  simp only [table, List.mem_cons, List.not_mem_nil, or_false]
  rintro p (rfl | rfl | rfl | rfl | rfl | rfl | rfl | rfl | rfl | rfl | rfl | rfl | rfl | rfl | rfl |
    rfl | rfl | rfl | rfl | rfl | rfl | rfl | rfl | rfl | rfl) t h0 h1
  exacts [linear_wd t h0 h1, quad_in_wd t h0 h1, quad_out_wd t h0 h1, quad_inout_wd t h0 h1, cubic_in_wd t h0 h1, cubic_out_wd t h0 h1, cubic_inout_wd t h0 h1, quart_in_wd t h0 h1, quart_out_wd t h0 h1, quart_inout_wd t h0 h1, quint_in_wd t h0 h1, quint_out_wd t h0 h1, quint_inout_wd t h0 h1, circ_in_wd t h0 h1, circ_out_wd t h0 h1, circ_inout_wd t h0 h1, expo_in_wd t h0 h1, expo_out_wd t h0 h1, expo_inout_wd t h0 h1, sine_in_wd t h0 h1, sine_out_wd t h0 h1, sine_inout_wd t h0 h1, bounce_in_wd t h0 h1, bounce_out_wd t h0 h1, bounce_inout_wd t h0 h1]

end SycVerif.Easing

namespace SycVerif.Easing
open EasingOps

/-! The checking instance computes the same values as the real instance (so `WellDefined` talks
about the evaluation that the endpoint theorems talk about). -/
theorem linear_chk_val (t : ℝ) : (linear ((t, True) : ℝ × Prop)).1 = linear t := rfl
theorem quad_in_chk_val (t : ℝ) : (quad_in ((t, True) : ℝ × Prop)).1 = quad_in t := by
  unfold quad_in; chk_unfold; first | done | ((try split_ifs) <;> simp_all)
theorem quad_out_chk_val (t : ℝ) : (quad_out ((t, True) : ℝ × Prop)).1 = quad_out t := by
  unfold quad_out; chk_unfold; first | done | ((try split_ifs) <;> simp_all)
theorem quad_inout_chk_val (t : ℝ) : (quad_inout ((t, True) : ℝ × Prop)).1 = quad_inout t := by
  unfold quad_inout; chk_unfold; first | done | ((try split_ifs) <;> simp_all)
theorem cubic_in_chk_val (t : ℝ) : (cubic_in ((t, True) : ℝ × Prop)).1 = cubic_in t := by
  unfold cubic_in; chk_unfold; first | done | ((try split_ifs) <;> simp_all)
theorem cubic_out_chk_val (t : ℝ) : (cubic_out ((t, True) : ℝ × Prop)).1 = cubic_out t := by
  unfold cubic_out; chk_unfold; first | done | ((try split_ifs) <;> simp_all)
theorem cubic_inout_chk_val (t : ℝ) : (cubic_inout ((t, True) : ℝ × Prop)).1 = cubic_inout t := by
  unfold cubic_inout; chk_unfold; first | done | ((try split_ifs) <;> simp_all)
theorem quart_in_chk_val (t : ℝ) : (quart_in ((t, True) : ℝ × Prop)).1 = quart_in t := by
  unfold quart_in; chk_unfold; first | done | ((try split_ifs) <;> simp_all)
theorem quart_out_chk_val (t : ℝ) : (quart_out ((t, True) : ℝ × Prop)).1 = quart_out t := by
  unfold quart_out; chk_unfold; first | done | ((try split_ifs) <;> simp_all)
theorem quart_inout_chk_val (t : ℝ) : (quart_inout ((t, True) : ℝ × Prop)).1 = quart_inout t := by
  unfold quart_inout; chk_unfold; first | done | ((try split_ifs) <;> simp_all)
theorem quint_in_chk_val (t : ℝ) : (quint_in ((t, True) : ℝ × Prop)).1 = quint_in t := by
  unfold quint_in; chk_unfold; first | done | ((try split_ifs) <;> simp_all)
theorem quint_out_chk_val (t : ℝ) : (quint_out ((t, True) : ℝ × Prop)).1 = quint_out t := by
  unfold quint_out; chk_unfold; first | done | ((try split_ifs) <;> simp_all)
theorem quint_inout_chk_val (t : ℝ) : (quint_inout ((t, True) : ℝ × Prop)).1 = quint_inout t := by
  unfold quint_inout; chk_unfold; first | done | ((try split_ifs) <;> simp_all)
theorem circ_in_chk_val (t : ℝ) : (circ_in ((t, True) : ℝ × Prop)).1 = circ_in t := by
  unfold circ_in; chk_unfold; first | done | ((try split_ifs) <;> simp_all)
theorem circ_out_chk_val (t : ℝ) : (circ_out ((t, True) : ℝ × Prop)).1 = circ_out t := by
  unfold circ_out; chk_unfold; first | done | ((try split_ifs) <;> simp_all)
theorem circ_inout_chk_val (t : ℝ) : (circ_inout ((t, True) : ℝ × Prop)).1 = circ_inout t := by
  unfold circ_inout; chk_unfold; first | done | ((try split_ifs) <;> simp_all)
theorem expo_in_chk_val (t : ℝ) : (expo_in ((t, True) : ℝ × Prop)).1 = expo_in t := by
  unfold expo_in; chk_unfold; first | done | ((try split_ifs) <;> simp_all)
theorem expo_out_chk_val (t : ℝ) : (expo_out ((t, True) : ℝ × Prop)).1 = expo_out t := by
  unfold expo_out; chk_unfold; first | done | ((try split_ifs) <;> simp_all)
theorem expo_inout_chk_val (t : ℝ) : (expo_inout ((t, True) : ℝ × Prop)).1 = expo_inout t := by
  unfold expo_inout; chk_unfold; first | done | ((try split_ifs) <;> simp_all)
theorem sine_in_chk_val (t : ℝ) : (sine_in ((t, True) : ℝ × Prop)).1 = sine_in t := by
  unfold sine_in; chk_unfold; first | done | ((try split_ifs) <;> simp_all)
theorem sine_out_chk_val (t : ℝ) : (sine_out ((t, True) : ℝ × Prop)).1 = sine_out t := by
  unfold sine_out; chk_unfold; first | done | ((try split_ifs) <;> simp_all)
theorem sine_inout_chk_val (t : ℝ) : (sine_inout ((t, True) : ℝ × Prop)).1 = sine_inout t := by
  unfold sine_inout; chk_unfold; first | done | ((try split_ifs) <;> simp_all)
theorem bounce_out_chk_val (t : ℝ) : (bounce_out ((t, True) : ℝ × Prop)).1 = bounce_out t := by
  unfold bounce_out; chk_unfold; first | done | ((try split_ifs) <;> simp_all)
theorem bounce_in_chk_val (t : ℝ) : (bounce_in ((t, True) : ℝ × Prop)).1 = bounce_in t := by
  unfold bounce_in bounce_out; chk_unfold; first | done | ((try split_ifs) <;> simp_all)
theorem bounce_inout_chk_val (t : ℝ) : (bounce_inout ((t, True) : ℝ × Prop)).1 = bounce_inout t := by
  unfold bounce_inout bounce_out; chk_unfold; first | done | ((try split_ifs) <;> simp_all)
end SycVerif.Easing
