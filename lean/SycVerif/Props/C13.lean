/-
C13 — "A suspense boundary reports loading exactly while some task registered under it or under an
enclosing boundary is unfinished, for every order in which tasks finish."

Model: `SycVerif/Model/Async.lean` (event level; executor, `Abortable` and wakers are assumptions of
the model, exercised by the correspondence check). Everything below holds for EVERY build
description `items` and EVERY event sequence: no bound on sizes or lengths.

Vocabulary (defined in `Lemmas/Async.lean`):
* `Reach m`              `m = buildItems M.init 0 none items` for some `items`, closed under `step`;
* `run m es`             `es.foldl step m`;
* `unfinishedAt m b`     number of tasks with `boundary = some b` and `status = .pending`.
                         (`drain` runs inside `step`, so in a reachable state no task is `.aborted`
                         (`NoAborted`); between `dispose` and `drain` the invariant is the one with
                         `heldAt` = pending or aborted, see `Dyn.counter`);
* `Anc m a s`            scope `a` is `s` or an ancestor of `s` (closure of `Scope.parent`);
* `Encloses m a b`       boundary `a` is `b` or on `b`'s parent chain (closure of `Boundary.parent`);
* `Struct m`             parents have smaller indices; a boundary's `counterScope` is the parent of
                         its `innerScope`; the parent boundary has a smaller index and its inner scope
                         is an ancestor-or-equal of the child's counter scope; a task's scope and its
                         boundary exist; the root scope exists; the recorded owner of a resource exists;
* `Local m`              every task is spawned in place: its boundary's inner scope is an
                         ancestor-or-equal of the task's scope. True of the tasks created by `Item.task`
                         and `Item.resource`; NOT of the guard of a read (`Item.use n`), which is held by
                         the resource and is a task of the scope that owns resource `n` (`M.ownerOf`);
* `Items.noUse items`    the build description contains no `Item.use`;
* `Dyn m`                a live scope has a live parent; live counter = number of held guards; a
                         pending task lives in a live scope;
* `Covers m ts`          `ts` completes every await point of every pending task, each of which has ≥ 1.
-/
import SycVerif.Lemmas.Async
namespace SycVerif.Async

/-! ### the invariants of reachable states -/

/-- reachable states satisfy the structural and the dynamic invariant, and no task is left aborted -/
theorem C13_reach_invariants {m : M} (hr : Reach m) : Struct m ∧ Dyn m ∧ NoAborted m :=
  ⟨hr.good.struct, hr.good.dyn, hr.good.noAborted⟩

/-- the shape never changes: scopes' parents, the static fields of boundaries and the scope/boundary
of tasks are those of the build -/
theorem C13_shape_constant (m : M) (es : List Ev) : SameSkel m (run m es) := sameSkel_run m es

/-- the scope that owns a resource exists, in every reachable state -/
theorem C13_owner_exists {m : M} (hr : Reach m) (n : Nat) : m.ownerOf n < m.scopes.length :=
  hr.good.struct.ownerOf_lt n

/-- events never change the recorded owners -/
theorem C13_owner_constant (m : M) (es : List Ev) : (run m es).resOwner = m.resOwner := (sameSkel_run m es).res

/-- The boundary of a task exists. When the task was spawned in place (the boundary's inner scope is the
task's scope or an ancestor of it) and its scope is alive, both the boundary's inner scope and its counter
are alive. (Without the first hypothesis this fails for the guard of a read, which lives in the scope that
owns the resource: see the example at the end. The guard then outlives the counter; D5.) -/
theorem C13_task_counter_alive {m : M} (hr : Reach m) {t b : Nat} {tk : Task}
    (ht : m.tasks[t]? = some tk) (hb : tk.boundary = some b) :
    ∃ bd, m.boundaries[b]? = some bd ∧
      (Anc m bd.innerScope tk.scope → scopeAlive m tk.scope = true →
        scopeAlive m bd.innerScope = true ∧ scopeAlive m bd.counterScope = true) := by
  obtain ⟨bd, hbd⟩ := hr.good.struct.task_bnd t tk b ht hb
  refine ⟨bd, hbd, fun hanc hal => ?_⟩
  have h1 := hanc.alive hr.good.dyn hal
  exact ⟨h1, hr.good.counter_alive hbd h1⟩

/-- every task of a build without reads is spawned in place, in every state of every run -/
theorem C13_local_noUse (items : List Item) (hn : Items.noUse items = true) (es : List Ev) :
    Local (run (buildItems M.init 0 none items) es) :=
  (local_build items hn).of_sameSkel (sameSkel_run _ es)

/-- … so for builds without reads: when a task's scope is alive, its boundary exists and both the
boundary's inner scope and its counter are alive -/
theorem C13_task_counter_alive_noUse (items : List Item) (hn : Items.noUse items = true) (es : List Ev)
    {t b : Nat} {tk : Task} :
    let m := run (buildItems M.init 0 none items) es
    m.tasks[t]? = some tk → tk.boundary = some b → scopeAlive m tk.scope = true →
    ∃ bd, m.boundaries[b]? = some bd ∧ scopeAlive m bd.innerScope = true ∧
      scopeAlive m bd.counterScope = true := by
  intro m ht hb hal
  obtain ⟨bd, hbd, hanc⟩ := C13_local_noUse items hn es t tk b ht hb
  obtain ⟨bd', hbd', h⟩ := C13_task_counter_alive ((Reach.build items).run es) ht hb
  rw [hbd] at hbd'; cases hbd'
  exact ⟨bd, hbd, h hanc hal⟩

/-! ### the counter -/

/-- In every reachable state, the counter of every boundary whose counter still exists equals the
number of unfinished tasks registered under that boundary. -/
theorem C13_remaining_eq_unfinished {m : M} (hr : Reach m) {b : Nat} {bd : Boundary}
    (hb : m.boundaries[b]? = some bd) (hal : scopeAlive m bd.counterScope = true) :
    bd.remaining = unfinishedAt m b :=
  hr.good.counter_eq hb hal

/-- the same along any event sequence from any build -/
theorem C13_remaining_eq_unfinished_run (items : List Item) (es : List Ev) {b : Nat} {bd : Boundary} :
    let m := run (buildItems M.init 0 none items) es
    m.boundaries[b]? = some bd → scopeAlive m bd.counterScope = true → bd.remaining = unfinishedAt m b :=
  fun hb hal => C13_remaining_eq_unfinished ((Reach.build items).run es) hb hal

/-! ### `is_loading` -/

/-- In every reachable state, a boundary whose inner scope is alive reports loading iff some pending
task is registered at it or at a boundary on its parent chain. The fuel `boundaries.length + 1`
suffices because parent boundaries have smaller indices. -/
theorem C13_isLoading_iff {m : M} (hr : Reach m) {b : Nat} {bd : Boundary}
    (hb : m.boundaries[b]? = some bd) (hal : scopeAlive m bd.innerScope = true) :
    isLoading m (m.boundaries.length + 1) b = true ↔
      ∃ (a t : Nat) (tk : Task), Encloses m a b ∧ m.tasks[t]? = some tk ∧ tk.boundary = some a ∧
        tk.status = .pending :=
  isLoading_iff hr.good hb hal

/-- `use_is_loading_global` (after D9): some boundary with a live counter has an unfinished task -/
theorem C13_global {m : M} (hr : Reach m) :
    globalLoading m = true ↔
      ∃ (b : Nat) (bd : Boundary), m.boundaries[b]? = some bd ∧ scopeAlive m bd.counterScope = true ∧
        0 < unfinishedAt m b :=
  globalLoading_iff hr.good

/-! ### every order -/

/-- In a reachable state an event `complete t` needs no executor turn: nothing is aborted. -/
theorem C13_complete_no_drain {m : M} (hr : Reach m) (t : Nat) : step m (.complete t) = complete m t :=
  step_complete_eq hr.good.noAborted t

/-- two completions commute (up to the order of the poll log) -/
theorem C13_complete_comm {m : M} (hr : Reach m) (t u : Nat) :
    ObsEq (run m [.complete t, .complete u]) (run m [.complete u, .complete t]) := by
  have h1 := run_complete_eq hr.good.noAborted [t, u]
  have h2 := run_complete_eq hr.good.noAborted [u, t]
  simp only [List.map_cons, List.map_nil] at h1 h2
  rw [h1, h2]
  exact complete_comm m t u

/-- Two sequences of completions that are permutations of each other end in states with the same
scopes, boundaries (hence `remaining` counters) and tasks; only the order of `polls` differs. -/
theorem C13_order_independent {m : M} (hr : Reach m) {ts ts' : List Nat} (hp : ts.Perm ts') :
    ObsEq (run m (ts.map .complete)) (run m (ts'.map .complete)) := by
  rw [run_complete_eq hr.good.noAborted, run_complete_eq hr.good.noAborted]
  exact runC_perm hp m

/-- … in particular every `remaining` counter, every `isLoading` value and `globalLoading` agree -/
theorem C13_order_independent_obs {m : M} (hr : Reach m) {ts ts' : List Nat} (hp : ts.Perm ts') :
    let m1 := run m (ts.map .complete)
    let m2 := run m (ts'.map .complete)
    (∀ b : Nat, (m1.boundaries[b]?).map (·.remaining) = (m2.boundaries[b]?).map (·.remaining)) ∧
    (∀ fuel b : Nat, isLoading m1 fuel b = isLoading m2 fuel b) ∧
    globalLoading m1 = globalLoading m2 := by
  have h := C13_order_independent hr hp
  exact ⟨fun b => by rw [h.2.1], isLoading_congr h.2.1, globalLoading_congr h⟩

/-- After completing every await point of every task, in any order, no task is pending, every live
counter is 0, no boundary with a live inner scope is loading, and nothing is loading globally.
(`Covers` requires every pending task to have at least one await point: see the example at the
end for a task with none.) -/
theorem C13_all_done {m : M} (hr : Reach m) {ts : List Nat} (hc : Covers m ts) :
    let m' := run m (ts.map .complete)
    (∀ (t : Nat) (tk : Task), m'.tasks[t]? = some tk → tk.status ≠ .pending) ∧
    (∀ (b : Nat) (bd : Boundary), m'.boundaries[b]? = some bd → scopeAlive m' bd.counterScope = true →
      bd.remaining = 0) ∧
    (∀ (b : Nat) (bd : Boundary), m'.boundaries[b]? = some bd → scopeAlive m' bd.innerScope = true →
      isLoading m' (m'.boundaries.length + 1) b = false) ∧
    globalLoading m' = false := by
  intro m'
  have hr' : Reach m' := hr.run _
  have hdone : ∀ (t : Nat) (tk : Task), m'.tasks[t]? = some tk → tk.status ≠ .pending := by
    intro t tk ht
    have ht : (run m (ts.map .complete)).tasks[t]? = some tk := ht
    rw [run_complete_eq hr.good.noAborted] at ht
    exact runC_all_done ts m hc t tk ht
  have hzero : ∀ a, unfinishedAt m' a = 0 := by
    intro a
    cases h : unfinishedAt m' a with
    | zero => rfl
    | succ k =>
      obtain ⟨t, tk, h1, _, h3⟩ := (unfinishedAt_pos_iff m' a).1 (by omega)
      exact absurd h3 (hdone t tk h1)
  refine ⟨hdone, ?_, ?_, ?_⟩
  · intro b bd hb hal
    rw [C13_remaining_eq_unfinished hr' hb hal, hzero]
  · intro b bd hb hal
    cases h : isLoading m' (m'.boundaries.length + 1) b with
    | false => rfl
    | true =>
      obtain ⟨a, t, tk, _, h1, _, h3⟩ := (C13_isLoading_iff hr' hb hal).1 h
      exact absurd h3 (hdone t tk h1)
  · cases h : globalLoading m' with
    | false => rfl
    | true =>
      obtain ⟨b, bd, _, _, h0⟩ := (C13_global hr').1 h
      rw [hzero] at h0; omega

/-- From a fresh build (nothing disposed) this covers every boundary. -/
theorem C13_all_done_build (items : List Item) {ts : List Nat}
    (hc : Covers (buildItems M.init 0 none items) ts) (b : Nat) :
    let m' := run (buildItems M.init 0 none items) (ts.map .complete)
    isLoading m' (m'.boundaries.length + 1) b = false := by
  intro m'
  have hbi := (buildItems_bi items _ _ _ bi_init valid_init).1
  have hr : Reach (buildItems M.init 0 none items) := .build items
  cases hb : m'.boundaries[b]? with
  | none => unfold isLoading; rw [hb]
  | some bd =>
    refine (C13_all_done hr hc).2.2.1 b bd hb ?_
    have hsk : SameSkel (buildItems M.init 0 none items) m' := sameSkel_run _ _
    have hlen := parentOf_lt_length ((hr.run _).good.struct.bnd_inner b bd hb)
    have hsc : m'.scopes = (buildItems M.init 0 none items).scopes := by
      show (run _ _).scopes = _
      rw [run_complete_eq hr.good.noAborted, runC_scopes]
    rw [scopeAlive_congr hsc]
    exact hbi.all_alive _ (by rw [← hsc]; exact hlen)

/-! ### non-vacuity -/

/-- `B0 { t0(1 await)  B1 { t1(2 awaits) } }  t2(1 await, no boundary)` -/
def c13Items : List Item := [.boundary [.task 1, .boundary [.task 2]], .task 1]
def c13M : M := buildItems M.init 0 none c13Items

example : (c13M.boundaries.map (·.remaining)) = [1, 1] := by decide
example : (c13M.boundaries.map (·.parent)) = [none, some 0] := by decide
example : unfinishedAt c13M 0 = 1 ∧ unfinishedAt c13M 1 = 1 := by decide
example : isLoading c13M 3 0 = true ∧ isLoading c13M 3 1 = true ∧ globalLoading c13M = true := by decide
-- the inner task finishes first: the inner boundary keeps loading because of the enclosing one
example : let m := run c13M [.complete 1, .complete 1]
    (m.boundaries.map (·.remaining)) = [1, 0] ∧ isLoading m 3 0 = true ∧ isLoading m 3 1 = true := by decide
-- the outer task finishes first: the outer boundary is done, the inner one is not
example : let m := run c13M [.complete 0]
    (m.boundaries.map (·.remaining)) = [0, 1] ∧ isLoading m 3 0 = false ∧ isLoading m 3 1 = true := by decide
-- two orders of the same completions
example : Covers c13M [1, 0, 2, 1] := by
  intro t tk ht hp
  match t, ht with
  | 0, ht | 1, ht | 2, ht => cases ht; decide
  | t + 3, ht => simp [c13M, c13Items, buildItems, buildItem, M.init] at ht
example : let m := run c13M ([1, 0, 2, 1].map .complete)
    (m.boundaries.map (·.remaining)) = [0, 0] ∧ isLoading m 3 0 = false ∧ isLoading m 3 1 = false ∧
      globalLoading m = false ∧ m.polls = [(1, 1), (0, 0), (2, 0), (1, 0)] := by decide
example : let m := run c13M ([2, 1, 1, 0].map .complete)
    (m.boundaries.map (·.remaining)) = [0, 0] ∧ isLoading m 3 0 = false ∧ isLoading m 3 1 = false ∧
      globalLoading m = false ∧ m.polls = [(2, 0), (1, 1), (1, 0), (0, 0)] := by decide
example : [1, 0, 2, 1].Perm [2, 1, 1, 0] := by decide
-- `Encloses`: boundary 0 encloses boundary 1
example : Encloses c13M 0 1 := .up (bd := ⟨some 0, 1, 2, 1⟩) rfl rfl .refl
/-- A task WITHOUT await points is never resumed by a `complete` event: in the model it stays pending
and keeps its boundary loading for ever. This is why `Covers` asks for `1 ≤ awaits`. -/
example : let m := run (buildItems M.init 0 none [.boundary [.task 0]]) [.complete 0, .complete 0]
    isLoading m 2 0 = true ∧ (m.tasks.map (·.status)) = [.pending] := by decide
/-- The guard of a read lives in the scope that owns the resource (here: the root scope, resource 0 was
not created by an item), not below the boundary it is registered at: `S1 { B0 { use 0 } }`, dispose `S1`:
the task (scope 0) is alive and pending, its boundary's inner scope 2 and counter scope 1 are dead. -/
example : let m := run (buildItems M.init 0 none [.scope [.boundary [.use 0]]]) [.dispose 1]
    (m.tasks.map fun tk => (tk.scope, tk.boundary, tk.status)) = [(0, some 0, .pending)] ∧
    (m.boundaries.map fun bd => (bd.counterScope, bd.innerScope)) = [(1, 2)] ∧
    scopeAlive m 0 = true ∧ scopeAlive m 1 = false ∧ scopeAlive m 2 = false ∧ globalLoading m = false := by decide
-- resources and reads count like tasks: `B0 { resource 0, use 0 }`
example : let m := buildItems M.init 0 none [.boundary [.resource 0, .use 0]]
    (m.boundaries.map (·.remaining)) = [2] ∧ unfinishedAt m 0 = 2 ∧ m.resOwner = [(0, 1)] ∧ m.ownerOf 0 = 1 ∧
    isLoading (run m [.complete 0]) 2 0 = true ∧ isLoading (run m [.complete 0, .complete 1]) 2 0 = false := by decide

end SycVerif.Async
