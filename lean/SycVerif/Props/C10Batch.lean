/-
C10 — batching, clause (ii): "When the outermost batch returns, every surviving computation
affected by any write made in it has run exactly once and state is consistent as after a single
write."

`Props/C10.lean` shows that the end of the outermost batch is ONE call of
`propagate_node_updates` on the queue of written signals (`C10_outermost_batch`).  The single-write
theorems `C01_dynamic_set(_run)` (`Props/C01Dynamic.lean`) cover `propagate_node_updates` with one
start node.  This file proves the MULTI-START version, on dynamic dependency graphs with pure bodies
(`DynArena`), under the same kind of no-late-edge hypothesis:

* `WrittenFrom r0 r1 starts`   `r1` is the `DynArena` `r0` with the values of some callback-less
                               nodes overwritten, all of them listed in `starts` (duplicates allowed);
* `applyWrites r0 ws`          `r0` after the writes `ws : List (Id × Int)` (what `set_silent` does:
                               `setSilentAll`, `applyWrites_spec`);
* `NoLateEdgeBatch r1 starts`  static form: a computation reachable from a start node does not read,
                               on any branch, a node reachable from a start node that is not already
                               one of its dependencies;  `NoLateEdgeBatchC`: the same asked only of
                               reads of computations (not of written signals);
* `NoLateEdgeBatchRun fuel r1 starts`  trace form (`NoLateRun` along the run of the second loop);
                               `NoLateEdgeBatchRunC`: only reads of pending computations count;
* `C10_batch_end_written(_sharp|_run|_runC)`     the theorem in relational form (composes with `Quiet`);
* `C10_batch_end_consistent(_sharp|_run|_runC)`  the theorem for `applyWrites`;
* `C10_batch_consistent_at_end(_sharp|_run|_runC)`  composition with `C10_outermost_batch`: the DSL
                               statement `batch b` for a `WriteOnly` body `b`;
* `batchDemo_instance`, `batchDemo_writes_instance`, `batchDemo2_instance`   non-vacuity.

"Exactly once": the theorems give `(runIds ran).Nodup` (no computation runs twice in the whole
batch), "only nodes reachable from a written signal run", and "every direct dependent of a written
signal runs".  A node further down runs iff one of its dependencies notified (a selector whose `eq`
accepts the recomputed value does not notify) — so "ran" cannot be claimed for every reachable
node; what is claimed for all of them is consistency (`DynArena r'`).

Helper lemmas: `SycVerif/Lemmas/PropagateMulti.lean`.
-/
import SycVerif.Lemmas.PropagateMulti
import SycVerif.Props.C01Dynamic
import SycVerif.Props.C10
namespace SycVerif.Reactive

/-! ### 1. the state after the writes of the batch body -/

/-- `r1` is `r0` with the values of some nodes overwritten: nothing else differs, every node still
holds a value, and a node whose value differs is a callback-less node (a signal) listed in `starts`.
Every id in `starts` names a live callback-less node.  (`starts` may contain duplicates and ids
whose value did not change.) -/
structure WrittenFrom (r0 r1 : Root) (starts : List Id) : Prop where
  frame : SameFrame r0 r1
  dead : ∀ j, r0.get? j = none → r1.get? j = none
  node : ∀ j n, r0.get? j = some n → ∃ v, r1.get? j = some { n with value := some v } ∧
    (n.value ≠ some v → n.callback = none ∧ j ∈ starts)
  starts : ∀ s ∈ starts, ∃ ns, r0.get? s = some ns ∧ ns.callback = none

theorem WrittenFrom.bwd {r0 r1 : Root} {starts : List Id} (h : WrittenFrom r0 r1 starts) {j : Id}
    {n1 : Node} (hn1 : r1.get? j = some n1) :
    ∃ n v, r0.get? j = some n ∧ n1 = { n with value := some v } ∧
      (n.value ≠ some v → n.callback = none ∧ j ∈ starts) := by
  cases hn : r0.get? j with
  | none => rw [h.dead j hn] at hn1; cases hn1
  | some n =>
    obtain ⟨v, hv, hx⟩ := h.node j n hn
    rw [hn1] at hv; cases hv
    exact ⟨n, v, rfl, rfl, hx⟩

theorem WrittenFrom.alive_eq {r0 r1 : Root} {starts : List Id} (h : WrittenFrom r0 r1 starts) (d : Id) :
    r1.alive d = r0.alive d := by
  cases hn : r0.get? d with
  | none => simp [Root.alive, hn, h.dead d hn]
  | some n => obtain ⟨v, hv, _⟩ := h.node d n hn; simp [Root.alive, hn, hv]

theorem WrittenFrom.structD {r0 r1 : Root} {starts : List Id} (h : WrittenFrom r0 r1 starts)
    (hS : StructD r0) : StructD r1 := by
  have hp : (NoDangling r0 → NoDangling r1) ∧ (EdgesSym r0 → EdgesSym r1) :=
    sameEdges_preserves fun j => by
      cases hn : r0.get? j with
      | none => exact ⟨id, fun _ => ⟨rfl, rfl⟩, by rw [h.dead j hn]; rfl⟩
      | some n =>
        obtain ⟨v, hv, _⟩ := h.node j n hn
        exact ⟨fun m => { m with value := some v }, fun _ => ⟨rfl, rfl⟩, by rw [hv]; rfl⟩
  refine ⟨hp.1 hS.nd, hp.2 hS.sym, fun j n1 hn1 => ?_⟩
  obtain ⟨n, v, hn, rfl, _⟩ := h.bwd hn1
  have hk := hS.node j n hn
  refine ⟨rfl, hk.plain, fun eq cl hc => ?_⟩
  obtain ⟨a1, a2, a3, a4, a5, a6⟩ := hk.comp eq cl hc
  exact ⟨a1, a2, a3, a4, fun d hd => by rw [h.alive_eq]; exact a5 d hd, a6⟩

theorem WrittenFrom.unmarked {r0 r1 : Root} {starts : List Id} (h : WrittenFrom r0 r1 starts)
    (hU : Unmarked r0) : Unmarked r1 := by
  intro j n1 hn1
  obtain ⟨n, v, hn, rfl, _⟩ := h.bwd hn1
  exact hU j n hn

theorem WrittenFrom.clean {r0 r1 : Root} {starts : List Id} (h : WrittenFrom r0 r1 starts)
    (hC : ∀ j n, r0.get? j = some n → n.dirty = false) : ∀ j n, r1.get? j = some n → n.dirty = false := by
  intro j n1 hn1
  obtain ⟨n, v, hn, rfl, _⟩ := h.bwd hn1
  exact hC j n hn

theorem WrittenFrom.pureBound {r0 r1 : Root} {starts : List Id} (h : WrittenFrom r0 r1 starts)
    {B : Nat} (hB : PureBound r0 B) : PureBound r1 B := by
  intro j n1 eq cl hn1 hc
  obtain ⟨n, v, hn, rfl, _⟩ := h.bwd hn1
  exact hB j n eq cl hn hc

/-- in `r1` every node none of whose dependencies was written is consistent with the new values and
its dependency list is the list of tracked reads of a run on the new values -/
theorem WrittenFrom.settled {r0 r1 : Root} {starts : List Id} (h : WrittenFrom r0 r1 starts)
    (hA : DynArena r0) : ∀ j n1, r1.get? j = some n1 → (∀ s ∈ starts, s ∉ n1.dependencies) →
      locallyConsistent r1 j ∧ DepsCurrent r1 n1 := by
  intro j n1 hn1 hno
  obtain ⟨n, v, hn, rfl, hx⟩ := h.bwd hn1
  by_cases hv : n.value = some v
  · refine settled_congr hn hn1 rfl hv.symm rfl (fun eq cl hcb id hid => ?_)
      ⟨hA.consistent j, hA.deps j n hn⟩
    have hid' : id ∈ n.dependencies := by rw [hA.deps j n hn eq cl hcb]; exact hid
    apply getUntracked_congr
    cases hm : r0.get? id with
    | none => rw [h.dead id hm]
    | some m =>
      obtain ⟨w, hw, hy⟩ := h.node id m hm
      rw [hw]
      by_cases hmw : m.value = some w
      · simp [hmw]
      · exact absurd hid' (hno id (hy hmw).2)
  · have hc := (hx hv).1
    exact ⟨locallyConsistent_of_plain hn1 hc, fun eq cl hcb => by simp [hc] at hcb⟩

theorem WrittenFrom.refl {r : Root} (hv : ∀ j n, r.get? j = some n → n.value.isSome = true) :
    WrittenFrom r r [] := by
  refine ⟨SameFrame.refl r, fun _ h => h, fun j n hn => ?_, fun s hs => by cases hs⟩
  obtain ⟨v, hv⟩ := Option.isSome_iff_exists.1 (hv j n hn)
  refine ⟨v, ?_, fun hne => absurd hv hne⟩
  rw [hn]; cases n; simp_all

theorem WrittenFrom.trans {a b c : Root} {A B : List Id} (h1 : WrittenFrom a b A)
    (h2 : WrittenFrom b c B) : WrittenFrom a c (A ++ B) := by
  refine ⟨h1.frame.trans h2.frame, fun j hj => h2.dead j (h1.dead j hj), fun j n hn => ?_,
    fun s hs => ?_⟩
  · obtain ⟨v1, hv1, hx1⟩ := h1.node j n hn
    obtain ⟨v2, hv2, hx2⟩ := h2.node j _ hv1
    refine ⟨v2, hv2, fun hne => ?_⟩
    by_cases e1 : n.value = some v1
    · obtain ⟨c2, m2⟩ := hx2 (by show some v1 ≠ some v2; rw [← e1]; exact hne)
      exact ⟨c2, List.mem_append_right _ m2⟩
    · obtain ⟨c1, m1⟩ := hx1 e1
      exact ⟨c1, List.mem_append_left _ m1⟩
  · rcases List.mem_append.1 hs with hs | hs
    · exact h1.starts s hs
    · obtain ⟨nb, hnb, hc⟩ := h2.starts s hs
      obtain ⟨n, v, hn, rfl, _⟩ := h1.bwd hnb
      exact ⟨n, hn, hc⟩

/-- one write -/
theorem WrittenFrom.setValue {r : Root} {s : Id} {ns : Node} (hn : r.get? s = some ns)
    (hc : ns.callback = none) (hv : ∀ j n, r.get? j = some n → n.value.isSome = true) (v : Int) :
    WrittenFrom r (r.setNode s { ns with value := some v }) [s] := by
  have hget := Dfs.get?_setNode_of_get? hn { ns with value := some v }
  refine ⟨SameFrame.setNode .., fun j hj => ?_, fun j n hj => ?_, fun s' hs' => ?_⟩
  · rw [hget]; split
    · rename_i e; rw [e, hn] at hj; cases hj
    · exact hj
  · by_cases e : j = s
    · subst e
      rw [hn] at hj; cases hj
      exact ⟨v, by rw [hget, if_pos rfl], fun _ => ⟨hc, by simp⟩⟩
    · obtain ⟨w, hw⟩ := Option.isSome_iff_exists.1 (hv j n hj)
      refine ⟨w, ?_, fun hne => absurd hw hne⟩
      rw [hget, if_neg e, hj]; cases n; simp_all
  · simp only [List.mem_singleton] at hs'; subst hs'; exact ⟨ns, hn, hc⟩

/-- the arena after the writes `ws`, in order: each write overwrites the stored value, exactly what
`set_silent` (`setSilent`, see `setSilentAll_eq`) does -/
def applyWrites (r : Root) : List (Id × Int) → Root
  | [] => r
  | (s, v) :: ws =>
    match r.get? s with
    | some ns => applyWrites (r.setNode s { ns with value := some v }) ws
    | none => applyWrites r ws

/-- the model's `set_silent` for every write, in order -/
def setSilentAll (r : Root) : List (Id × Int) → Except Panic Root
  | [] => .ok r
  | (s, v) :: ws =>
    match setSilent r s v with
    | .ok r => setSilentAll r ws
    | .error e => .error e

theorem applyWrites_spec : ∀ (ws : List (Id × Int)) (r : Root),
    (∀ j n, r.get? j = some n → n.value.isSome = true) →
    (∀ p ∈ ws, ∃ ns, r.get? p.1 = some ns ∧ ns.callback = none) →
    WrittenFrom r (applyWrites r ws) (ws.map Prod.fst) ∧ setSilentAll r ws = .ok (applyWrites r ws)
  | [], r, hv, _ => ⟨.refl hv, rfl⟩
  | (s, v) :: ws, r, hv, hws => by
    obtain ⟨ns, hn, hc⟩ := hws (s, v) (by simp)
    obtain ⟨old, hold⟩ := Option.isSome_iff_exists.1 (hv s ns hn)
    have hget := Dfs.get?_setNode_of_get? hn { ns with value := some v }
    have h1 := WrittenFrom.setValue hn hc hv v
    have hv' : ∀ j n, (r.setNode s { ns with value := some v }).get? j = some n → n.value.isSome = true := by
      intro j n hj
      rw [hget] at hj
      split at hj
      · cases hj; rfl
      · exact hv j n hj
    have hws' : ∀ p ∈ ws, ∃ ns', (r.setNode s { ns with value := some v }).get? p.1 = some ns' ∧
        ns'.callback = none := by
      intro p hp
      obtain ⟨np, hnp, hcp⟩ := hws p (by simp [hp])
      rw [hget]
      split
      · rename_i e; rw [e, hn] at hnp; cases hnp; exact ⟨_, rfl, hc⟩
      · exact ⟨np, hnp, hcp⟩
    obtain ⟨h2, h3⟩ := applyWrites_spec ws _ hv' hws'
    simp only [applyWrites, hn, setSilentAll, setSilent_eq hn hold v, List.map_cons]
    exact ⟨by simpa using h1.trans h2, h3⟩

/-! ### 2. the hypotheses

Four forms.  Proved implications (`NoLateEdgeBatch.toC`, `NoLateEdgeBatchRun.toC`,
`noLateEdgeBatchC_runC`):

    NoLateEdgeBatch  ──►  NoLateEdgeBatchC
                                │
                                ▼
    NoLateEdgeBatchRun ──► NoLateEdgeBatchRunC        (weakest; the core theorem assumes this one)

The `C` forms only constrain reads of COMPUTATIONS (nodes with a callback): a written signal sits in
the schedule too, but it is never re-run and already holds its final value, so a computation may
start reading it during the propagation (typical: `batch(|| { a.set(..); b.set(..) })` with a memo
`if a > 0 { .. } else { b }`, see `batchDemo2`). -/

/-- **no late edge, static form, for several start nodes** (checkable on the arena `r` on which
`propagate_node_updates` starts): for every computation `c` reachable from a start node and every
node `d` that the body of `c` can read on ANY branch, if `d` is reachable from a start node too then
`d` is already a dependency of `c`. -/
def NoLateEdgeBatch (r : Root) (starts : List Id) : Prop :=
  ∀ c d, (∃ s ∈ starts, Reach r s c) → d ∈ allReadsOf r c → (∃ s ∈ starts, Reach r s d) →
    d ∈ depsOf r c

/-- the same, asked only of the `d` that are computations (`isComp`: live, with a callback) -/
def NoLateEdgeBatchC (r : Root) (starts : List Id) : Prop :=
  ∀ c d, (∃ s ∈ starts, Reach r s c) → d ∈ allReadsOf r c → (∃ s ∈ starts, Reach r s d) →
    isComp r d = true → d ∈ depsOf r c

/-- **no late edge, trace form**: along the run of the second loop of
`propagateNodeUpdates fuel r starts` itself, no computation reads, at the moment it is re-run, a node
that is still waiting in the schedule -/
def NoLateEdgeBatchRun : Nat → Root → List Id → Prop
  | fuel + 1, r, starts =>
    match visitStarts r [] starts with
    | .ok (rV, buf) => NoLateRun fuel (resetMarks rV starts) buf.reverse
    | .error _ => True
  | 0, _, _ => True

/-- the same, forbidding only reads of COMPUTATIONS that are still waiting in the schedule
(`NoLateRunC`, `Lemmas/PropagateMulti.lean`) -/
def NoLateEdgeBatchRunC : Nat → Root → List Id → Prop
  | fuel + 1, r, starts =>
    match visitStarts r [] starts with
    | .ok (rV, buf) => NoLateRunC fuel (resetMarks rV starts) buf.reverse
    | .error _ => True
  | 0, _, _ => True

theorem NoLateEdgeBatch.toC {r : Root} {starts : List Id} (h : NoLateEdgeBatch r starts) :
    NoLateEdgeBatchC r starts := fun c d hc hd hdr _ => h c d hc hd hdr

theorem NoLateEdgeBatchRun.toC {fuel : Nat} {r : Root} {starts : List Id}
    (h : NoLateEdgeBatchRun fuel r starts) : NoLateEdgeBatchRunC fuel r starts := by
  unfold NoLateEdgeBatchRun at h
  unfold NoLateEdgeBatchRunC
  split
  · split
    · rename_i rV buf hv
      simp only [hv] at h
      exact NoLateRun.toC _ _ _ h
    · trivial
  · trivial

/-- for a single start node the static hypothesis is `NoLateEdgeStatic` -/
theorem noLateEdgeBatch_single (r : Root) (s : Id) : NoLateEdgeBatch r [s] ↔ NoLateEdgeStatic r s := by
  unfold NoLateEdgeBatch NoLateEdgeStatic
  simp only [List.mem_singleton, exists_eq_left]

/-! ### 3. the first loop and the state handed to the second loop -/

/-- the first loop on the arena after the writes: it does not fail, the buffer lists (without
duplicates) exactly the nodes reachable from a start node, and the state handed to the second loop
satisfies the loop invariant -/
theorem C10_batch_schedule {r0 r1 : Root} {starts : List Id} {B : Nat} (hA : DynArena r0)
    (hW : WrittenFrom r0 r1 starts) (hB : PureBound r0 B) :
    ∃ rV buf, visitStarts r1 [] starts = .ok (rV, buf) ∧ buf.Nodup ∧
      (∀ i, i ∈ buf ↔ ∃ s ∈ starts, Reach r1 s i) ∧
      LoopInvM (resetMarks rV starts) buf.reverse ∧ EvolvesD r1 (resetMarks rV starts) [] ∧
      PureBound (resetMarks rV starts) B ∧ buf.reverse.length ≤ r0.nodes.size ∧
      ∀ j, DepOfStart r1 starts j → ∃ n, (resetMarks rV starts).get? j = some n ∧ n.dirty = true := by
  have hS1 := hW.structD hA.struct
  have hV0 := VisitInv.init (hW.unmarked hA.unmarked) (hW.clean hA.clean)
  obtain ⟨rV, buf, hvis, hV⟩ := visitStarts_multi hS1.up starts [] r1 [] hV0
  rw [List.nil_append] at hV
  obtain ⟨hI, hE, hdirty⟩ := loopInvM_start hS1 (hW.settled hA) hV
  have halive : ∀ s ∈ starts, r1.alive s = true := by
    intro s hs
    obtain ⟨ns, hns, _⟩ := hW.starts s hs
    rw [hW.alive_eq]; exact Root.alive_iff.2 ⟨ns, hns⟩
  refine ⟨rV, buf, hvis, hV.exact.1, fun i => ⟨hV.reach i, fun ⟨s, hs, hr⟩ => ?_⟩, hI, hE,
    hE.pureBound (hW.pureBound hB), ?_, hdirty⟩
  · exact hV.mem_of_reach hS1.nd hs (halive s hs) hr
  · rw [List.length_reverse, ← hW.frame.1, ← hV.frame.1]
    exact length_le_size_of_nodup hV.exact.1 fun i hi => by
      obtain ⟨n, hn, _⟩ := hV.exact.2 i hi
      exact Root.alive_iff.2 ⟨n, hn⟩

/-- the static hypothesis on the arena gives `LateOkC` for the schedule -/
theorem lateOkC_batch_start {r1 rM : Root} {starts buf : List Id} (hE : EvolvesD r1 rM [])
    (hreach : ∀ i, i ∈ buf → ∃ s ∈ starts, Reach r1 s i) (hL : NoLateEdgeBatchC r1 starts) :
    LateOkC rM buf.reverse := by
  intro c hc d hd hdm hcd
  rw [hE.allReadsOf_eq] at hd
  rw [hE.isComp_eq] at hcd
  rw [hE.depsOf_eq (by simp [runIds])]
  exact hL c d (hreach c (List.mem_reverse.1 hc)) hd (hreach d (List.mem_reverse.1 hdm)) hcd

/-- the same for the `LateOk` / `NoLateEdgeBatch` pair -/
theorem lateOk_batch_start {r1 rM : Root} {starts buf : List Id} (hE : EvolvesD r1 rM [])
    (hreach : ∀ i, i ∈ buf → ∃ s ∈ starts, Reach r1 s i) (hL : NoLateEdgeBatch r1 starts) :
    LateOk rM buf.reverse := by
  intro c hc d hd hdm
  rw [hE.allReadsOf_eq] at hd
  rw [hE.depsOf_eq (by simp [runIds])]
  exact hL c d (hreach c (List.mem_reverse.1 hc)) hd (hreach d (List.mem_reverse.1 hdm))

/-- from the end of the second loop to the result -/
theorem C10_batch_finish {r0 r1 : Root} {starts : List Id} {rV : Root} {buf : List Id} {f : Nat}
    {r' : Root} {ran : List Event} (hA : DynArena r0) (hW : WrittenFrom r0 r1 starts)
    (hvis : visitStarts r1 [] starts = .ok (rV, buf)) (hN : buf.Nodup)
    (hreach : ∀ i, i ∈ buf → ∃ s ∈ starts, Reach r1 s i)
    (hE0 : EvolvesD r1 (resetMarks rV starts) [])
    (hrun : propagateLoop f (resetMarks rV starts) buf.reverse = .ok r') (hI' : LoopInvM r' [])
    (hE : EvolvesD (resetMarks rV starts) r' ran) (hsub : (runIds ran).Sublist buf.reverse)
    (hdirty : ∀ j, DepOfStart r1 starts j → ∃ n, (resetMarks rV starts).get? j = some n ∧ n.dirty = true)
    (hdr : ∀ j m, (resetMarks rV starts).get? j = some m → m.dirty = true → j ∈ runIds ran) :
    propagateNodeUpdates (f + 1) r1 starts = .ok r' ∧ DynArena r' ∧ EvolvesD r1 r' ran ∧
      (runIds ran).Nodup ∧ (∀ j ∈ runIds ran, ∃ s ∈ starts, Reach r1 s j) ∧
      ∀ s ∈ starts, ∀ ns, r1.get? s = some ns → ∀ j ∈ ns.dependents, j ∈ runIds ran := by
  obtain ⟨f1, f2, f3, f4, f5, f6, f7, f8⟩ := hW.frame
  have hEall : EvolvesD r1 r' ran := by simpa using hE0.trans hE
  refine ⟨by simp [propagateNodeUpdates, hvis, hrun], ?_, hEall, hsub.nodup (nodup_reverse hN),
    fun j hj => hreach j (List.mem_reverse.1 (hsub.subset hj)), fun s hs ns hns j hj => ?_⟩
  rotate_left
  · obtain ⟨n, hn, hd⟩ := hdirty j ⟨s, hs, ns, hns, hj⟩
    exact hdr j n hn hd
  obtain ⟨_, e2, _, _, e5, e6, _⟩ := hEall.frame
  have hclean : ∀ j m, r'.get? j = some m → m.dirty = false := by
    intro j m hm
    cases hd : m.dirty with
    | false => rfl
    | true => exact absurd (hI'.dirty j m hm hd).1 (by simp)
  refine ⟨hI'.struct, fun j m hm => hI'.marks j m hm (by simp), hclean,
    by rw [e2, f2, hA.tracker], by rw [e6, f6, hA.batching], by rw [e5, f5, hA.queue], fun j => ?_,
    fun j m hm => (hI'.cons j m hm (hclean j m hm)).2⟩
  cases hm : r'.get? j with
  | none => unfold locallyConsistent; rw [hm]; trivial
  | some m => exact (hI'.cons j m hm (hclean j m hm)).1

/-! ### 4. the theorems, relational form -/

/-- **C10 (ii), relational form, weakest hypothesis** (`NoLateEdgeBatchRunC`).  `r0` is a `DynArena`
(the state before the batch), `r1` is `r0` with the values of callback-less nodes listed in `starts`
overwritten (`WrittenFrom`: the state in which the closure of the outermost batch returned, flag
cleared and queue emptied).  If along the run of the second loop no computation reads a computation
that is still pending, then `propagateNodeUpdates fuel r1 starts` (any fuel `≥ size + B + 6`, `B` a
bound on the body costs) does not panic and ends in a `DynArena` again: every live computation is
locally consistent with the final values, nothing is dirty, all marks are `none`, every dependency
list is the list of tracked reads of a run on the final values.  Moreover (`EvolvesD`) liveness,
callbacks, children, cleanups, parents are as in `r1`, callback-less nodes keep the written values,
the trace grew by `ran`, which consists of `run` events only, at most one per node (`Nodup`: each
computation ran at most once for the whole batch), all of nodes reachable from a written node; a
node that did not run kept value and dependency list; and every direct dependent of a written node
did run (hence exactly once). -/
theorem C10_batch_end_written_runC {r0 r1 : Root} {starts : List Id} {B fuel : Nat} (hA : DynArena r0)
    (hW : WrittenFrom r0 r1 starts) (hB : PureBound r0 B) (hf : r0.nodes.size + B + 6 ≤ fuel)
    (hL : NoLateEdgeBatchRunC fuel r1 starts) :
    ∃ r' ran, propagateNodeUpdates fuel r1 starts = .ok r' ∧ DynArena r' ∧ EvolvesD r1 r' ran ∧
      (runIds ran).Nodup ∧ (∀ j ∈ runIds ran, ∃ s ∈ starts, Reach r1 s j) ∧
      ∀ s ∈ starts, ∀ ns, r1.get? s = some ns → ∀ j ∈ ns.dependents, j ∈ runIds ran := by
  obtain ⟨rV, buf, hvis, hN, hreach, hI, hE0, hBM, hlen, hdirty⟩ := C10_batch_schedule hA hW hB
  obtain ⟨f, rfl⟩ : ∃ f, fuel = f + 1 := ⟨fuel - 1, by omega⟩
  simp only [NoLateEdgeBatchRunC, hvis] at hL
  obtain ⟨r', ran, hrun, hI', hE, hsub, hdr⟩ := propagateLoop_multi_run buf.reverse _ f B hI hL hBM (by omega)
  exact ⟨r', ran, C10_batch_finish hA hW hvis hN (fun i => (hreach i).1) hE0 hrun hI' hE hsub hdirty hdr⟩

/-- the static hypothesis implies the trace hypothesis (`C` forms) -/
theorem noLateEdgeBatchC_runC {r0 r1 : Root} {starts : List Id} {B fuel : Nat} (hA : DynArena r0)
    (hW : WrittenFrom r0 r1 starts) (hB : PureBound r0 B) (hf : r0.nodes.size + B + 6 ≤ fuel)
    (hL : NoLateEdgeBatchC r1 starts) : NoLateEdgeBatchRunC fuel r1 starts := by
  obtain ⟨rV, buf, hvis, hN, hreach, hI, hE0, hBM, hlen, hdirty⟩ := C10_batch_schedule hA hW hB
  obtain ⟨f, rfl⟩ : ∃ f, fuel = f + 1 := ⟨fuel - 1, by omega⟩
  simp only [NoLateEdgeBatchRunC, hvis]
  exact lateOk_noLateRun_multi buf.reverse _ f B hI
    (lateOkC_batch_start hE0 (fun i => (hreach i).1) hL) hBM (by omega)

/-- **C10 (ii), relational form, trace hypothesis** -/
theorem C10_batch_end_written_run {r0 r1 : Root} {starts : List Id} {B fuel : Nat} (hA : DynArena r0)
    (hW : WrittenFrom r0 r1 starts) (hB : PureBound r0 B) (hf : r0.nodes.size + B + 6 ≤ fuel)
    (hL : NoLateEdgeBatchRun fuel r1 starts) :
    ∃ r' ran, propagateNodeUpdates fuel r1 starts = .ok r' ∧ DynArena r' ∧ EvolvesD r1 r' ran ∧
      (runIds ran).Nodup ∧ (∀ j ∈ runIds ran, ∃ s ∈ starts, Reach r1 s j) ∧
      ∀ s ∈ starts, ∀ ns, r1.get? s = some ns → ∀ j ∈ ns.dependents, j ∈ runIds ran :=
  C10_batch_end_written_runC hA hW hB hf hL.toC

/-- **C10 (ii), relational form, static hypothesis on computations** -/
theorem C10_batch_end_written_sharp {r0 r1 : Root} {starts : List Id} {B fuel : Nat} (hA : DynArena r0)
    (hW : WrittenFrom r0 r1 starts) (hB : PureBound r0 B) (hf : r0.nodes.size + B + 6 ≤ fuel)
    (hL : NoLateEdgeBatchC r1 starts) :
    ∃ r' ran, propagateNodeUpdates fuel r1 starts = .ok r' ∧ DynArena r' ∧ EvolvesD r1 r' ran ∧
      (runIds ran).Nodup ∧ (∀ j ∈ runIds ran, ∃ s ∈ starts, Reach r1 s j) ∧
      ∀ s ∈ starts, ∀ ns, r1.get? s = some ns → ∀ j ∈ ns.dependents, j ∈ runIds ran :=
  C10_batch_end_written_runC hA hW hB hf (noLateEdgeBatchC_runC hA hW hB hf hL)

/-- **C10 (ii), relational form, static hypothesis** -/
theorem C10_batch_end_written {r0 r1 : Root} {starts : List Id} {B fuel : Nat} (hA : DynArena r0)
    (hW : WrittenFrom r0 r1 starts) (hB : PureBound r0 B) (hf : r0.nodes.size + B + 6 ≤ fuel)
    (hL : NoLateEdgeBatch r1 starts) :
    ∃ r' ran, propagateNodeUpdates fuel r1 starts = .ok r' ∧ DynArena r' ∧ EvolvesD r1 r' ran ∧
      (runIds ran).Nodup ∧ (∀ j ∈ runIds ran, ∃ s ∈ starts, Reach r1 s j) ∧
      ∀ s ∈ starts, ∀ ns, r1.get? s = some ns → ∀ j ∈ ns.dependents, j ∈ runIds ran :=
  C10_batch_end_written_sharp hA hW hB hf hL.toC

/-! ### 5. the theorems for a list of writes -/

/-- **C10 (ii): the state at the end of the outermost batch is consistent, each affected computation
ran at most once, each direct dependent of a written signal exactly once** (static hypothesis).
`r0` is a `DynArena`, `ws` a list of writes `(id, value)` to live callback-less nodes (signals; they
hold a value because `r0` is a `DynArena`), `applyWrites r0 ws` the arena after these writes
(= `set_silent` for each, in order), `starts = ws.map Prod.fst` the queue of the batch (duplicates
allowed, write order).  Conclusion: as in `C10_batch_end_written_runC`. -/
theorem C10_batch_end_consistent {r0 : Root} {ws : List (Id × Int)} {B fuel : Nat} (hA : DynArena r0)
    (hws : ∀ p ∈ ws, ∃ ns, r0.get? p.1 = some ns ∧ ns.callback = none)
    (hB : PureBound r0 B) (hf : r0.nodes.size + B + 6 ≤ fuel)
    (hL : NoLateEdgeBatch (applyWrites r0 ws) (ws.map Prod.fst)) :
    setSilentAll r0 ws = .ok (applyWrites r0 ws) ∧
    ∃ r' ran, propagateNodeUpdates fuel (applyWrites r0 ws) (ws.map Prod.fst) = .ok r' ∧ DynArena r' ∧
      EvolvesD (applyWrites r0 ws) r' ran ∧ (runIds ran).Nodup ∧
      (∀ j ∈ runIds ran, ∃ s ∈ ws.map Prod.fst, Reach (applyWrites r0 ws) s j) ∧
      ∀ s ∈ ws.map Prod.fst, ∀ ns, (applyWrites r0 ws).get? s = some ns →
        ∀ j ∈ ns.dependents, j ∈ runIds ran := by
  obtain ⟨hW, hss⟩ := applyWrites_spec ws r0 (fun j n hn => (hA.struct.node j n hn).value) hws
  exact ⟨hss, C10_batch_end_written hA hW hB hf hL⟩

/-- the same under the static hypothesis on computations only -/
theorem C10_batch_end_consistent_sharp {r0 : Root} {ws : List (Id × Int)} {B fuel : Nat} (hA : DynArena r0)
    (hws : ∀ p ∈ ws, ∃ ns, r0.get? p.1 = some ns ∧ ns.callback = none)
    (hB : PureBound r0 B) (hf : r0.nodes.size + B + 6 ≤ fuel)
    (hL : NoLateEdgeBatchC (applyWrites r0 ws) (ws.map Prod.fst)) :
    setSilentAll r0 ws = .ok (applyWrites r0 ws) ∧
    ∃ r' ran, propagateNodeUpdates fuel (applyWrites r0 ws) (ws.map Prod.fst) = .ok r' ∧ DynArena r' ∧
      EvolvesD (applyWrites r0 ws) r' ran ∧ (runIds ran).Nodup ∧
      (∀ j ∈ runIds ran, ∃ s ∈ ws.map Prod.fst, Reach (applyWrites r0 ws) s j) ∧
      ∀ s ∈ ws.map Prod.fst, ∀ ns, (applyWrites r0 ws).get? s = some ns →
        ∀ j ∈ ns.dependents, j ∈ runIds ran := by
  obtain ⟨hW, hss⟩ := applyWrites_spec ws r0 (fun j n hn => (hA.struct.node j n hn).value) hws
  exact ⟨hss, C10_batch_end_written_sharp hA hW hB hf hL⟩

/-- the same under the trace hypothesis -/
theorem C10_batch_end_consistent_run {r0 : Root} {ws : List (Id × Int)} {B fuel : Nat} (hA : DynArena r0)
    (hws : ∀ p ∈ ws, ∃ ns, r0.get? p.1 = some ns ∧ ns.callback = none)
    (hB : PureBound r0 B) (hf : r0.nodes.size + B + 6 ≤ fuel)
    (hL : NoLateEdgeBatchRun fuel (applyWrites r0 ws) (ws.map Prod.fst)) :
    setSilentAll r0 ws = .ok (applyWrites r0 ws) ∧
    ∃ r' ran, propagateNodeUpdates fuel (applyWrites r0 ws) (ws.map Prod.fst) = .ok r' ∧ DynArena r' ∧
      EvolvesD (applyWrites r0 ws) r' ran ∧ (runIds ran).Nodup ∧
      (∀ j ∈ runIds ran, ∃ s ∈ ws.map Prod.fst, Reach (applyWrites r0 ws) s j) ∧
      ∀ s ∈ ws.map Prod.fst, ∀ ns, (applyWrites r0 ws).get? s = some ns →
        ∀ j ∈ ns.dependents, j ∈ runIds ran := by
  obtain ⟨hW, hss⟩ := applyWrites_spec ws r0 (fun j n hn => (hA.struct.node j n hn).value) hws
  exact ⟨hss, C10_batch_end_written_run hA hW hB hf hL⟩

/-- the same under the weakest hypothesis -/
theorem C10_batch_end_consistent_runC {r0 : Root} {ws : List (Id × Int)} {B fuel : Nat} (hA : DynArena r0)
    (hws : ∀ p ∈ ws, ∃ ns, r0.get? p.1 = some ns ∧ ns.callback = none)
    (hB : PureBound r0 B) (hf : r0.nodes.size + B + 6 ≤ fuel)
    (hL : NoLateEdgeBatchRunC fuel (applyWrites r0 ws) (ws.map Prod.fst)) :
    setSilentAll r0 ws = .ok (applyWrites r0 ws) ∧
    ∃ r' ran, propagateNodeUpdates fuel (applyWrites r0 ws) (ws.map Prod.fst) = .ok r' ∧ DynArena r' ∧
      EvolvesD (applyWrites r0 ws) r' ran ∧ (runIds ran).Nodup ∧
      (∀ j ∈ runIds ran, ∃ s ∈ ws.map Prod.fst, Reach (applyWrites r0 ws) s j) ∧
      ∀ s ∈ ws.map Prod.fst, ∀ ns, (applyWrites r0 ws).get? s = some ns →
        ∀ j ∈ ns.dependents, j ∈ runIds ran := by
  obtain ⟨hW, hss⟩ := applyWrites_spec ws r0 (fun j n hn => (hA.struct.node j n hn).value) hws
  exact ⟨hss, C10_batch_end_written_runC hA hW hB hf hL⟩

/-- a single write: `C01_dynamic_set` is the instance `ws = [(s, v)]` (statement of
`C01_dynamic_set` with `propagateNodeUpdates … [s]` in place of `propagateUpdates … s`) -/
theorem C10_batch_single {r : Root} {s : Id} {ns : Node} {B fuel : Nat} (hA : DynArena r)
    (hn : r.get? s = some ns) (hc : ns.callback = none) (hB : PureBound r B)
    (hf : r.nodes.size + B + 6 ≤ fuel) (v : Int)
    (hL : NoLateEdgeStatic (r.setNode s { ns with value := some v }) s) :
    ∃ r' ran, propagateNodeUpdates fuel (r.setNode s { ns with value := some v }) [s] = .ok r' ∧
      DynArena r' ∧ EvolvesD (r.setNode s { ns with value := some v }) r' ran ∧ (runIds ran).Nodup := by
  have h := C10_batch_end_consistent (ws := [(s, v)]) hA
    (fun p hp => by simp only [List.mem_singleton] at hp; subst hp; exact ⟨ns, hn, hc⟩) hB hf
    (by simpa [applyWrites, hn, noLateEdgeBatch_single] using hL)
  obtain ⟨_, r', ran, h1, h2, h3, h4, _, _⟩ := h
  simp only [applyWrites, hn, List.map_cons, List.map_nil] at h1 h3
  exact ⟨r', ran, h1, h2, h3, h4⟩

/-! ### 6. composition with `C10_outermost_batch` -/

/-- the state in which the closure of an outermost batch returned, with the flag cleared and the
queue emptied (what `end_batch` hands to `propagate_node_updates`), is `WrittenFrom` the state
before the batch, PROVIDED every signal written with `set_silent` in the body is also written with
`set` (`hsil`; without it a silently changed value would leave its dependents stale) -/
theorem batch_writtenFrom {fuel : Nat} {r : Root} {c : Ctx} {b : Body} {r1 : Root} {c' : Ctx}
    (hA : DynArena r) (hs : SignalHandlesOK r c.env) (hw : WriteOnly b)
    (hsil : ∀ j ∈ silentOf c.env b, j ∈ writesOf c.env b)
    (h1 : execInner fuel { r with batching := true } c b = .ok (r1, c')) :
    WrittenFrom r { r1 with batching := false, queue := [] } (writesOf c.env b) := by
  obtain ⟨q, _, _, _⟩ := C10_batch_inner_quiet fuel { r with batching := true } c b r1 c' rfl hs hw h1
  obtain ⟨t1, t2⟩ := (batch_touched fuel { r with batching := true } c r1 c' rfl hs).2.1 b hw h1
  refine ⟨⟨q.size, ?_, q.current, q.rootNode, hA.queue.symm, hA.batching.symm, q.nextTag, q.trace⟩,
    q.dead, fun j n hn => ?_, fun s hs' => t2 s (.inl hs')⟩
  · exact (q.tracker_none hA.tracker).trans hA.tracker.symm
  · obtain ⟨n', hn', nq⟩ := q.node j n hn
    have hsome : n'.value.isSome = true := nq.hasValue.trans (hA.struct.node j n hn).value
    obtain ⟨v, hv⟩ := Option.isSome_iff_exists.1 hsome
    refine ⟨v, ?_, fun hne => ⟨?_, ?_⟩⟩
    · show r1.get? j = _
      rw [hn']
      obtain ⟨a1, a2, a3, a4, a5, a6, a7, a8, a9, _, _⟩ := nq
      cases n; cases n'; simp_all
    · apply Classical.byContradiction
      intro hc
      exact hne ((nq.derived hc).symm.trans hv)
    · rcases t1 j n n' hn hn' (by rw [hv]; exact fun e => hne e.symm) with h | h
      · exact h
      · exact hsil j h

/-- **C10 (ii) through the DSL statement `batch b`, weakest hypothesis.**  `r` is a `DynArena` (no
batch open), `b` a `WriteOnly` body (`set`, `set_silent`, `get`, `get_untracked`, nested `batch`, to
any depth) whose signal handles name callback-less nodes (`SignalHandlesOK`) and in which every
signal written with `set_silent` is also written with `set`.  If `batch b` runs without panic
(`hx`), with fuel `≥ size + B + 7`, and the arena in which the closure returned satisfies the
no-late-edge hypothesis w.r.t. the written signals, then: the closure ran quietly to a state `r1`
(`Quiet`: nothing reacted, `C10_outermost_batch`), the final state `r'` is the result of ONE
`propagate_node_updates` from the written signals on `r1` (flag cleared, queue emptied), `r'` is a
`DynArena` again, each computation ran at most once in the whole batch, only computations reachable
from a written signal ran, and every direct dependent of a written signal ran. -/
theorem C10_batch_consistent_at_end_runC {fuel B : Nat} {r : Root} {c : Ctx} {b : Body} {r' : Root} {c' : Ctx}
    (hA : DynArena r) (hs : SignalHandlesOK r c.env) (hw : WriteOnly b)
    (hsil : ∀ j ∈ silentOf c.env b, j ∈ writesOf c.env b)
    (hB : PureBound r B) (hf : r.nodes.size + B + 6 ≤ fuel)
    (hx : execStmt (fuel + 1) r c (.batch b) = .ok (r', c'))
    (hL : ∀ r1, execInner fuel { r with batching := true } c b = .ok (r1, c') →
      NoLateEdgeBatchRunC fuel { r1 with batching := false, queue := [] } (writesOf c.env b)) :
    ∃ r1 ran, execInner fuel { r with batching := true } c b = .ok (r1, c') ∧
      Quiet { r with batching := true } r1 ∧
      propagateNodeUpdates fuel { r1 with batching := false, queue := [] } (writesOf c.env b) = .ok r' ∧
      DynArena r' ∧ EvolvesD { r1 with batching := false, queue := [] } r' ran ∧ (runIds ran).Nodup ∧
      (∀ j ∈ runIds ran, ∃ s ∈ writesOf c.env b, Reach { r1 with batching := false, queue := [] } s j) ∧
      ∀ s ∈ writesOf c.env b, ∀ ns, r1.get? s = some ns → ∀ j ∈ ns.dependents, j ∈ runIds ran := by
  obtain ⟨r1, h1, q, _, _, u, hp⟩ := C10_outermost_batch fuel r c b r' c' hA.batching hs hw hx
  rw [u, hA.queue, List.nil_append] at hp
  have hW := batch_writtenFrom hA hs hw hsil h1
  obtain ⟨r'', ran, hp', hA', hE, hN, hR, hD⟩ := C10_batch_end_written_runC hA hW hB hf (hL r1 h1)
  rw [hp] at hp'; cases hp'
  exact ⟨r1, ran, h1, q, hp, hA', hE, hN, hR, hD⟩

/-- **C10 (ii) through the DSL statement `batch b`, static hypothesis** (see
`C10_batch_consistent_at_end_runC` for the reading) -/
theorem C10_batch_consistent_at_end {fuel B : Nat} {r : Root} {c : Ctx} {b : Body} {r' : Root} {c' : Ctx}
    (hA : DynArena r) (hs : SignalHandlesOK r c.env) (hw : WriteOnly b)
    (hsil : ∀ j ∈ silentOf c.env b, j ∈ writesOf c.env b)
    (hB : PureBound r B) (hf : r.nodes.size + B + 6 ≤ fuel)
    (hx : execStmt (fuel + 1) r c (.batch b) = .ok (r', c'))
    (hL : ∀ r1, execInner fuel { r with batching := true } c b = .ok (r1, c') →
      NoLateEdgeBatch { r1 with batching := false, queue := [] } (writesOf c.env b)) :
    ∃ r1 ran, execInner fuel { r with batching := true } c b = .ok (r1, c') ∧
      Quiet { r with batching := true } r1 ∧
      propagateNodeUpdates fuel { r1 with batching := false, queue := [] } (writesOf c.env b) = .ok r' ∧
      DynArena r' ∧ EvolvesD { r1 with batching := false, queue := [] } r' ran ∧ (runIds ran).Nodup ∧
      (∀ j ∈ runIds ran, ∃ s ∈ writesOf c.env b, Reach { r1 with batching := false, queue := [] } s j) ∧
      ∀ s ∈ writesOf c.env b, ∀ ns, r1.get? s = some ns → ∀ j ∈ ns.dependents, j ∈ runIds ran :=
  C10_batch_consistent_at_end_runC hA hs hw hsil hB hf hx fun r1 h1 =>
    noLateEdgeBatchC_runC hA (batch_writtenFrom hA hs hw hsil h1) hB hf (hL r1 h1).toC

/-- the same under the static hypothesis on computations only -/
theorem C10_batch_consistent_at_end_sharp {fuel B : Nat} {r : Root} {c : Ctx} {b : Body} {r' : Root} {c' : Ctx}
    (hA : DynArena r) (hs : SignalHandlesOK r c.env) (hw : WriteOnly b)
    (hsil : ∀ j ∈ silentOf c.env b, j ∈ writesOf c.env b)
    (hB : PureBound r B) (hf : r.nodes.size + B + 6 ≤ fuel)
    (hx : execStmt (fuel + 1) r c (.batch b) = .ok (r', c'))
    (hL : ∀ r1, execInner fuel { r with batching := true } c b = .ok (r1, c') →
      NoLateEdgeBatchC { r1 with batching := false, queue := [] } (writesOf c.env b)) :
    ∃ r1 ran, execInner fuel { r with batching := true } c b = .ok (r1, c') ∧
      Quiet { r with batching := true } r1 ∧
      propagateNodeUpdates fuel { r1 with batching := false, queue := [] } (writesOf c.env b) = .ok r' ∧
      DynArena r' ∧ EvolvesD { r1 with batching := false, queue := [] } r' ran ∧ (runIds ran).Nodup ∧
      (∀ j ∈ runIds ran, ∃ s ∈ writesOf c.env b, Reach { r1 with batching := false, queue := [] } s j) ∧
      ∀ s ∈ writesOf c.env b, ∀ ns, r1.get? s = some ns → ∀ j ∈ ns.dependents, j ∈ runIds ran :=
  C10_batch_consistent_at_end_runC hA hs hw hsil hB hf hx fun r1 h1 =>
    noLateEdgeBatchC_runC hA (batch_writtenFrom hA hs hw hsil h1) hB hf (hL r1 h1)

/-- the same under the trace hypothesis -/
theorem C10_batch_consistent_at_end_run {fuel B : Nat} {r : Root} {c : Ctx} {b : Body} {r' : Root} {c' : Ctx}
    (hA : DynArena r) (hs : SignalHandlesOK r c.env) (hw : WriteOnly b)
    (hsil : ∀ j ∈ silentOf c.env b, j ∈ writesOf c.env b)
    (hB : PureBound r B) (hf : r.nodes.size + B + 6 ≤ fuel)
    (hx : execStmt (fuel + 1) r c (.batch b) = .ok (r', c'))
    (hL : ∀ r1, execInner fuel { r with batching := true } c b = .ok (r1, c') →
      NoLateEdgeBatchRun fuel { r1 with batching := false, queue := [] } (writesOf c.env b)) :
    ∃ r1 ran, execInner fuel { r with batching := true } c b = .ok (r1, c') ∧
      Quiet { r with batching := true } r1 ∧
      propagateNodeUpdates fuel { r1 with batching := false, queue := [] } (writesOf c.env b) = .ok r' ∧
      DynArena r' ∧ EvolvesD { r1 with batching := false, queue := [] } r' ran ∧ (runIds ran).Nodup ∧
      (∀ j ∈ runIds ran, ∃ s ∈ writesOf c.env b, Reach { r1 with batching := false, queue := [] } s j) ∧
      ∀ s ∈ writesOf c.env b, ∀ ns, r1.get? s = some ns → ∀ j ∈ ns.dependents, j ∈ runIds ran :=
  C10_batch_consistent_at_end_runC hA hs hw hsil hB hf hx fun r1 h1 => (hL r1 h1).toC

/-! ### 7. Boolean checkers for the hypotheses -/

/-- `NoLateEdgeBatch`, computed with the model's own first loop: the buffer is the set of nodes
reachable from a start node -/
def noLateEdgeBatchB (r : Root) (starts : List Id) : Bool :=
  match visitStarts r [] starts with
  | .ok (_, buf) =>
    buf.all fun c => (allReadsOf r c).all fun d => !buf.contains d || (depsOf r c).contains d
  | .error _ => false

/-- `NoLateEdgeBatchC`, likewise -/
def noLateEdgeBatchCB (r : Root) (starts : List Id) : Bool :=
  match visitStarts r [] starts with
  | .ok (_, buf) =>
    buf.all fun c => (allReadsOf r c).all fun d =>
      !buf.contains d || !isComp r d || (depsOf r c).contains d
  | .error _ => false

/-- the checkers decide the static hypotheses -/
theorem noLateEdgeBatchB_iff {r0 r1 : Root} {starts : List Id} (hA : DynArena r0)
    (hW : WrittenFrom r0 r1 starts) :
    (noLateEdgeBatchB r1 starts = true ↔ NoLateEdgeBatch r1 starts) ∧
    (noLateEdgeBatchCB r1 starts = true ↔ NoLateEdgeBatchC r1 starts) := by
  obtain ⟨B, hB⟩ := exists_pureBound r0
  obtain ⟨rV, buf, hvis, _, hreach, _⟩ := C10_batch_schedule hA hW hB
  unfold noLateEdgeBatchB NoLateEdgeBatch noLateEdgeBatchCB NoLateEdgeBatchC
  rw [hvis]
  simp only [List.all_eq_true, Bool.or_eq_true, Bool.not_eq_true', List.contains_eq_mem,
    decide_eq_false_iff_not, decide_eq_true_eq]
  refine ⟨⟨?_, ?_⟩, ⟨?_, ?_⟩⟩
  · intro h c d hc hd hdr
    rcases h c ((hreach c).2 hc) d hd with h | h
    · exact absurd ((hreach d).2 hdr) h
    · exact h
  · intro h c hc d hd
    by_cases hdb : d ∈ buf
    · exact .inr (h c d ((hreach c).1 hc) hd ((hreach d).1 hdb))
    · exact .inl hdb
  · intro h c d hc hd hdr hcd
    rcases h c ((hreach c).2 hc) d hd with (h | h) | h
    · exact absurd ((hreach d).2 hdr) h
    · rw [hcd] at h; cases h
    · exact h
  · intro h c hc d hd
    by_cases hdb : d ∈ buf
    · cases hcd : isComp r1 d with
      | false => exact .inl (.inr rfl)
      | true => exact .inr (h c d ((hreach c).1 hc) hd ((hreach d).1 hdb) hcd)
    · exact .inl (.inl hdb)

/-- Boolean mirror of `NoLateEdgeBatchRun` (`noLateRunB`: `Props/C01Dynamic.lean`) -/
def noLateEdgeBatchRunB : Nat → Root → List Id → Bool
  | fuel + 1, r, starts =>
    match visitStarts r [] starts with
    | .ok (rV, buf) => noLateRunB fuel (resetMarks rV starts) buf.reverse
    | .error _ => true
  | 0, _, _ => true

theorem noLateEdgeBatchRunB_iff (fuel : Nat) (r : Root) (starts : List Id) :
    noLateEdgeBatchRunB fuel r starts = true ↔ NoLateEdgeBatchRun fuel r starts := by
  unfold noLateEdgeBatchRunB NoLateEdgeBatchRun
  split
  · split
    · exact noLateRunB_iff _ _ _
    · simp
  · simp

/-- the hypothesis of `C10_batch_end_consistent` on the writes -/
def writesOkB (r : Root) (ws : List (Id × Int)) : Bool :=
  ws.all fun p =>
    match r.get? p.1 with
    | some ns => ns.callback.isNone
    | none => false

theorem writesOkB_sound {r : Root} {ws : List (Id × Int)} (h : writesOkB r ws = true) :
    ∀ p ∈ ws, ∃ ns, r.get? p.1 = some ns ∧ ns.callback = none := by
  intro p hp
  simp only [writesOkB, List.all_eq_true] at h
  have := h p hp
  split at this
  · rename_i ns hns; exact ⟨ns, hns, by simpa using this⟩
  · cases this

/-! ### 8. non-vacuity -/

/-- Boolean form of: `prog` runs; the result `r` is a `DynArena` with body costs `≤ 10` whose signal
handles are fine; `body` contains no `set_silent` and its `set`s write `writes`; the arena in which
the closure of `batch body` returns satisfies `NoLateEdgeBatchC` w.r.t. `writes`, and satisfies
`NoLateEdgeBatch` iff `static`, and `NoLateEdgeBatchRun` iff `trace`; `batch body` runs, and the
computations it runs (node, result) are `runs` -/
def batchDemoCheck (prog : List Stmt) (body : Body) (writes : List Id) (static trace : Bool)
    (runs : List (Id × Int)) : Bool :=
  match runOps 60 prog Root.init [] with
  | .ok (r, env) =>
    dynArenaB r && pureBoundB r 10 && decide (r.nodes.size ≤ 40) && signalHandlesOK r env &&
    decide (silentOf env body = []) && decide (writesOf env body = writes) &&
    (match execInner 59 { r with batching := true } ⟨env, 0, []⟩ body with
     | .ok (r1, _) =>
       noLateEdgeBatchCB { r1 with batching := false, queue := [] } writes &&
       (noLateEdgeBatchB { r1 with batching := false, queue := [] } writes == static) &&
       (noLateEdgeBatchRunB 59 { r1 with batching := false, queue := [] } writes == trace)
     | .error _ => false) &&
    (match execStmt 60 r ⟨env, 0, []⟩ (.batch body) with
     | .ok (r', _) => runsOf r' == runsOf r ++ runs
     | .error _ => false)
  | .error _ => false

/-- what a successful `batchDemoCheck` means: all hypotheses of `C10_batch_consistent_at_end_sharp`
hold, hence (by the theorem, not by running the model) the batch ends in a `DynArena`, in which each
computation ran at most once; and the computations that ran are `runs` -/
theorem batchDemoCheck_sound {prog : List Stmt} {body : Body} {writes : List Id} {static trace : Bool}
    {runs : List (Id × Int)} (hw : WriteOnly body)
    (h : batchDemoCheck prog body writes static trace runs = true) :
    ∃ r env r' c', runOps 60 prog Root.init [] = .ok (r, env) ∧ DynArena r ∧ PureBound r 10 ∧
      SignalHandlesOK r env ∧ writesOf env body = writes ∧ silentOf env body = [] ∧
      execStmt (59 + 1) r ⟨env, 0, []⟩ (.batch body) = .ok (r', c') ∧
      (∀ r1, execInner 59 { r with batching := true } ⟨env, 0, []⟩ body = .ok (r1, c') →
        NoLateEdgeBatchC { r1 with batching := false, queue := [] } (writesOf env body) ∧
        (NoLateEdgeBatch { r1 with batching := false, queue := [] } (writesOf env body) ↔ static = true) ∧
        (NoLateEdgeBatchRun 59 { r1 with batching := false, queue := [] } (writesOf env body) ↔
          trace = true)) ∧
      DynArena r' ∧ runsOf r' = runsOf r ++ runs ∧
      ∃ ran, r'.trace = r.trace ++ ran ∧ (runIds ran).Nodup := by
  unfold batchDemoCheck at h
  split at h
  · rename_i r env hr
    simp only [Bool.and_eq_true, decide_eq_true_eq] at h
    obtain ⟨⟨⟨⟨⟨⟨⟨hA, hB⟩, hsz⟩, hs⟩, hsil⟩, hwr⟩, h7⟩, h8⟩ := h
    have hA' := dynArenaB_sound hA
    have hB' := pureBoundB_sound hB
    have hs' : SignalHandlesOK r (Ctx.env ⟨env, 0, []⟩) := SignalHandlesOK.of_check hs
    split at h8
    · rename_i r' c' hx
      have hx' : execStmt (59 + 1) r ⟨env, 0, []⟩ (.batch body) = .ok (r', c') := hx
      have hsil' : ∀ j ∈ silentOf (Ctx.env ⟨env, 0, []⟩) body, j ∈ writesOf (Ctx.env ⟨env, 0, []⟩) body := by
        intro j hj; rw [show silentOf (Ctx.env ⟨env, 0, []⟩) body = [] from hsil] at hj; cases hj
      have hL : ∀ r1, execInner 59 { r with batching := true } ⟨env, 0, []⟩ body = .ok (r1, c') →
          NoLateEdgeBatchC { r1 with batching := false, queue := [] } (writesOf env body) ∧
          (NoLateEdgeBatch { r1 with batching := false, queue := [] } (writesOf env body) ↔ static = true) ∧
          (NoLateEdgeBatchRun 59 { r1 with batching := false, queue := [] } (writesOf env body) ↔
            trace = true) := by
        intro r1 h1
        rw [h1] at h7
        simp only [Bool.and_eq_true, beq_iff_eq] at h7
        rw [hwr]
        have hW := batch_writtenFrom hA' hs' hw hsil' h1
        rw [show writesOf (Ctx.env ⟨env, 0, []⟩) body = writes from hwr] at hW
        obtain ⟨i1, i2⟩ := noLateEdgeBatchB_iff hA' hW
        exact ⟨i2.1 h7.1.1, by rw [← i1, h7.1.2], by rw [← noLateEdgeBatchRunB_iff, h7.2]⟩
      obtain ⟨r1, ran, _, q, _, hA'', hE, hN, _⟩ :=
        C10_batch_consistent_at_end_sharp (fuel := 59) (B := 10) hA' hs' hw hsil' hB' (by omega) hx'
          (fun r1 h1 => (hL r1 h1).1)
      refine ⟨r, env, r', c', hr, hA', hB', hs', hwr, hsil, hx', hL, hA'', by simpa using h8, ran, ?_, hN⟩
      rw [hE.trace]
      show r1.trace ++ ran = r.trace ++ ran
      rw [q.trace]
    · cases h8
  · cases h

/-- `a = signal 1` (node 1); `b = signal 2` (node 2); `m = memo(a, b)` (node 3); `effect(m)` (node 4) -/
def batchDemo : List Stmt :=
  [.signal 1, .signal 2, .memo (.cons (.read 0) (.cons (.read 1) .nil)), .effect (.cons (.read 2) .nil)]

/-- `a.set(5); b.set(7)` -/
def batchDemoBody : Body := .cons (.set 0 (.const 5)) (.cons (.set 1 (.const 7)) .nil)

theorem batchDemo_check :
    batchDemoCheck batchDemo batchDemoBody [1, 2] true true [(3, 26), (4, 27)] = true := by
  decide +kernel

/-- **non-vacuity 1**: two signals, a memo reading both, an effect reading the memo; `batch` writes
both signals.  All hypotheses of `C10_batch_consistent_at_end` (all four no-late-edge forms) hold;
the memo and the effect run exactly once each for the two writes. -/
theorem batchDemo_instance :
    ∃ r env r' c', runOps 60 batchDemo Root.init [] = .ok (r, env) ∧ DynArena r ∧ PureBound r 10 ∧
      SignalHandlesOK r env ∧ writesOf env batchDemoBody = [1, 2] ∧ silentOf env batchDemoBody = [] ∧
      execStmt (59 + 1) r ⟨env, 0, []⟩ (.batch batchDemoBody) = .ok (r', c') ∧
      (∀ r1, execInner 59 { r with batching := true } ⟨env, 0, []⟩ batchDemoBody = .ok (r1, c') →
        NoLateEdgeBatchC { r1 with batching := false, queue := [] } (writesOf env batchDemoBody) ∧
        (NoLateEdgeBatch { r1 with batching := false, queue := [] } (writesOf env batchDemoBody) ↔
          true = true) ∧
        (NoLateEdgeBatchRun 59 { r1 with batching := false, queue := [] } (writesOf env batchDemoBody) ↔
          true = true)) ∧
      DynArena r' ∧ runsOf r' = runsOf r ++ [(3, 26), (4, 27)] ∧
      ∃ ran, r'.trace = r.trace ++ ran ∧ (runIds ran).Nodup :=
  batchDemoCheck_sound (by unfold batchDemoBody; repeat constructor) batchDemo_check

/-- the hypotheses of `C10_batch_end_consistent` (the theorem for a list of writes) on `batchDemo`
with the writes `a := 5, b := 7` -/
def batchDemoWritesCheck : Bool :=
  match runOps 60 batchDemo Root.init [] with
  | .ok (r, _) =>
    dynArenaB r && pureBoundB r 10 && decide (r.nodes.size ≤ 40) && writesOkB r [(1, 5), (2, 7)] &&
    noLateEdgeBatchB (applyWrites r [(1, 5), (2, 7)]) [1, 2]
  | .error _ => false

theorem batchDemoWritesCheck_true : batchDemoWritesCheck = true := by decide +kernel

/-- **non-vacuity 1'**: the hypotheses of `C10_batch_end_consistent` hold on `batchDemo` with the
writes `[(1, 5), (2, 7)]`; hence its conclusion -/
theorem batchDemo_writes_instance :
    ∃ r env, runOps 60 batchDemo Root.init [] = .ok (r, env) ∧ DynArena r ∧ PureBound r 10 ∧
      (∀ p ∈ [((1 : Id), (5 : Int)), (2, 7)], ∃ ns, r.get? p.1 = some ns ∧ ns.callback = none) ∧
      NoLateEdgeBatch (applyWrites r [(1, 5), (2, 7)]) [1, 2] ∧
      ∃ r' ran, propagateNodeUpdates 59 (applyWrites r [(1, 5), (2, 7)]) [1, 2] = .ok r' ∧
        DynArena r' ∧ EvolvesD (applyWrites r [(1, 5), (2, 7)]) r' ran ∧ (runIds ran).Nodup := by
  have h := batchDemoWritesCheck_true
  unfold batchDemoWritesCheck at h
  split at h
  · rename_i r env hr
    simp only [Bool.and_eq_true, decide_eq_true_eq] at h
    obtain ⟨⟨⟨⟨hA, hB⟩, hsz⟩, hws⟩, hL⟩ := h
    have hA' := dynArenaB_sound hA
    have hB' := pureBoundB_sound hB
    have hws' := writesOkB_sound hws
    obtain ⟨hW, _⟩ := applyWrites_spec _ r (fun j n hn => (hA'.struct.node j n hn).value) hws'
    have hL' : NoLateEdgeBatch (applyWrites r [(1, 5), (2, 7)]) [1, 2] :=
      (noLateEdgeBatchB_iff hA' hW).1.1 hL
    obtain ⟨_, r', ran, h1, h2, h3, h4, _⟩ :=
      C10_batch_end_consistent (fuel := 59) hA' hws' hB' (by omega) hL'
    exact ⟨r, env, hr, hA', hB', hws', hL', r', ran, h1, h2, h3, h4⟩
  · cases h

/-- the hypothesis `hsil` of `C10_batch_consistent_at_end` is needed: `batch(|| a.set_silent(5))` on
`batchDemo` (a `WriteOnly` body) leaves the memo (node 3) stale -/
theorem batch_silent_counterexample :
    (match runOps 60 batchDemo Root.init [] with
     | .ok (r, env) =>
       dynArenaB r && signalHandlesOK r env &&
       (match execStmt 60 r ⟨env, 0, []⟩ (.batch (.cons (.setSilent 0 (.const 5)) .nil)) with
        | .ok (r', _) => !decide (locallyConsistent r' 3)
        | .error _ => false)
     | .error _ => false) = true := by decide +kernel

/-- `s = signal 1` (node 1); `t = signal 5` (node 2); `c = memo(if s > 0 { } else { t })` (node 3);
`effect(c)` (node 4) -/
def batchDemo2 : List Stmt :=
  [.signal 1, .signal 5, .memo (.cons (.ifpos 0 .nil (.cons (.read 1) .nil)) .nil),
   .effect (.cons (.read 2) .nil)]

/-- `t.set(9); batch(|| { s.set(0); t.set(8) })`: a nested batch, `t` written twice -/
def batchDemo2Body : Body :=
  .cons (.set 1 (.const 9)) (.cons (.batch (.cons (.set 0 (.const 0)) (.cons (.set 1 (.const 8)) .nil))) .nil)

theorem batchDemo2_check :
    batchDemoCheck batchDemo2 batchDemo2Body [2, 1, 2] false false [(3, 12), (4, 13)] = true := by
  decide +kernel

/-- **non-vacuity 2 / strictness**: a nested batch that writes `t` twice and flips the branch of `c`,
which then starts reading the written signal `t` — a pending node that is not one of its
dependencies.  The hypotheses `NoLateEdgeBatch` and `NoLateEdgeBatchRun` FAIL (they also forbid late
reads of written signals), `NoLateEdgeBatchC` holds, `C10_batch_consistent_at_end_sharp` applies:
the batch ends in a `DynArena`, `c` and the effect ran once each. -/
theorem batchDemo2_instance :
    ∃ r env r' c', runOps 60 batchDemo2 Root.init [] = .ok (r, env) ∧ DynArena r ∧ PureBound r 10 ∧
      SignalHandlesOK r env ∧ writesOf env batchDemo2Body = [2, 1, 2] ∧ silentOf env batchDemo2Body = [] ∧
      execStmt (59 + 1) r ⟨env, 0, []⟩ (.batch batchDemo2Body) = .ok (r', c') ∧
      (∀ r1, execInner 59 { r with batching := true } ⟨env, 0, []⟩ batchDemo2Body = .ok (r1, c') →
        NoLateEdgeBatchC { r1 with batching := false, queue := [] } (writesOf env batchDemo2Body) ∧
        (NoLateEdgeBatch { r1 with batching := false, queue := [] } (writesOf env batchDemo2Body) ↔
          false = true) ∧
        (NoLateEdgeBatchRun 59 { r1 with batching := false, queue := [] } (writesOf env batchDemo2Body) ↔
          false = true)) ∧
      DynArena r' ∧ runsOf r' = runsOf r ++ [(3, 12), (4, 13)] ∧
      ∃ ran, r'.trace = r.trace ++ ran ∧ (runIds ran).Nodup :=
  batchDemoCheck_sound (by unfold batchDemo2Body; repeat constructor) batchDemo2_check

/-
`#print axioms` (Lean 4.33.0) of `C10_batch_end_written_runC`, `C10_batch_end_written_run`,
`C10_batch_end_written_sharp`, `C10_batch_end_written`, `C10_batch_end_consistent`,
`C10_batch_end_consistent_sharp`, `C10_batch_end_consistent_run`, `C10_batch_end_consistent_runC`,
`C10_batch_single`, `C10_batch_consistent_at_end`, `C10_batch_consistent_at_end_sharp`,
`C10_batch_consistent_at_end_run`, `C10_batch_consistent_at_end_runC`, `noLateEdgeBatchB_iff`,
`batchDemo_instance`, `batchDemo_writes_instance`, `batchDemo2_instance`:
[propext, Classical.choice, Quot.sound].
-/

end SycVerif.Reactive
