/-
C02 — propagation is glitch-free: at most one, consistent run per change.
What is proved here is about the SCHEDULE that `propagate_node_updates` fixes before any user code
runs (`Root::dfs` over the `dependents` lists), for every arena and every start node:
helper lemmas in `Lemmas/Dfs.lean`.
-/
import SycVerif.Lemmas.Dfs
namespace SycVerif.Reactive

/-- (ii) at most once: the buffer the loop iterates over never lists a node twice — so
`run_node_update` is attempted at most once per node and write. -/
theorem C02_schedule_no_duplicates {fuel : Nat} {r r' : Root} {buf buf' : List Id} {cur : Id}
    (hN : buf.Nodup) (hB : ∀ i ∈ buf, PermIn r i) (h : dfs fuel r buf cur = some (r', buf')) :
    buf'.Nodup ∧ ∀ i ∈ buf', PermIn r' i :=
  dfs_nodup hN hB h

/-- (i) order: in the order in which the loop visits nodes (the reversed buffer) every scheduled
node comes before each of its live dependents that existed when the order was fixed — a
computation runs only after everything it was subscribed to. (Edges that appear LATER, while the
propagation runs, are not covered: that is the known finding D1.) -/
theorem C02_schedule_topological {fuel : Nat} {r r' : Root} {buf buf' : List Id} {cur : Id}
    (hI : DInv r buf) (h : dfs fuel r buf cur = some (r', buf'))
    {i : Id} {n : Node} (hi : r'.get? i = some n) (hm : n.mark = .perm)
    {d : Id} (hd : d ∈ n.dependents) (ha : r'.alive d = true) :
    Before buf'.reverse i d :=
  (dfs_order hI h hi hm hd ha).2

/-- the search itself runs no user code and changes nothing but marks: no value, edge, dirty flag,
tracker, queue or trace entry -/
theorem C02_schedule_is_pure {fuel : Nat} {r r' : Root} {buf buf' : List Id} {cur : Id}
    (h : dfs fuel r buf cur = some (r', buf')) :
    r'.nodes.size = r.nodes.size ∧ (∀ j, SameButMark (r'.get? j) (r.get? j)) ∧ r'.trace = r.trace ∧
      ∃ new, buf' = buf ++ new := by
  obtain ⟨h1, h2, h3, h4⟩ := dfs_frame h
  exact ⟨h1, h2, h3.2.2.2.2.2.2, h4⟩

/-- every live start node is scheduled, and the invariant is re-established for the next start
node (multi-start propagation at the end of a batch) -/
theorem C02_schedule_invariant {fuel : Nat} {r r' : Root} {buf buf' : List Id} {cur : Id}
    (hI : DInv r buf) (h : dfs fuel r buf cur = some (r', buf')) :
    DInv r' buf' ∧ (r.alive cur = true → cur ∈ buf') :=
  dfs_topological hI h

/-- Non-vacuity: the hypotheses hold at the start of every propagation from a state at rest. -/
example : DInv Root.init [] ∧ ([] : List Id).Nodup ∧ ∀ i ∈ ([] : List Id), PermIn Root.init i := by
  refine ⟨?_, List.nodup_nil, by simp⟩
  constructor
  · intro i n hn
    have : i = 0 := by
      have := Dfs.lt_size_of_get? hn
      simp [Root.init] at this; exact this
    subst this
    simp [Root.init, Root.get?] at hn; subst hn; simp
  · intro i n hn hm
    have : i = 0 := by
      have := Dfs.lt_size_of_get? hn
      simp [Root.init] at this; exact this
    subst this
    simp [Root.init, Root.get?] at hn; subst hn; simp at hm

end SycVerif.Reactive
