/-
Property C02, clause (iii): "A computation re-runs only if something it read with tracking in its
previous run was written (signals), re-ran (plain memos) or actually changed (selectors)."

Setting: that of `C01_dynamic_set_run` (`Props/C01Dynamic.lean`): an arena at rest (`DynArena r`) whose
computations have pure bodies (tracked reads and branches on tracked reads), a write of `v` into the
signal `s`, and the trace hypothesis `NoLateEdgeRun`. By `DynArena.deps` the dependency list of a
computation `j` in the at-rest arena, `depsOf r j`, IS the list of the tracked reads of `j`'s previous run.

`C02_runs_justified`: every node `j` that re-ran during the propagation (`j ∈ runIds ran`) has a
dependency `d ∈ depsOf r j` such that `d = s` (the written signal) or `d` itself re-ran during this
propagation and reported a change (`ReportedChange`: the `eq` function of `d` did not accept the pair
(value stored after, value stored before) — for a plain memo, `eq = .never`, that is always so; for a
selector it means that the stored value differs).

The proof re-runs the induction of `propagateLoop_dyn_run` with a ghost "justification" clause: a node is
dirty only because `s` or an already-run, changed node of its PREVIOUS dependency list marked it; the
`dirty` update formula of `RunPostD` gives exactly that.
-/
import SycVerif.Props.C01Dynamic
namespace SycVerif.Reactive

/-! ### 1. one step: `run_node_update` marks exactly the dependents, and only when `changed` -/

/-- **one step.** Running the pure computation `cur` marks dirty exactly the nodes that have `cur` among
their dependencies, and only if the run reports `changed` (`!eqHolds eq new old`); the dirty flags of all
other nodes are untouched and `cur` itself becomes clean. -/
theorem C02_run_marks_dependents {fuel : Nat} {r : Root} {cur : Id} {n : Node} {eq : EqKind}
    {cl : Closure} {old : Int} (hS : StructD r) (hn : r.get? cur = some n)
    (hcb : n.callback = some (eq, cl)) (hv : n.value = some old) (hf : pureCost cl.body + 3 ≤ fuel) :
    ∃ new r', evalPureBody r cl.env cl.body 0 = some new ∧ runNodeUpdate fuel r cur = .ok r' ∧
      (∀ j m, r.get? j = some m → ∃ m', r'.get? j = some m' ∧
        (j ≠ cur → m'.dirty = (m.dirty || (!eqHolds eq new old && decide (cur ∈ m.dependencies)))) ∧
        (j = cur → m'.dirty = false)) := by
  obtain ⟨new, r', hev, hrn, hP⟩ := runNodeUpdate_dyn (fuel := fuel) hS hn hcb hv hf
  refine ⟨new, r', hev, hrn, fun j m hm => ?_⟩
  obtain ⟨m', hm', _, _, _, _, _, c7, c8⟩ := hP.node j m hm
  exact ⟨m', hm', fun hj => (c7 hj).2.2.2, fun hj => (c8 hj).2.2⟩

/-- **a selector blocks.** If the `eq` function of the computation accepts the new value
(`eqHolds eq new old`: the value did not "actually change"), the run marks NOBODY dirty: no dirty flag
other than its own changes, so its dependents are not re-run because of it; the stored value stays. -/
theorem C02_selector_blocks {fuel : Nat} {r : Root} {cur : Id} {n : Node} {eq : EqKind}
    {cl : Closure} {old : Int} (hS : StructD r) (hn : r.get? cur = some n)
    (hcb : n.callback = some (eq, cl)) (hv : n.value = some old) (hf : pureCost cl.body + 3 ≤ fuel) :
    ∃ new r', evalPureBody r cl.env cl.body 0 = some new ∧ runNodeUpdate fuel r cur = .ok r' ∧
      (eqHolds eq new old = true →
        (∀ j m, r.get? j = some m → j ≠ cur → ∃ m', r'.get? j = some m' ∧ m'.dirty = m.dirty) ∧
        (∃ m', r'.get? cur = some m' ∧ m'.value = some old ∧ m'.dirty = false)) := by
  obtain ⟨new, r', hev, hrn, hP⟩ := runNodeUpdate_dyn (fuel := fuel) hS hn hcb hv hf
  refine ⟨new, r', hev, hrn, fun hq => ⟨fun j m hm hj => ?_, ?_⟩⟩
  · obtain ⟨m', hm', _, _, _, _, _, c7, _⟩ := hP.node j m hm
    exact ⟨m', hm', by rw [(c7 hj).2.2.2, hq]; simp⟩
  · obtain ⟨m', hm', _, _, _, _, _, _, c8⟩ := hP.node cur n hn
    exact ⟨m', hm', by rw [(c8 rfl).2.1, hq]; simp, (c8 rfl).2.2⟩

/-- a plain memo (`eq = .never`) always reports `changed` -/
theorem eqHolds_never (new old : Int) : eqHolds .never new old = false := rfl

/-! ### 2. "reported a change" -/

/-- between `r` and `r'` the computation `d` reported a change: the `eq` function it was created with
does not accept (value stored in `r'`, value stored in `r`) -/
def ReportedChange (r r' : Root) (d : Id) : Prop :=
  ∃ m m' eq cl old new, r.get? d = some m ∧ r'.get? d = some m' ∧ m.callback = some (eq, cl) ∧
    m.value = some old ∧ m'.value = some new ∧ eqHolds eq new old = false

/-- a node that reported a change is a plain memo (`eq = .never`: "re-ran") or its stored value differs
("actually changed") -/
theorem ReportedChange.cases {r r' : Root} {d : Id} (h : ReportedChange r r' d) :
    ∃ m m' eq cl, r.get? d = some m ∧ r'.get? d = some m' ∧ m.callback = some (eq, cl) ∧
      (eq = .never ∨ m'.value ≠ m.value) := by
  obtain ⟨m, m', eq, cl, old, new, hm, hm', hcb, hv, hv', he⟩ := h
  refine ⟨m, m', eq, cl, hm, hm', hcb, ?_⟩
  cases eq with
  | never => exact .inl rfl
  | same =>
    right; rw [hv, hv']; intro e; cases e
    simp [eqHolds] at he
  | parity =>
    right; rw [hv, hv']; intro e; cases e
    simp [eqHolds] at he

theorem ReportedChange.of_evolvesD {r0 r r' : Root} {ran0 : List Event} {d : Id}
    (hE : EvolvesD r0 r ran0) (hd : d ∉ runIds ran0) (h : ReportedChange r r' d) :
    ReportedChange r0 r' d := by
  obtain ⟨m, m', eq, cl, old, new, hm, hm', hcb, hv, hv', he⟩ := h
  cases h0 : r0.get? d with
  | none => rw [hE.dead d h0] at hm; cases hm
  | some m0 =>
    obtain ⟨m1, hm1, c1, _, _, _, _, c7⟩ := hE.node d m0 h0
    rw [hm] at hm1; cases hm1
    exact ⟨m0, m', eq, cl, old, new, h0, hm', c1 ▸ hcb, (c7 hd).1 ▸ hv, hv', he⟩

/-! ### 3. one iteration of the loop, with what it does to the dirty flags -/

/-- `LoopInvD.step_run` with the facts about dirty flags and the stored value kept -/
theorem LoopInvD.step_run_post {r : Root} {node : Id} {rest : List Id} {n : Node} {f B : Nat}
    (h : LoopInvD r (node :: rest)) (hn : r.get? node = some n) (hd : n.dirty = true)
    (hB : PureBound r B) (hf : B + 3 ≤ f)
    (hlate : ∀ d ∈ readsNow (r.setNode node { n with mark := .none }) node, d ∉ rest) :
    ∃ r3 obs new eq cl old, n.callback = some (eq, cl) ∧ n.value = some old ∧
      runNodeUpdate f (r.setNode node { n with mark := .none }) node = .ok r3 ∧
      LoopInvD r3 rest ∧ EvolvesD r r3 [.run node obs new] ∧
      (∃ m3, r3.get? node = some m3 ∧ m3.value = some (if eqHolds eq new old then old else new)) ∧
      (∀ j m3, r3.get? j = some m3 → m3.dirty = true → j ≠ node ∧ ∃ m, r.get? j = some m ∧
        (m.dirty = true ∨ (eqHolds eq new old = false ∧ node ∈ m.dependencies))) := by
  have hF := Frame.setMark hn .none
  have hrunI := fun eq cl old new obs r3 => h.run (r3 := r3) (eq := eq) (cl := cl) (old := old) (new := new)
    (obs := obs) hn
  have hn2 : (r.setNode node { n with mark := .none }).get? node = some { n with mark := .none } := by
    rw [Dfs.get?_setNode_of_get? hn, if_pos rfl]
  have hother : ∀ j, j ≠ node → (r.setNode node { n with mark := .none }).get? j = r.get? j := by
    intro j hj; rw [Dfs.get?_setNode_of_get? hn, if_neg hj]
  obtain ⟨r2, hr2⟩ : ∃ r2, r2 = r.setNode node { n with mark := .none } := ⟨_, rfl⟩
  rw [← hr2] at hF hrunI hn2 hlate hother ⊢
  obtain ⟨n2, hn2def⟩ : ∃ n2 : Node, n2 = { n with mark := .none } := ⟨_, rfl⟩
  rw [← hn2def] at hn2
  have hc2 : n2.callback = n.callback := by rw [hn2def]
  have hv2 : n2.value = n.value := by rw [hn2def]
  clear hr2 hn2def
  obtain ⟨_, hcn⟩ := h.dirty node n hn hd
  obtain ⟨⟨eq, cl⟩, hcb⟩ := Option.ne_none_iff_exists'.1 hcn
  obtain ⟨old, hv⟩ := Option.isSome_iff_exists.1 (h.struct.node node n hn).value
  have hS2 := hF.flagsRel.structD h.struct
  obtain ⟨new, r3, hev, hrn, hP⟩ := runNodeUpdate_dyn (fuel := f) (eq := eq) (cl := cl) (old := old)
    hS2 hn2 (hc2.trans hcb) (hv2.trans hv) (by have := hB node n eq cl hn hcb; omega)
  have hrn2 : readsNow r2 node = trackedReads r2 cl.env cl.body := by
    simp [readsNow, hn2, hc2, hcb]
  rw [hrn2] at hlate
  have hI3 := hrunI _ _ _ _ _ _ hcb hv hev hP hlate
  have hE3 := hP.evolvesD hn2 (by simp [hc2, hcb])
  refine ⟨r3, _, new, eq, cl, old, hcb, hv, hrn, hI3, by simpa using hF.evolves.toD.trans hE3, ?_, ?_⟩
  · obtain ⟨m3, hm3, _, _, _, _, _, _, c8⟩ := hP.node node n2 hn2
    exact ⟨m3, hm3, (c8 rfl).2.1⟩
  · intro j m3 hm3 hd3
    cases hm2 : r2.get? j with
    | none => rw [hP.dead j hm2] at hm3; cases hm3
    | some m2 =>
      obtain ⟨m', hm', _, _, _, _, _, c7, c8⟩ := hP.node j m2 hm2
      rw [hm3] at hm'; cases hm'
      by_cases hj : j = node
      · rw [(c8 hj).2.2] at hd3; cases hd3
      · refine ⟨hj, m2, by rw [← hother j hj]; exact hm2, ?_⟩
        rw [(c7 hj).2.2.2] at hd3
        cases hdm : m2.dirty with
        | true => exact .inl rfl
        | false =>
          simp only [hdm, Bool.false_or, Bool.and_eq_true, decide_eq_true_eq, Bool.not_eq_true'] at hd3
          exact .inr hd3

/-! ### 4. the loop, with the ghost justification clause -/

/-- **the propagation loop with justifications.** `D0 j` is the dependency list `j` had before the
propagation (pending nodes have not run yet, so they still have it), `C` the set of nodes that have run
already and reported a change. If every dirty node is dirty because of `s` or of a node in `C` that is
in its list `D0`, then every node that the loop runs is justified by `s`, by a node in `C`, or by a
node that ran in this loop and reported a change — in each case a node of its list `D0`. -/
theorem propagateLoop_dyn_just (D0 : Id → List Id) (s : Id) :
    ∀ (Pn : List Id) (r : Root) (fuel B : Nat) (C : Id → Prop), LoopInvD r Pn →
    NoLateRun fuel r Pn → PureBound r B → Pn.length + B + 4 ≤ fuel →
    (∀ j ∈ Pn, depsOf r j = D0 j) →
    (∀ j n, r.get? j = some n → n.dirty = true → ∃ d ∈ D0 j, d = s ∨ C d) →
    ∃ r' ran, propagateLoop fuel r Pn = .ok r' ∧ LoopInvD r' [] ∧ EvolvesD r r' ran ∧
      (runIds ran).Sublist Pn ∧
      ∀ j ∈ runIds ran, ∃ d ∈ D0 j, d = s ∨ C d ∨ (d ∈ runIds ran ∧ ReportedChange r r' d)
  | [], r, fuel, B, C, h, _, _, hf, _, _ => by
    obtain ⟨f, rfl⟩ : ∃ f, fuel = f + 1 := ⟨fuel - 1, by omega⟩
    exact ⟨r, [], by rw [propagateLoop], h, (Frame.refl r).evolves.toD, List.Sublist.refl _,
      fun j hj => by simp [runIds] at hj⟩
  | node :: rest, r, fuel, B, C, h, hL, hB, hf, hD, hJ => by
    obtain ⟨f, rfl⟩ : ∃ f, fuel = f + 1 := ⟨fuel - 1, by omega⟩
    simp only [List.length_cons] at hf
    obtain ⟨n, hn⟩ := Root.alive_iff.1 (h.pend node (by simp))
    have hF := Frame.setMark hn .none
    have hB2 := hF.evolves.toD.pureBound hB
    have hnot : node ∉ rest := h.sched.1
    rw [propagateLoop]
    simp only [NoLateRun, hn] at hL
    simp only [hn]
    by_cases hd : n.dirty = true
    · rw [if_pos hd] at hL ⊢
      obtain ⟨r3, obs, new, eq, cl, old, hcb, hv, hrn, hI3, hE3, ⟨m3, hm3, hval3⟩, hdirty3⟩ :=
        h.step_run_post (f := f) hn hd hB (by omega) hL.1
      have hL3 := hL.2
      rw [hrn] at hL3
      have hD3 : ∀ j ∈ rest, depsOf r3 j = D0 j := by
        intro j hj
        have hjn : j ≠ node := fun e => hnot (e ▸ hj)
        rw [hE3.depsOf_eq (by simpa [runIds] using hjn)]
        exact hD j (List.mem_cons_of_mem _ hj)
      have hJ3 : ∀ j m, r3.get? j = some m → m.dirty = true →
          ∃ d ∈ D0 j, d = s ∨ (C d ∨ (d = node ∧ eqHolds eq new old = false)) := by
        intro j mj hmj hdj
        obtain ⟨hjn, m, hm, hcase⟩ := hdirty3 j mj hmj hdj
        rcases hcase with hdm | ⟨hq, hmem⟩
        · obtain ⟨d, hd1, hd2⟩ := hJ j m hm hdm
          exact ⟨d, hd1, hd2.imp id .inl⟩
        · have hjr : j ∈ rest := (hI3.dirty j mj hmj hdj).1
          refine ⟨node, ?_, .inr (.inr ⟨rfl, hq⟩)⟩
          rw [← hD j (List.mem_cons_of_mem _ hjr), depsOf_of_get? hm]
          exact hmem
      obtain ⟨r', ran, hrun, hI, hE, hsub, hjust⟩ := propagateLoop_dyn_just D0 s rest r3 f B
        (fun d => C d ∨ (d = node ∧ eqHolds eq new old = false)) hI3 hL3 (hE3.pureBound hB) (by omega) hD3 hJ3
      have hnran : node ∉ runIds ran := fun hm => hnot (hsub.subset hm)
      refine ⟨r', .run node obs new :: ran, by simp [hrn, hrun], hI, ?_, ?_, ?_⟩
      · simpa using hE3.trans hE
      · simpa [runIds] using hsub
      · intro j hj
        simp only [runIds, List.mem_cons] at hj ⊢
        rcases hj with rfl | hj
        · obtain ⟨d, hd1, hd2⟩ := hJ j n hn hd
          exact ⟨d, hd1, hd2.imp id .inl⟩
        · obtain ⟨d, hd1, hd2⟩ := hjust j hj
          refine ⟨d, hd1, ?_⟩
          rcases hd2 with hd2 | (hd2 | ⟨rfl, hq⟩) | ⟨hd2, hd3⟩
          · exact .inl hd2
          · exact .inr (.inl hd2)
          · refine .inr (.inr ⟨.inl rfl, ?_⟩)
            obtain ⟨m', hm', _, _, _, _, _, c7⟩ := hE.node d m3 hm3
            refine ⟨n, m', eq, cl, old, new, hn, hm', hcb, hv, ?_, hq⟩
            rw [(c7 hnran).1, hval3, hq]; simp
          · refine .inr (.inr ⟨.inr hd2, ?_⟩)
            have hdn : d ≠ node := fun e => hnran (e ▸ hd2)
            exact hd3.of_evolvesD hE3 (by simpa [runIds] using hdn)
    · rw [if_neg hd] at hL ⊢
      have hd' : n.dirty = false := by simpa using hd
      have hE2 := hF.evolves.toD
      have hD2 : ∀ j ∈ rest, depsOf (r.setNode node { n with mark := .none }) j = D0 j := by
        intro j hj
        rw [hE2.depsOf_eq (by simp [runIds])]
        exact hD j (List.mem_cons_of_mem _ hj)
      have hJ2 : ∀ j m, (r.setNode node { n with mark := .none }).get? j = some m → m.dirty = true →
          ∃ d ∈ D0 j, d = s ∨ C d := by
        intro j m hm hdm
        rw [Dfs.get?_setNode_of_get? hn] at hm
        split at hm
        · cases hm; rw [hd'] at hdm; cases hdm
        · exact hJ j m hm hdm
      obtain ⟨r', ran, hrun, hI, hE, hsub, hjust⟩ := propagateLoop_dyn_just D0 s rest _ f B C
        (h.skip hn hd') hL hB2 (by omega) hD2 hJ2
      refine ⟨r', ran, hrun, hI, ?_, hsub.cons _, ?_⟩
      · simpa using hE2.trans hE
      · intro j hj
        obtain ⟨d, hd1, hd2⟩ := hjust j hj
        refine ⟨d, hd1, ?_⟩
        rcases hd2 with hd2 | hd2 | ⟨hd2, hd3⟩
        · exact .inl hd2
        · exact .inr (.inl hd2)
        · exact .inr (.inr ⟨hd2, hd3.of_evolvesD hE2 (by simp [runIds])⟩)

/-! ### 5. the state handed to the loop: only the direct dependents of `s` are dirty -/

/-- the write changes no dependency list -/
theorem depsOf_setValue {r : Root} {s : Id} {ns : Node} (hn : r.get? s = some ns) (v : Int) (j : Id) :
    depsOf (r.setNode s { ns with value := some v }) j = depsOf r j := by
  unfold depsOf
  rw [Dfs.get?_setNode_of_get? hn]
  by_cases hj : j = s
  · subst hj; rw [if_pos rfl, hn]
  · rw [if_neg hj]

/-- in the state handed to the second loop a node is dirty only if the written signal is among its
dependencies (of the at-rest arena) -/
theorem start_dirty_dep {r : Root} {s : Id} {ns : Node} {v : Int} {rD : Root} {buf : List Id}
    (hA : DynArena r) (hn : r.get? s = some ns)
    (hSch : Scheduled (r.setNode s { ns with value := some v }) s rD buf) :
    ∀ j m, (markDependentsDirty rD s).get? j = some m → m.dirty = true → s ∈ depsOf r j := by
  have hS1 := hA.struct.setValue hn v
  have hdeps1 := depsOf_setValue hn v
  obtain ⟨r1, hr1⟩ : ∃ r1, r1 = r.setNode s { ns with value := some v } := ⟨_, rfl⟩
  have hget1 : ∀ j, r1.get? j = if j = s then some { ns with value := some v } else r.get? j := by
    intro j; rw [hr1]; exact Dfs.get?_setNode_of_get? hn _ j
  rw [← hr1] at hSch hS1 hdeps1
  have hRD := hSch.frame.flagsRel
  have hSD := hRD.structD hS1
  obtain ⟨nsD, hnsD⟩ := Root.alive_iff.1 (hSch.alive s hSch.start)
  intro j m hm hd
  rw [hSch.dirty, Option.map_eq_some_iff] at hm
  obtain ⟨mD, hmD, rfl⟩ := hm
  obtain ⟨m1, hm1, he⟩ := hSch.frame.get?_bwd hmD
  have hdD : mD.dirty = false := by
    have hd1 : mD.dirty = m1.dirty := by
      have := congrArg Node.dirty he; simpa [Node.eraseMark] using this
    rw [hd1]
    rw [hget1] at hm1
    split at hm1
    · cases hm1; exact hA.clean _ ns hn
    · exact hA.clean j m1 hm1
  simp only [hdD, Bool.false_or] at hd
  rw [isDependentOf_eq hnsD, List.contains_eq_mem, decide_eq_true_eq] at hd
  have hmem : s ∈ mD.dependencies := (mem_dependents_iff hSD.sym hnsD hmD).1 hd
  obtain ⟨m1', hm1', _, _, _, _, _, e6, _⟩ := hRD.bwd hmD
  rw [← hdeps1 j, depsOf_of_get? hm1', ← e6]
  exact hmem

/-! ### 6. the theorem -/

/-- **C02 (iii).** In the setting of `C01_dynamic_set_run` (arena at rest `r` with pure computations,
write of `v` into the signal `s`, no late edge along the run): the conclusion of that theorem holds, and
every node `j` that re-ran during the propagation has, in its dependency list of the at-rest arena
(`depsOf r j`, the tracked reads of its previous run), a node `d` that is the written signal or that
itself re-ran in this propagation and reported a change. -/
theorem C02_runs_justified {r : Root} {s : Id} {ns : Node} {old : Int} {B fuel : Nat}
    (hA : DynArena r) (hn : r.get? s = some ns) (hc : ns.callback = none) (hv : ns.value = some old)
    (hB : PureBound r B) (hf : r.nodes.size + B + 6 ≤ fuel) (v : Int)
    (hL : NoLateEdgeRun fuel (r.setNode s { ns with value := some v }) s) :
    setSilent r s v = .ok (r.setNode s { ns with value := some v }) ∧
    ∃ r' ran, propagateUpdates fuel (r.setNode s { ns with value := some v }) s = .ok r' ∧
      DynArena r' ∧ EvolvesD (r.setNode s { ns with value := some v }) r' ran ∧ (runIds ran).Nodup ∧
      (∀ j ∈ runIds ran, Reach (r.setNode s { ns with value := some v }) s j) ∧
      ∀ j ∈ runIds ran, ∃ d ∈ depsOf r j, d = s ∨ (d ∈ runIds ran ∧ ReportedChange r r' d) := by
  refine ⟨setSilent_eq hn hv v, ?_⟩
  obtain ⟨rD, buf, hvis, hSch, hreach, hI, hBM, hlen⟩ := C01_dynamic_schedule hA hn hc hB v
  obtain ⟨f, rfl⟩ : ∃ f, fuel = f + 2 := ⟨fuel - 2, by omega⟩
  simp only [NoLateEdgeRun, hvis] at hL
  have hE0 := scheduled_evolvesD hSch
  have hD : ∀ j ∈ buf.reverse, depsOf (markDependentsDirty rD s) j = depsOf r j := by
    intro j _
    rw [hE0.depsOf_eq (by simp [runIds]), depsOf_setValue hn v]
  have hJ : ∀ j m, (markDependentsDirty rD s).get? j = some m → m.dirty = true →
      ∃ d ∈ depsOf r j, d = s ∨ False :=
    fun j m hm hd => ⟨s, start_dirty_dep hA hn hSch j m hm hd, .inl rfl⟩
  obtain ⟨r', ran, hrun, hI', hE, hsub, hjust⟩ := propagateLoop_dyn_just (depsOf r) s buf.reverse _ f B
    (fun _ => False) hI hL hBM (by omega) hD hJ
  obtain ⟨h1, h2, h3, h4, h5⟩ := C01_dynamic_finish hA hvis hSch hreach hrun hI' hE hsub
  refine ⟨r', ran, h1, h2, h3, h4, h5, fun j hj => ?_⟩
  obtain ⟨d, hd1, hd2⟩ := hjust j hj
  refine ⟨d, hd1, ?_⟩
  rcases hd2 with hd2 | hd2 | ⟨hd2, hd3⟩
  · exact .inl hd2
  · exact hd2.elim
  · refine .inr ⟨hd2, ?_⟩
    obtain ⟨m, m', eq, cl, o, nw, hm, hm', hcb, hvv, hv', he⟩ := hd3.of_evolvesD hE0 (by simp [runIds])
    rw [Dfs.get?_setNode_of_get? hn] at hm
    split at hm
    · cases hm; simp [hc] at hcb
    · exact ⟨m, m', eq, cl, o, nw, hm, hm', hcb, hvv, hv', he⟩

/-- **C02 (iii), spelled out.** Every node that re-ran is a computation whose previous run read, with
tracking, a node `d` (`d ∈ trackedReads r cl.env cl.body`, the reads of a run of its body against the values
of the at-rest arena) such that: `d` is the written signal; or `d` re-ran in this propagation and is a
plain memo (`eq = .never`); or `d` re-ran and its stored value after the propagation differs from its
stored value before. -/
theorem C02_runs_only_if_read_changed {r : Root} {s : Id} {ns : Node} {old : Int} {B fuel : Nat}
    (hA : DynArena r) (hn : r.get? s = some ns) (hc : ns.callback = none) (hv : ns.value = some old)
    (hB : PureBound r B) (hf : r.nodes.size + B + 6 ≤ fuel) (v : Int)
    (hL : NoLateEdgeRun fuel (r.setNode s { ns with value := some v }) s) :
    ∃ r' ran, propagateUpdates fuel (r.setNode s { ns with value := some v }) s = .ok r' ∧
      r'.trace = (r.setNode s { ns with value := some v }).trace ++ ran ∧
      ∀ j ∈ runIds ran, ∃ n eq cl, r.get? j = some n ∧ n.callback = some (eq, cl) ∧
        ∃ d ∈ trackedReads r cl.env cl.body,
          d = s ∨
          (d ∈ runIds ran ∧ ∃ m m' eqd cld, r.get? d = some m ∧ r'.get? d = some m' ∧
            m.callback = some (eqd, cld) ∧ (eqd = .never ∨ m'.value ≠ m.value)) := by
  obtain ⟨_, r', ran, h1, _, h3, _, _, hjust⟩ := C02_runs_justified hA hn hc hv hB hf v hL
  refine ⟨r', ran, h1, h3.trace, fun j hj => ?_⟩
  obtain ⟨d, hd1, hd2⟩ := hjust j hj
  cases hnj : r.get? j with
  | none => simp [depsOf, hnj] at hd1
  | some n =>
    rw [depsOf_of_get? hnj] at hd1
    cases hcb : n.callback with
    | none => rw [(hA.struct.node j n hnj).plain hcb] at hd1; cases hd1
    | some p =>
      obtain ⟨eq, cl⟩ := p
      refine ⟨n, eq, cl, rfl, hcb, d, by rw [← hA.deps j n hnj eq cl hcb]; exact hd1, ?_⟩
      rcases hd2 with hd2 | ⟨hd2, hd3⟩
      · exact .inl hd2
      · exact .inr ⟨hd2, hd3.cases⟩

/-- **contrapositive**: a computation none of whose previous dependencies is the written signal or
reported a change is not re-run, and therefore keeps its value and its dependency list -/
theorem C02_unjustified_not_rerun {r : Root} {s : Id} {ns : Node} {old : Int} {B fuel : Nat}
    (hA : DynArena r) (hn : r.get? s = some ns) (hc : ns.callback = none) (hv : ns.value = some old)
    (hB : PureBound r B) (hf : r.nodes.size + B + 6 ≤ fuel) (v : Int)
    (hL : NoLateEdgeRun fuel (r.setNode s { ns with value := some v }) s) :
    ∃ r' ran, propagateUpdates fuel (r.setNode s { ns with value := some v }) s = .ok r' ∧
      r'.trace = (r.setNode s { ns with value := some v }).trace ++ ran ∧
      ∀ j m, r.get? j = some m → j ≠ s → s ∉ m.dependencies →
        (∀ d ∈ m.dependencies, d ∈ runIds ran → ¬ ReportedChange r r' d) →
        j ∉ runIds ran ∧ ∃ m', r'.get? j = some m' ∧ m'.value = m.value ∧ m'.dependencies = m.dependencies := by
  obtain ⟨_, r', ran, h1, _, h3, _, _, hjust⟩ := C02_runs_justified hA hn hc hv hB hf v hL
  refine ⟨r', ran, h1, h3.trace, fun j m hm hjs hs hno => ?_⟩
  have hnr : j ∉ runIds ran := by
    intro hj
    obtain ⟨d, hd1, hd2⟩ := hjust j hj
    rw [depsOf_of_get? hm] at hd1
    rcases hd2 with rfl | ⟨hd2, hd3⟩
    · exact hs hd1
    · exact hno d hd1 hd2 hd3
  have hm1 : (r.setNode s { ns with value := some v }).get? j = some m := by
    rw [Dfs.get?_setNode_of_get? hn, if_neg hjs]; exact hm
  obtain ⟨m', hm', _, _, _, _, _, c7⟩ := h3.node j m hm1
  exact ⟨hnr, m', hm', c7 hnr⟩

/-! ### 7. static dependency graphs (`ReadOnly` bodies): no hypothesis on the run is needed -/

/-- **C02 (iii) for static graphs**: in a `StaticArena` (branch-free bodies) no late edge can appear, so
the statement holds for every write -/
theorem C02_runs_justified_static {r : Root} {s : Id} {ns : Node} {old : Int} {B fuel : Nat}
    (hA : StaticArena r) (hn : r.get? s = some ns) (hc : ns.callback = none) (hv : ns.value = some old)
    (hB : BodyBound r B) (hf : r.nodes.size + B + 6 ≤ fuel) (v : Int) :
    ∃ r' ran, propagateUpdates fuel (r.setNode s { ns with value := some v }) s = .ok r' ∧
      r'.trace = (r.setNode s { ns with value := some v }).trace ++ ran ∧ (runIds ran).Nodup ∧
      ∀ j ∈ runIds ran, ∃ d ∈ depsOf r j, d = s ∨ (d ∈ runIds ran ∧ ReportedChange r r' d) := by
  have hS1 := hA.struct.setValue hn v
  have hBp := hB.toPure hA.struct
  have hL := noLateEdgeStatic_run hA.toDyn hn hc hBp hf v (noLateEdgeStatic_of_struct hS1 s)
  obtain ⟨_, r', ran, h1, _, h3, h4, _, hjust⟩ := C02_runs_justified hA.toDyn hn hc hv hBp hf v hL
  exact ⟨r', ran, h1, h3.trace, h4, hjust⟩

/-! ### 8. non-vacuity -/

/-- the hypotheses are satisfiable: the theorem applies to the write `s := 0` on `dynDemo2`
(`Props/C01Dynamic.lean`: a program with a conditional read whose branch flips) -/
example : ∃ r ns r' ran, r.get? 1 = some ns ∧ DynArena r ∧
    propagateUpdates 60 (r.setNode 1 { ns with value := some 0 }) 1 = .ok r' ∧
    ∀ j ∈ runIds ran, ∃ d ∈ depsOf r j, d = 1 ∨ (d ∈ runIds ran ∧ ReportedChange r r' d) := by
  obtain ⟨r, env, ns, hr, hA, hB, hns, hcb, hL, _, _⟩ := dynDemo2_instance
  obtain ⟨old, hold⟩ := Option.isSome_iff_exists.1 (hA.struct.node 1 ns hns).value
  have hsz : r.nodes.size ≤ 40 := by
    have h := dynDemo2_check
    unfold dynDemoCheck at h
    rw [hr] at h
    simp only [Bool.and_eq_true, decide_eq_true_eq] at h
    exact h.1.1.1.1.2
  have hf : r.nodes.size + 10 + 6 ≤ 60 := by omega
  obtain ⟨_, r', ran, h1, _, _, _, _, hj⟩ := C02_runs_justified hA hns hcb hold hB hf 0
    (noLateEdgeStatic_run hA hns hcb hB hf 0 hL)
  exact ⟨r, ns, r', ran, hns, hA, h1, hj⟩

/-- `s = signal 1; p = selector_parity(s); c = memo(p)`. Writing `s := 3` re-runs the selector `p`
(node 2) only: its parity is unchanged, `eq` accepts, `c` (node 3) is not marked. Writing `s := 2`
re-runs both. -/
def selDemo : List Stmt :=
  [.signal 1, .selector .parity (.cons (.read 0) .nil), .memo (.cons (.read 1) .nil)]

def selDemoRuns (v : Int) : Option (List Id) :=
  match runOps 60 selDemo Root.init [] with
  | .ok (r, env) =>
    match runOps 60 [.set 0 (.const v)] r env with
    | .ok (r', _) => some (runIds (r'.trace.drop r.trace.length))
    | .error _ => none
  | .error _ => none

example : selDemoRuns 3 = some [2] := by decide +kernel
example : selDemoRuns 2 = some [2, 3] := by decide +kernel

section AxiomCheck
/-- info: 'SycVerif.Reactive.C02_runs_justified' depends on axioms: [propext, Classical.choice, Quot.sound] -/
#guard_msgs in #print axioms C02_runs_justified
/-- info: 'SycVerif.Reactive.C02_runs_only_if_read_changed' depends on axioms: [propext, Classical.choice, Quot.sound] -/
#guard_msgs in #print axioms C02_runs_only_if_read_changed
/-- info: 'SycVerif.Reactive.C02_runs_justified_static' depends on axioms: [propext, Classical.choice, Quot.sound] -/
#guard_msgs in #print axioms C02_runs_justified_static
/-- info: 'SycVerif.Reactive.C02_selector_blocks' depends on axioms: [propext, Classical.choice, Quot.sound] -/
#guard_msgs in #print axioms C02_selector_blocks
end AxiomCheck

end SycVerif.Reactive
