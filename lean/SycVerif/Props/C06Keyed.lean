/-
Property C06, component level: the `Keyed` / `Indexed` components (packages/sycamore-web/src/iter.rs)
as the composition of the two pieces proved separately:

* list mapping `map_keyed` / `map_indexed` (`Model/ListMap.lean`, theorems `mapKeyed_spec`,
  `mapIndexed_spec` of `Props/C07.lean`), and
* `reconcile_fragments` over the nodes between the two markers plus the end marker
  (`Model/Reconcile.lean`, theorem `C06_region` of `Props/C06.lean`).

The composition is the one the native driver runs (`Driver/DomDrv.lean`, `runList`/`handleList`; restated
here, the driver module is not imported): the item rendered by `map_fn` call `c` is ONE DOM node named
`c + 10`; `1` is the start marker, `2` the end marker; the other siblings (`0` = text "pre", `3` = text
"post" in the driver) are generalised to arbitrary lists `pre`/`post` of ids `< 10` different from the
markers. On every list update: `old := nodesBetween ch 1 2`, `new := mapped'.map (· + 10)`,
`ch' := reconcile ch (old ++ [2]) (new ++ [2])`.
-/
import SycVerif.Props.C07
import SycVerif.Props.C06
namespace SycVerif.KeyedDom
open SycVerif.ListMap SycVerif.Reconcile

/-! ## The composed components -/

/-! The DOM node rendered by `map_fn` call `c` is named `c + 10`. -/

inductive CompErr where
  | map (p : Panic)        -- the list-mapping `update` closure panicked
  | dom (e : DomErr)       -- `reconcile_fragments` failed (DOM exception / slice panic)
  deriving DecidableEq, Repr

/-- `Keyed`: the `map_keyed` closure state + the children of the list's parent -/
structure KeyedDom where
  s : KState
  ch : List Nat

/-- `Indexed`: the `map_indexed` closure state + the children of the list's parent -/
structure IndexedDom where
  s : IState
  ch : List Nat

/-- what the effect of `Keyed`/`Indexed` does with the freshly mapped list: `get_nodes_between(start, end)`,
push the end marker on both sides, `reconcile_fragments` -/
def domUpdate (ch : List Nat) (mapped' : List Nat) : Except CompErr (List Nat) :=
  let old := nodesBetween ch 1 2
  match reconcile ch (old ++ [2]) (mapped'.map (· + 10) ++ [2]) with
  | .error e => .error (.dom e)
  | .ok ch' => .ok ch'

/-- one update of a mounted `Keyed` -/
def keyedDomStep (d : KeyedDom) (new : List Item) : Except CompErr KeyedDom :=
  match mapKeyedStep d.s new with
  | .error p => .error (.map p)
  | .ok (s', _) =>
    match domUpdate d.ch s'.mapped with
    | .error e => .error e
    | .ok ch' => .ok ⟨s', ch'⟩

/-- one update of a mounted `Indexed` -/
def indexedDomStep (d : IndexedDom) (new : List Item) : Except CompErr IndexedDom :=
  match mapIndexedStep d.s new with
  | .error p => .error (.map p)
  | .ok (s', _) =>
    match domUpdate d.ch s'.mapped with
    | .error e => .error e
    | .ok ch' => .ok ⟨s', ch'⟩

/-- the children of the parent around a region whose content is the nodes of `mapped` -/
def layout (pre post : List Nat) (mapped : List Nat) : List Nat :=
  pre ++ [1] ++ mapped.map (· + 10) ++ [2] ++ post

/-- mounting: first run of the mapping on the initial list, the rendered nodes go between the markers -/
def keyedDomMount (pre post : List Nat) (l0 : List Item) : Except CompErr KeyedDom :=
  match mapKeyedStep KState.init l0 with
  | .error p => .error (.map p)
  | .ok (s0, _) => .ok ⟨s0, layout pre post s0.mapped⟩

def indexedDomMount (pre post : List Nat) (l0 : List Item) : Except CompErr IndexedDom :=
  match mapIndexedStep IState.init l0 with
  | .error p => .error (.map p)
  | .ok (s0, _) => .ok ⟨s0, layout pre post s0.mapped⟩

/-- the other children of the list's parent: pairwise distinct ids below 10 that are not the markers
(the driver: `pre = [0]`, `post = [3]`) -/
structure Siblings (pre post : List Nat) : Prop where
  nodup : (pre ++ post).Nodup
  small : ∀ x ∈ pre ++ post, x < 10 ∧ x ≠ 1 ∧ x ≠ 2

theorem siblings_driver : Siblings [0] [3] := by
  constructor <;> simp

/-- the invariant of a mounted `Keyed` -/
def KDInv (pre post : List Nat) (d : KeyedDom) : Prop :=
  KCoh d.s ∧ d.ch = layout pre post d.s.mapped

/-- the invariant of a mounted `Indexed` -/
def IDInv (pre post : List Nat) (d : IndexedDom) : Prop :=
  ICoh d.s ∧ d.ch = layout pre post d.s.mapped

/-- the driver's shape: `[0, 1] ++ mapped.map (· + 10) ++ [2, 3]` -/
theorem layout_driver (mapped : List Nat) : layout [0] [3] mapped = [0, 1] ++ mapped.map (· + 10) ++ [2, 3] := by
  simp [layout]

/-! ## The DOM half, for any two duplicate-free lists of call ids -/

theorem mem_layout {pre post M : List Nat} {x : Nat} :
    x ∈ layout pre post M ↔ x ∈ pre ∨ x = 1 ∨ (∃ c ∈ M, x = c + 10) ∨ x = 2 ∨ x ∈ post := by
  simp only [layout, List.mem_append, List.mem_singleton, List.mem_map]
  constructor
  · rintro ((((h | h) | ⟨c, hc, rfl⟩) | h) | h) <;> simp_all
  · rintro (h | h | ⟨c, hc, rfl⟩ | h | h) <;> simp_all

theorem nodup_map_node {M : List Nat} (h : M.Nodup) : (M.map (· + 10)).Nodup := by
  exact List.Pairwise.map _ (fun a b hab e => hab (by simpa using e)) h

theorem layout_nodup {pre post M : List Nat} (hs : Siblings pre post) (hM : M.Nodup) :
    (layout pre post M).Nodup := by
  have h1 := hs.nodup
  have h2 := hs.small
  have h3 := nodup_map_node hM
  simp only [layout, List.nodup_append, List.mem_append, List.mem_singleton, List.mem_map,
    List.nodup_cons, List.not_mem_nil, List.nodup_nil] at h1 h2 ⊢
  grind

theorem nodesBetween_layout {pre post M : List Nat} (hs : Siblings pre post) (hM : M.Nodup) :
    nodesBetween (layout pre post M) 1 2 = M.map (· + 10) :=
  nodesBetween_region pre (M.map (· + 10)) post 1 2 (layout_nodup hs hM)

/-- the DOM half of an update: whatever the two duplicate-free lists of call ids, the update does not
fail and the children become the layout of the new list -/
theorem domUpdate_layout {pre post M M' : List Nat} (hs : Siblings pre post) (hM : M.Nodup) (hM' : M'.Nodup) :
    domUpdate (layout pre post M) M' = .ok (layout pre post M') := by
  have hnd := layout_nodup hs hM
  have hnew : (M'.map (· + 10) ++ [2]).Nodup := by
    have := nodup_map_node hM'
    simp only [List.nodup_append, List.mem_map, List.mem_singleton, List.nodup_cons, List.not_mem_nil,
      List.nodup_nil]
    grind
  have hfresh : ∀ x ∈ M'.map (· + 10), x ∉ M.map (· + 10) → x ∉ pre ∧ x ∉ post ∧ x ≠ 1 := by
    intro x hx _
    obtain ⟨c, _, rfl⟩ := List.mem_map.mp hx
    have := hs.small
    simp only [List.mem_append] at this
    refine ⟨fun h => ?_, fun h => ?_, by omega⟩
    · have := (this _ (Or.inl h)).1; omega
    · have := (this _ (Or.inr h)).1; omega
  obtain ⟨h1, h2⟩ := C06_region pre (M.map (· + 10)) (M'.map (· + 10)) post 1 2 hnd hnew hfresh
  simp only [domUpdate, layout, h1, h2]

/-- a rendered node (id `c + 10`) is a child of the laid-out parent iff its call is in the mapped list -/
theorem node_mem_layout {pre post M : List Nat} (hs : Siblings pre post) {c : Nat} :
    c + 10 ∈ layout pre post M ↔ c ∈ M := by
  have h2 := hs.small
  simp only [List.mem_append] at h2
  rw [mem_layout]
  constructor
  · rintro (h | h | ⟨c', hc, e⟩ | h | h)
    · have := (h2 _ (Or.inl h)).1; omega
    · omega
    · have : c = c' := by omega
      subst this; exact hc
    · omega
    · have := (h2 _ (Or.inr h)).1; omega
  · intro h; exact Or.inr (Or.inr (Or.inl ⟨c, h, rfl⟩))

theorem getElem?_map_node {M : List Nat} {j n : Nat} :
    (M.map (· + 10))[j]? = some n ↔ ∃ c, M[j]? = some c ∧ n = c + 10 := by
  simp only [List.getElem?_map, Option.map_eq_some_iff]
  constructor
  · rintro ⟨c, h, rfl⟩; exact ⟨c, h, rfl⟩
  · rintro ⟨c, h, rfl⟩; exact ⟨c, h, rfl⟩

/-! ## `Keyed` -/

/-- What one update of a mounted `Keyed` establishes. `nodesBetween d.ch 1 2` is the list of the children
between the two markers; position `j` of it renders position `j` of the list. -/
structure KeyedRegionSpec (pre post : List Nat) (d : KeyedDom) (new : List Item) (d' : KeyedDom) : Prop where
  /-- the invariant is re-established -/
  inv : KDInv pre post d'
  /-- the mapping half is the `map_keyed` update, with its own specification -/
  mapping : ∃ evs, mapKeyedStep d.s new = .ok (d'.s, evs) ∧ KeyedSpec d.s new d'.s evs
  items : d'.s.items = new
  /-- the children between the markers are exactly the nodes of the new list's items, in order -/
  region : nodesBetween d'.ch 1 2 = d'.s.mapped.map (· + 10)
  regionLength : (nodesBetween d'.ch 1 2).length = new.length
  /-- `pre`, the markers and `post` are in place around the region; nothing is duplicated -/
  children : d'.ch = pre ++ [1] ++ nodesBetween d'.ch 1 2 ++ [2] ++ post
  nodup : d'.ch.Nodup
  /-- an item whose key was in the old list is rendered by the VERY SAME node as before, whatever its
  old and new positions and even if its payload changed -/
  kept : ∀ (i j : Nat) (a b : Item), d.s.items[i]? = some a → new[j]? = some b → a.key = b.key →
    ∃ n, (nodesBetween d.ch 1 2)[i]? = some n ∧ (nodesBetween d'.ch 1 2)[j]? = some n
  /-- an item whose key enters is rendered by a node that was not a child before (the node of a fresh call) -/
  entered : ∀ (j : Nat) (b : Item), new[j]? = some b → b.key ∉ keys d.s.items →
    ∃ c, d'.s.mapped[j]? = some c ∧ d.s.next ≤ c ∧ (nodesBetween d'.ch 1 2)[j]? = some (c + 10) ∧ c + 10 ∉ d.ch
  /-- the node of a key that left is no longer a child -/
  left : ∀ (i : Nat) (a : Item) (n : Nat), d.s.items[i]? = some a → a.key ∉ keys new →
    (nodesBetween d.ch 1 2)[i]? = some n → n ∉ d'.ch

/-- **C06 for `Keyed`.** From a state satisfying the invariant, an update with unique keys does not fail
(neither the mapping closure panics nor a DOM call throws) and the resulting children satisfy
`KeyedRegionSpec`. -/
theorem C06_keyed_region {pre post : List Nat} (hs : Siblings pre post) (d : KeyedDom) (new : List Item)
    (h : KDInv pre post d) (hnew : (keys new).Nodup) :
    ∃ d', keyedDomStep d new = .ok d' ∧ KeyedRegionSpec pre post d new d' := by
  obtain ⟨s, ch⟩ := d
  obtain ⟨hc, hch⟩ := h
  simp only at hc hch
  subst hch
  obtain ⟨s', evs, hstep, sp⟩ := mapKeyed_spec s new hc hnew
  have hM : s.mapped.Nodup := hc.2.2.1
  have hM' : s'.mapped.Nodup := sp.coh.2.2.1
  have hlt : ∀ t ∈ s.mapped, t < s.next := hc.2.2.2.1
  have hdom := domUpdate_layout hs hM hM'
  have hnb := nodesBetween_layout hs hM
  have hnb' := nodesBetween_layout hs hM'
  refine ⟨⟨s', layout pre post s'.mapped⟩, by simp [keyedDomStep, hstep, hdom], ?_⟩
  constructor
  · exact ⟨sp.coh, rfl⟩
  · exact ⟨evs, hstep, sp⟩
  · exact sp.items
  · exact hnb'
  · simp only [hnb', List.length_map]; exact sp.length
  · simp only [hnb']; rfl
  · exact layout_nodup hs hM'
  · intro i j a b hi hj hk
    dsimp only at hi ⊢
    have hil : i < s.mapped.length := by
      have := (List.getElem?_eq_some_iff.mp hi).1
      have := hc.1; omega
    have e := sp.kept i j a b hi hj hk
    refine ⟨s.mapped[i] + 10, ?_, ?_⟩
    · simp only [hnb]; exact getElem?_map_node.mpr ⟨_, by simp [hil], rfl⟩
    · simp only [hnb']; exact getElem?_map_node.mpr ⟨_, by rw [e]; simp [hil], rfl⟩
  · intro j b hj hk
    dsimp only at hk ⊢
    obtain ⟨c, e, h1, _, _⟩ := sp.fresh j b hj hk
    refine ⟨c, e, h1, ?_, ?_⟩
    · simp only [hnb']; exact getElem?_map_node.mpr ⟨c, e, rfl⟩
    · simp only [node_mem_layout hs]
      intro hm; have := hlt c hm; omega
  · intro i a n hi hk hn
    dsimp only at hi hn ⊢
    simp only [hnb] at hn
    obtain ⟨t, ht, rfl⟩ := getElem?_map_node.mp hn
    simp only [node_mem_layout hs]
    intro hm
    obtain ⟨j, hj⟩ := List.mem_iff_getElem?.mp hm
    have hjl : j < new.length := by
      have := (List.getElem?_eq_some_iff.mp hj).1
      have := sp.length; omega
    have hb : new[j]? = some new[j] := by simp [hjl]
    by_cases hkI : new[j].key ∈ keys s.items
    · obtain ⟨i', a', hi', hk'⟩ := mem_keys.mp hkI
      have e := sp.kept i' j a' _ hi' hb hk'
      rw [hj] at e
      have := nodup_getElem?_inj hM e.symm ht
      subst this
      rw [hi] at hi'; cases hi'
      exact hk (mem_keys.mpr ⟨j, _, hb, hk'.symm⟩)
    · obtain ⟨c, e, h1, _, _⟩ := sp.fresh j _ hb hkI
      rw [hj] at e; cases e
      have := hlt t (List.mem_of_getElem? ht); omega

end SycVerif.KeyedDom
