/-
Property C06, component level: the `Keyed` / `Indexed` components (packages/sycamore-web/src/iter.rs)
as the composition of the two pieces proved separately:

* list mapping `map_keyed` / `map_indexed` (`Model/ListMap.lean`, theorems `mapKeyed_spec`,
  `mapIndexed_spec` of `Props/C07.lean`), and
* `reconcile_fragments` over the nodes between the two markers plus the end marker
  (`Model/Reconcile.lean`, theorem `C06_region` of `Props/C06.lean`).

The composition is the one the native driver runs (`Driver/DomDrv.lean`, `runList`/`handleList`; restated
here, the driver module is not imported): the item rendered by `map_fn` call `c` is ONE DOM node named
`c + 10`; `1` is the start marker, `2` the end marker; the other siblings (`0` = text "pre", `3` = text
"post" in the driver) are generalised to arbitrary lists `pre`/`post` of ids `< 10` different from the
markers. On every list update: `old := nodesBetween ch 1 2`, `new := mapped'.map (· + 10)`,
`ch' := reconcile ch (old ++ [2]) (new ++ [2])`.
-/
import SycVerif.Props.C07
import SycVerif.Props.C06
namespace SycVerif.KeyedDom
open SycVerif.ListMap SycVerif.Reconcile

/-! ## The composed components -/

/-! The DOM node rendered by `map_fn` call `c` is named `c + 10`. -/

inductive CompErr where
  | map (p : Panic)        -- the list-mapping `update` closure panicked
  | dom (e : DomErr)       -- `reconcile_fragments` failed (DOM exception / slice panic)
  deriving DecidableEq, Repr

/-- `Keyed`: the `map_keyed` closure state + the children of the list's parent -/
structure KeyedDom where
  s : KState
  ch : List Nat

/-- `Indexed`: the `map_indexed` closure state + the children of the list's parent -/
structure IndexedDom where
  s : IState
  ch : List Nat

/-- what the effect of `Keyed`/`Indexed` does with the freshly mapped list: `get_nodes_between(start, end)`,
push the end marker on both sides, `reconcile_fragments` -/
def domUpdate (ch : List Nat) (mapped' : List Nat) : Except CompErr (List Nat) :=
  let old := nodesBetween ch 1 2
  match reconcile ch (old ++ [2]) (mapped'.map (· + 10) ++ [2]) with
  | .error e => .error (.dom e)
  | .ok ch' => .ok ch'

/-- one update of a mounted `Keyed` -/
def keyedDomStep (d : KeyedDom) (new : List Item) : Except CompErr KeyedDom :=
  match mapKeyedStep d.s new with
  | .error p => .error (.map p)
  | .ok (s', _) =>
    match domUpdate d.ch s'.mapped with
    | .error e => .error e
    | .ok ch' => .ok ⟨s', ch'⟩

/-- one update of a mounted `Indexed` -/
def indexedDomStep (d : IndexedDom) (new : List Item) : Except CompErr IndexedDom :=
  match mapIndexedStep d.s new with
  | .error p => .error (.map p)
  | .ok (s', _) =>
    match domUpdate d.ch s'.mapped with
    | .error e => .error e
    | .ok ch' => .ok ⟨s', ch'⟩

/-- the children of the parent around a region whose content is the nodes of `mapped` -/
def layout (pre post : List Nat) (mapped : List Nat) : List Nat :=
  pre ++ [1] ++ mapped.map (· + 10) ++ [2] ++ post

/-- mounting: first run of the mapping on the initial list, the rendered nodes go between the markers -/
def keyedDomMount (pre post : List Nat) (l0 : List Item) : Except CompErr KeyedDom :=
  match mapKeyedStep KState.init l0 with
  | .error p => .error (.map p)
  | .ok (s0, _) => .ok ⟨s0, layout pre post s0.mapped⟩

def indexedDomMount (pre post : List Nat) (l0 : List Item) : Except CompErr IndexedDom :=
  match mapIndexedStep IState.init l0 with
  | .error p => .error (.map p)
  | .ok (s0, _) => .ok ⟨s0, layout pre post s0.mapped⟩

/-- the other children of the list's parent: pairwise distinct ids below 10 that are not the markers
(the driver: `pre = [0]`, `post = [3]`) -/
structure Siblings (pre post : List Nat) : Prop where
  nodup : (pre ++ post).Nodup
  small : ∀ x ∈ pre ++ post, x < 10 ∧ x ≠ 1 ∧ x ≠ 2

theorem siblings_driver : Siblings [0] [3] := by
  constructor <;> simp

/-- the invariant of a mounted `Keyed` -/
def KDInv (pre post : List Nat) (d : KeyedDom) : Prop :=
  KCoh d.s ∧ d.ch = layout pre post d.s.mapped

/-- the invariant of a mounted `Indexed` -/
def IDInv (pre post : List Nat) (d : IndexedDom) : Prop :=
  ICoh d.s ∧ d.ch = layout pre post d.s.mapped

/-- the driver's shape: `[0, 1] ++ mapped.map (· + 10) ++ [2, 3]` -/
theorem layout_driver (mapped : List Nat) : layout [0] [3] mapped = [0, 1] ++ mapped.map (· + 10) ++ [2, 3] := by
  simp [layout]

/-! ## The DOM half, for any two duplicate-free lists of call ids -/

theorem mem_layout {pre post M : List Nat} {x : Nat} :
    x ∈ layout pre post M ↔ x ∈ pre ∨ x = 1 ∨ (∃ c ∈ M, x = c + 10) ∨ x = 2 ∨ x ∈ post := by
  simp only [layout, List.mem_append, List.mem_singleton, List.mem_map]
  constructor
  · rintro ((((h | h) | ⟨c, hc, rfl⟩) | h) | h) <;> simp_all
  · rintro (h | h | ⟨c, hc, rfl⟩ | h | h) <;> simp_all

theorem nodup_map_node {M : List Nat} (h : M.Nodup) : (M.map (· + 10)).Nodup := by
  exact List.Pairwise.map _ (fun a b hab e => hab (by simpa using e)) h

theorem layout_nodup {pre post M : List Nat} (hs : Siblings pre post) (hM : M.Nodup) :
    (layout pre post M).Nodup := by
  have h1 := hs.nodup
  have h2 := hs.small
  have h3 := nodup_map_node hM
  simp only [layout, List.nodup_append, List.mem_append, List.mem_singleton, List.mem_map,
    List.nodup_cons, List.not_mem_nil, List.nodup_nil] at h1 h2 ⊢
  grind

theorem nodesBetween_layout {pre post M : List Nat} (hs : Siblings pre post) (hM : M.Nodup) :
    nodesBetween (layout pre post M) 1 2 = M.map (· + 10) :=
  nodesBetween_region pre (M.map (· + 10)) post 1 2 (layout_nodup hs hM)

/-- the DOM half of an update: whatever the two duplicate-free lists of call ids, the update does not
fail and the children become the layout of the new list -/
theorem domUpdate_layout {pre post M M' : List Nat} (hs : Siblings pre post) (hM : M.Nodup) (hM' : M'.Nodup) :
    domUpdate (layout pre post M) M' = .ok (layout pre post M') := by
  have hnd := layout_nodup hs hM
  have hnew : (M'.map (· + 10) ++ [2]).Nodup := by
    have := nodup_map_node hM'
    simp only [List.nodup_append, List.mem_map, List.mem_singleton, List.nodup_cons, List.not_mem_nil,
      List.nodup_nil]
    grind
  have hfresh : ∀ x ∈ M'.map (· + 10), x ∉ M.map (· + 10) → x ∉ pre ∧ x ∉ post ∧ x ≠ 1 := by
    intro x hx _
    obtain ⟨c, _, rfl⟩ := List.mem_map.mp hx
    have := hs.small
    simp only [List.mem_append] at this
    refine ⟨fun h => ?_, fun h => ?_, by omega⟩
    · have := (this _ (Or.inl h)).1; omega
    · have := (this _ (Or.inr h)).1; omega
  obtain ⟨h1, h2⟩ := C06_region pre (M.map (· + 10)) (M'.map (· + 10)) post 1 2 hnd hnew hfresh
  simp only [domUpdate, layout, h1, h2]

/-- a rendered node (id `c + 10`) is a child of the laid-out parent iff its call is in the mapped list -/
theorem node_mem_layout {pre post M : List Nat} (hs : Siblings pre post) {c : Nat} :
    c + 10 ∈ layout pre post M ↔ c ∈ M := by
  have h2 := hs.small
  simp only [List.mem_append] at h2
  rw [mem_layout]
  constructor
  · rintro (h | h | ⟨c', hc, e⟩ | h | h)
    · have := (h2 _ (Or.inl h)).1; omega
    · omega
    · have : c = c' := by omega
      subst this; exact hc
    · omega
    · have := (h2 _ (Or.inr h)).1; omega
  · intro h; exact Or.inr (Or.inr (Or.inl ⟨c, h, rfl⟩))

theorem getElem?_map_node {M : List Nat} {j n : Nat} :
    (M.map (· + 10))[j]? = some n ↔ ∃ c, M[j]? = some c ∧ n = c + 10 := by
  simp only [List.getElem?_map, Option.map_eq_some_iff]
  constructor
  · rintro ⟨c, h, rfl⟩; exact ⟨c, h, rfl⟩
  · rintro ⟨c, h, rfl⟩; exact ⟨c, h, rfl⟩

/-! ## `Keyed` -/

/-- What one update of a mounted `Keyed` establishes. `nodesBetween d.ch 1 2` is the list of the children
between the two markers; position `j` of it renders position `j` of the list. -/
structure KeyedRegionSpec (pre post : List Nat) (d : KeyedDom) (new : List Item) (d' : KeyedDom) : Prop where
  /-- the invariant is re-established -/
  inv : KDInv pre post d'
  /-- the mapping half is the `map_keyed` update, with its own specification -/
  mapping : ∃ evs, mapKeyedStep d.s new = .ok (d'.s, evs) ∧ KeyedSpec d.s new d'.s evs
  items : d'.s.items = new
  /-- the children between the markers are exactly the nodes of the new list's items, in order -/
  region : nodesBetween d'.ch 1 2 = d'.s.mapped.map (· + 10)
  regionLength : (nodesBetween d'.ch 1 2).length = new.length
  /-- `pre`, the markers and `post` are in place around the region; nothing is duplicated -/
  children : d'.ch = pre ++ [1] ++ nodesBetween d'.ch 1 2 ++ [2] ++ post
  nodup : d'.ch.Nodup
  /-- an item whose key was in the old list is rendered by the VERY SAME node as before, whatever its
  old and new positions and even if its payload changed -/
  kept : ∀ (i j : Nat) (a b : Item), d.s.items[i]? = some a → new[j]? = some b → a.key = b.key →
    ∃ n, (nodesBetween d.ch 1 2)[i]? = some n ∧ (nodesBetween d'.ch 1 2)[j]? = some n
  /-- an item whose key enters is rendered by a node that was not a child before (the node of a fresh call) -/
  entered : ∀ (j : Nat) (b : Item), new[j]? = some b → b.key ∉ keys d.s.items →
    ∃ c, d'.s.mapped[j]? = some c ∧ d.s.next ≤ c ∧ (nodesBetween d'.ch 1 2)[j]? = some (c + 10) ∧ c + 10 ∉ d.ch
  /-- the node of a key that left is no longer a child -/
  left : ∀ (i : Nat) (a : Item) (n : Nat), d.s.items[i]? = some a → a.key ∉ keys new →
    (nodesBetween d.ch 1 2)[i]? = some n → n ∉ d'.ch

/-- **C06 for `Keyed`.** From a state satisfying the invariant, an update with unique keys does not fail
(neither the mapping closure panics nor a DOM call throws) and the resulting children satisfy
`KeyedRegionSpec`. -/
theorem C06_keyed_region {pre post : List Nat} (hs : Siblings pre post) (d : KeyedDom) (new : List Item)
    (h : KDInv pre post d) (hnew : (keys new).Nodup) :
    ∃ d', keyedDomStep d new = .ok d' ∧ KeyedRegionSpec pre post d new d' := by
  obtain ⟨s, ch⟩ := d
  obtain ⟨hc, hch⟩ := h
  simp only at hc hch
  subst hch
  obtain ⟨s', evs, hstep, sp⟩ := mapKeyed_spec s new hc hnew
  have hM : s.mapped.Nodup := hc.2.2.1
  have hM' : s'.mapped.Nodup := sp.coh.2.2.1
  have hlt : ∀ t ∈ s.mapped, t < s.next := hc.2.2.2.1
  have hdom := domUpdate_layout hs hM hM'
  have hnb := nodesBetween_layout hs hM
  have hnb' := nodesBetween_layout hs hM'
  refine ⟨⟨s', layout pre post s'.mapped⟩, by simp [keyedDomStep, hstep, hdom], ?_⟩
  constructor
  · exact ⟨sp.coh, rfl⟩
  · exact ⟨evs, hstep, sp⟩
  · exact sp.items
  · exact hnb'
  · simp only [hnb', List.length_map]; exact sp.length
  · simp only [hnb']; rfl
  · exact layout_nodup hs hM'
  · intro i j a b hi hj hk
    dsimp only at hi ⊢
    have hil : i < s.mapped.length := by
      have := (List.getElem?_eq_some_iff.mp hi).1
      have := hc.1; omega
    have e := sp.kept i j a b hi hj hk
    refine ⟨s.mapped[i] + 10, ?_, ?_⟩
    · simp only [hnb]; exact getElem?_map_node.mpr ⟨_, by simp [hil], rfl⟩
    · simp only [hnb']; exact getElem?_map_node.mpr ⟨_, by rw [e]; simp [hil], rfl⟩
  · intro j b hj hk
    dsimp only at hk ⊢
    obtain ⟨c, e, h1, _, _⟩ := sp.fresh j b hj hk
    refine ⟨c, e, h1, ?_, ?_⟩
    · simp only [hnb']; exact getElem?_map_node.mpr ⟨c, e, rfl⟩
    · simp only [node_mem_layout hs]
      intro hm; have := hlt c hm; omega
  · intro i a n hi hk hn
    dsimp only at hi hn ⊢
    simp only [hnb] at hn
    obtain ⟨t, ht, rfl⟩ := getElem?_map_node.mp hn
    simp only [node_mem_layout hs]
    intro hm
    obtain ⟨j, hj⟩ := List.mem_iff_getElem?.mp hm
    have hjl : j < new.length := by
      have := (List.getElem?_eq_some_iff.mp hj).1
      have := sp.length; omega
    have hb : new[j]? = some new[j] := by simp [hjl]
    by_cases hkI : new[j].key ∈ keys s.items
    · obtain ⟨i', a', hi', hk'⟩ := mem_keys.mp hkI
      have e := sp.kept i' j a' _ hi' hb hk'
      rw [hj] at e
      have := nodup_getElem?_inj hM e.symm ht
      subst this
      rw [hi] at hi'; cases hi'
      exact hk (mem_keys.mpr ⟨j, _, hb, hk'.symm⟩)
    · obtain ⟨c, e, h1, _, _⟩ := sp.fresh j _ hb hkI
      rw [hj] at e; cases e
      have := hlt t (List.mem_of_getElem? ht); omega

/-! ### histories of a mounted `Keyed` -/

/-- mounting on a list with unique keys succeeds and establishes the invariant -/
theorem keyedDomMount_inv {pre post : List Nat} (l0 : List Item) (h0 : (keys l0).Nodup) :
    ∃ d0, keyedDomMount pre post l0 = .ok d0 ∧ KDInv pre post d0 ∧ d0.s.items = l0 := by
  have hc0 : KCoh KState.init := by simp [KCoh, KState.init, keys]
  obtain ⟨s0, evs, hstep, sp⟩ := mapKeyed_spec KState.init l0 hc0 h0
  exact ⟨⟨s0, layout pre post s0.mapped⟩, by simp [keyedDomMount, hstep], ⟨sp.coh, rfl⟩, sp.items⟩

/-- the states of a `Keyed` reachable from a mount by updates with unique keys -/
inductive KDReach (pre post : List Nat) : KeyedDom → Prop
  | mount {l0 : List Item} {d : KeyedDom} :
      (keys l0).Nodup → keyedDomMount pre post l0 = .ok d → KDReach pre post d
  | step {d d' : KeyedDom} {new : List Item} :
      KDReach pre post d → (keys new).Nodup → keyedDomStep d new = .ok d' → KDReach pre post d'

/-- `Renders d k n`: the list contains an item with key `k` and the child `n` between the markers, at
that item's position, renders it -/
def Renders (d : KeyedDom) (k n : Nat) : Prop :=
  ∃ (j : Nat) (it : Item), d.s.items[j]? = some it ∧ it.key = k ∧ (nodesBetween d.ch 1 2)[j]? = some n

/-- a chain of updates with unique keys throughout which key `k` stays in the list -/
inductive KeepsKey (k : Nat) (d : KeyedDom) : KeyedDom → Prop
  | refl : KeepsKey k d d
  | step {d' d'' : KeyedDom} {new : List Item} :
      KeepsKey k d d' → (keys new).Nodup → k ∈ keys new → keyedDomStep d' new = .ok d'' → KeepsKey k d d''

/-- under the invariant every item is rendered, by exactly one node, which is a child -/
theorem renders_total {pre post : List Nat} (hs : Siblings pre post) {d : KeyedDom} (h : KDInv pre post d)
    {j : Nat} {it : Item} (hj : d.s.items[j]? = some it) :
    ∃ n, Renders d it.key n ∧ n ∈ d.ch ∧ 10 ≤ n := by
  obtain ⟨hc, hch⟩ := h
  have hjl : j < d.s.mapped.length := by
    have := (List.getElem?_eq_some_iff.mp hj).1
    have := hc.1; omega
  have hnb := nodesBetween_layout hs hc.2.2.1
  refine ⟨d.s.mapped[j] + 10, ⟨j, it, hj, rfl, ?_⟩, ?_, by omega⟩
  · rw [hch, hnb]; exact getElem?_map_node.mpr ⟨_, by simp [hjl], rfl⟩
  · rw [hch, node_mem_layout hs]; exact List.getElem_mem hjl

theorem renders_unique {pre post : List Nat} {d : KeyedDom} (h : KDInv pre post d) {k n n' : Nat}
    (h1 : Renders d k n) (h2 : Renders d k n') : n = n' := by
  obtain ⟨j, a, hj, hk, hn⟩ := h1
  obtain ⟨j', a', hj', hk', hn'⟩ := h2
  have := keys_inj h.1.2.2.2.2 hj hj' (by rw [hk, hk'])
  subst this
  rw [hn] at hn'; exact Option.some.inj hn'

/-- **C06 for `Keyed`, along histories.** (1) Every state reachable from a mount by updates with unique
keys satisfies the invariant, hence every further update with unique keys succeeds and satisfies
`KeyedRegionSpec`. (2) Along every chain of such updates throughout which a key stays in the list, the
node that renders the key stays the very same node. -/
theorem C06_keyed_history {pre post : List Nat} (hs : Siblings pre post) :
    (∀ d, KDReach pre post d →
      KDInv pre post d ∧
      ∀ new, (keys new).Nodup → ∃ d', keyedDomStep d new = .ok d' ∧ KeyedRegionSpec pre post d new d') ∧
    (∀ (k : Nat) (d d' : KeyedDom), KDInv pre post d → KeepsKey k d d' →
      KDInv pre post d' ∧ ∀ n, Renders d k n → Renders d' k n) := by
  constructor
  · intro d hr
    have hinv : KDInv pre post d := by
      induction hr with
      | mount h0 hm =>
        obtain ⟨d0, e, hi, _⟩ := keyedDomMount_inv (pre := pre) (post := post) _ h0
        rw [hm] at e; cases e; exact hi
      | step _ hnew hstep ih =>
        obtain ⟨d2, e, sp⟩ := C06_keyed_region hs _ _ ih hnew
        rw [hstep] at e; cases e; exact sp.inv
    exact ⟨hinv, fun new hnew => C06_keyed_region hs d new hinv hnew⟩
  · intro k d d' hinv hchain
    induction hchain with
    | refl => exact ⟨hinv, fun n h => h⟩
    | @step d2 d3 new _ hnew hk hstep ih =>
      obtain ⟨hinv1, ih⟩ := ih
      obtain ⟨d4, e, sp⟩ := C06_keyed_region hs _ _ hinv1 hnew
      rw [hstep] at e; cases e
      refine ⟨sp.inv, ?_⟩
      intro n hn
      obtain ⟨i, a, hi, hka, hni⟩ := ih n hn
      obtain ⟨j, b, hj, hkb⟩ := mem_keys.mp hk
      obtain ⟨m, hm1, hm2⟩ := sp.kept i j a b hi hj (by rw [hka, hkb])
      rw [hni] at hm1; cases hm1
      exact ⟨j, b, by rw [sp.items]; exact hj, hkb, hm2⟩

/-- the reachable states together with the `born` log of `Props/C07.lean` (`born k` = the id of the
`map_fn` call made in the update in which key `k` most recently entered the list) -/
inductive KDReachB (pre post : List Nat) : KeyedDom → (Nat → Option Nat) → Prop
  | mount {l0 : List Item} {d : KeyedDom} {evs : List Ev} :
      (keys l0).Nodup → mapKeyedStep KState.init l0 = .ok (d.s, evs) → keyedDomMount pre post l0 = .ok d →
      KDReachB pre post d (bornStep (fun _ => none) l0 evs)
  | step {d d' : KeyedDom} {born : Nat → Option Nat} {new : List Item} {evs : List Ev} :
      KDReachB pre post d born → (keys new).Nodup → mapKeyedStep d.s new = .ok (d'.s, evs) →
      keyedDomStep d new = .ok d' → KDReachB pre post d' (bornStep born new evs)

theorem KDReachB.reach {pre post : List Nat} {d : KeyedDom} {born : Nat → Option Nat}
    (h : KDReachB pre post d born) : KDReach pre post d ∧ KReach d.s born := by
  induction h with
  | mount h0 hs hm => exact ⟨.mount h0 hm, .step .init h0 hs⟩
  | step _ hnew hs hstep ih => exact ⟨.step ih.1 hnew hstep, .step ih.2 hnew hs⟩

/-- **The node of a key is the node created when the key most recently entered.** Along any history, the
child between the markers at the position of an item with key `k` is the node `born k + 10`. -/
theorem C06_keyed_history_born {pre post : List Nat} (hs : Siblings pre post) {d : KeyedDom}
    {born : Nat → Option Nat} (h : KDReachB pre post d born) :
    ∀ (j : Nat) (it : Item), d.s.items[j]? = some it →
      ∃ c, born it.key = some c ∧ (nodesBetween d.ch 1 2)[j]? = some (c + 10) := by
  obtain ⟨hr, hk⟩ := h.reach
  obtain ⟨⟨hc, hch⟩, _⟩ := (C06_keyed_history hs).1 d hr
  obtain ⟨_, htr, _, _⟩ := mapKeyed_history hk
  intro j it hj
  obtain ⟨e1, e2⟩ := htr j it hj
  obtain ⟨c, hcb⟩ := Option.isSome_iff_exists.mp e2
  refine ⟨c, hcb, ?_⟩
  rw [hch, nodesBetween_layout hs hc.2.2.1]
  exact getElem?_map_node.mpr ⟨c, by rw [e1, hcb], rfl⟩

/-! ## `Indexed` -/

/-- What one update of a mounted `Indexed` establishes. -/
structure IndexedRegionSpec (pre post : List Nat) (d : IndexedDom) (new : List Item) (d' : IndexedDom) : Prop where
  inv : IDInv pre post d'
  /-- the mapping half is the `map_indexed` update, with its own specification -/
  mapping : ∃ evs, mapIndexedStep d.s new = .ok (d'.s, evs) ∧ IndexedSpec d.s new d'.s evs
  items : d'.s.items = new
  /-- the children between the markers are exactly the nodes of the new list's positions, in order -/
  region : nodesBetween d'.ch 1 2 = d'.s.mapped.map (· + 10)
  regionLength : (nodesBetween d'.ch 1 2).length = new.length
  /-- `pre`, the markers and `post` are in place around the region; nothing is duplicated -/
  children : d'.ch = pre ++ [1] ++ nodesBetween d'.ch 1 2 ++ [2] ++ post
  nodup : d'.ch.Nodup
  /-- a position whose value is unchanged keeps its node -/
  reused : ∀ j : Nat, j < new.length → d.s.items[j]? = new[j]? →
    ∃ n, (nodesBetween d.ch 1 2)[j]? = some n ∧ (nodesBetween d'.ch 1 2)[j]? = some n
  /-- a position whose value changed or that is new is rendered by a node that was not a child before -/
  fresh : ∀ j : Nat, j < new.length → d.s.items[j]? ≠ new[j]? →
    ∃ c, d'.s.mapped[j]? = some c ∧ d.s.next ≤ c ∧ (nodesBetween d'.ch 1 2)[j]? = some (c + 10) ∧ c + 10 ∉ d.ch
  /-- the old node of a position that is truncated or whose value changed is no longer a child -/
  gone : ∀ (j n : Nat), (new.length ≤ j ∨ d.s.items[j]? ≠ new[j]?) →
    (nodesBetween d.ch 1 2)[j]? = some n → n ∉ d'.ch

/-- **C06 for `Indexed`.** From a state satisfying the invariant, every update succeeds and the resulting
children satisfy `IndexedRegionSpec`. -/
theorem C06_indexed_region {pre post : List Nat} (hs : Siblings pre post) (d : IndexedDom) (new : List Item)
    (h : IDInv pre post d) :
    ∃ d', indexedDomStep d new = .ok d' ∧ IndexedRegionSpec pre post d new d' := by
  obtain ⟨s, ch⟩ := d
  obtain ⟨hc, hch⟩ := h
  simp only at hc hch
  subst hch
  obtain ⟨s', evs, hstep, sp⟩ := mapIndexed_spec s new hc
  have hM : s.mapped.Nodup := hc.2.2.2
  have hM' : s'.mapped.Nodup := sp.coh.2.2.2
  have hlt : ∀ t ∈ s.mapped, t < s.next := hc.2.2.1
  have hdom := domUpdate_layout hs hM hM'
  have hnb := nodesBetween_layout hs hM
  have hnb' := nodesBetween_layout hs hM'
  refine ⟨⟨s', layout pre post s'.mapped⟩, by simp [indexedDomStep, hstep, hdom], ?_⟩
  constructor
  · exact ⟨sp.coh, rfl⟩
  · exact ⟨evs, hstep, sp⟩
  · exact sp.items
  · exact hnb'
  · simp only [hnb', List.length_map]; exact sp.length
  · simp only [hnb']; rfl
  · exact layout_nodup hs hM'
  · intro j hj he
    dsimp only at he ⊢
    have hjl : j < s.mapped.length := by
      have : s.items[j]? ≠ none := by rw [he]; simp [hj]
      have : j < s.items.length := by simpa using this
      have := hc.1; omega
    have e := sp.reused j hj he
    refine ⟨s.mapped[j] + 10, ?_, ?_⟩
    · simp only [hnb]; exact getElem?_map_node.mpr ⟨_, by simp [hjl], rfl⟩
    · simp only [hnb']; exact getElem?_map_node.mpr ⟨_, by rw [e]; simp [hjl], rfl⟩
  · intro j hj hne
    dsimp only at hne ⊢
    obtain ⟨c, e, h1, _, _⟩ := sp.fresh j hj hne
    refine ⟨c, e, h1, ?_, ?_⟩
    · simp only [hnb']; exact getElem?_map_node.mpr ⟨c, e, rfl⟩
    · simp only [node_mem_layout hs]
      intro hm; have := hlt c hm; omega
  · intro j n hcase hn
    dsimp only at hcase hn ⊢
    simp only [hnb] at hn
    obtain ⟨t, ht, rfl⟩ := getElem?_map_node.mp hn
    simp only [node_mem_layout hs]
    intro hm
    obtain ⟨j', hj'⟩ := List.mem_iff_getElem?.mp hm
    have hj'l : j' < new.length := by
      have := (List.getElem?_eq_some_iff.mp hj').1
      have := sp.length; omega
    by_cases he : s.items[j']? = new[j']?
    · have e := sp.reused j' hj'l he
      rw [hj'] at e
      have := nodup_getElem?_inj hM e.symm ht
      subst this
      rcases hcase with hcase | hcase
      · omega
      · exact hcase he
    · obtain ⟨c, e, h1, _, _⟩ := sp.fresh j' hj'l he
      rw [hj'] at e; cases e
      have := hlt t (List.mem_of_getElem? ht); omega

/-! ### histories of a mounted `Indexed` -/

theorem indexedDomMount_inv {pre post : List Nat} (l0 : List Item) :
    ∃ d0, indexedDomMount pre post l0 = .ok d0 ∧ IDInv pre post d0 ∧ d0.s.items = l0 := by
  have hc0 : ICoh IState.init := by simp [ICoh, IState.init]
  obtain ⟨s0, evs, hstep, sp⟩ := mapIndexed_spec IState.init l0 hc0
  exact ⟨⟨s0, layout pre post s0.mapped⟩, by simp [indexedDomMount, hstep], ⟨sp.coh, rfl⟩, sp.items⟩

/-- the states of an `Indexed` reachable from a mount by any updates -/
inductive IDReach (pre post : List Nat) : IndexedDom → Prop
  | mount {l0 : List Item} {d : IndexedDom} : indexedDomMount pre post l0 = .ok d → IDReach pre post d
  | step {d d' : IndexedDom} {new : List Item} :
      IDReach pre post d → indexedDomStep d new = .ok d' → IDReach pre post d'

/-- a chain of updates throughout which position `j` exists and keeps its value -/
inductive KeepsPos (j : Nat) (d : IndexedDom) : IndexedDom → Prop
  | refl : KeepsPos j d d
  | step {d' d'' : IndexedDom} {new : List Item} :
      KeepsPos j d d' → j < new.length → d'.s.items[j]? = new[j]? → indexedDomStep d' new = .ok d'' →
      KeepsPos j d d''

/-- **C06 for `Indexed`, along histories.** (1) Every state reachable from a mount satisfies the invariant,
hence every further update succeeds and satisfies `IndexedRegionSpec`. (2) Along every chain of updates
throughout which a position keeps its value, the node at that position stays the very same node. -/
theorem C06_indexed_history {pre post : List Nat} (hs : Siblings pre post) :
    (∀ d, IDReach pre post d →
      IDInv pre post d ∧
      ∀ new, ∃ d', indexedDomStep d new = .ok d' ∧ IndexedRegionSpec pre post d new d') ∧
    (∀ (j : Nat) (d d' : IndexedDom), IDInv pre post d → KeepsPos j d d' →
      IDInv pre post d' ∧ d'.s.items[j]? = d.s.items[j]? ∧
      ∀ n, (nodesBetween d.ch 1 2)[j]? = some n → (nodesBetween d'.ch 1 2)[j]? = some n) := by
  constructor
  · intro d hr
    have hinv : IDInv pre post d := by
      induction hr with
      | mount hm =>
        obtain ⟨d0, e, hi, _⟩ := indexedDomMount_inv (pre := pre) (post := post) _
        rw [hm] at e; cases e; exact hi
      | step _ hstep ih =>
        obtain ⟨d2, e, sp⟩ := C06_indexed_region hs _ _ ih
        rw [hstep] at e; cases e; exact sp.inv
    exact ⟨hinv, fun new => C06_indexed_region hs d new hinv⟩
  · intro j d d' hinv hchain
    induction hchain with
    | refl => exact ⟨hinv, rfl, fun n h => h⟩
    | @step d2 d3 new _ hj he hstep ih =>
      obtain ⟨hinv1, hit, ih⟩ := ih
      obtain ⟨d4, e, sp⟩ := C06_indexed_region hs _ _ hinv1
      rw [hstep] at e; cases e
      refine ⟨sp.inv, by rw [sp.items, ← he, hit], ?_⟩
      intro n hn
      obtain ⟨m, hm1, hm2⟩ := sp.reused j hj he
      rw [ih n hn] at hm1; cases hm1
      exact hm2

/-! ## The driver's instance and non-vacuity -/

/-- the driver's children list: `[0, 1] ++ mapped.map (· + 10) ++ [2, 3]` -/
theorem C06_keyed_region_driver (d : KeyedDom) (new : List Item)
    (h : KCoh d.s ∧ d.ch = [0, 1] ++ d.s.mapped.map (· + 10) ++ [2, 3]) (hnew : (keys new).Nodup) :
    ∃ d', keyedDomStep d new = .ok d' ∧
      (KCoh d'.s ∧ d'.ch = [0, 1] ++ d'.s.mapped.map (· + 10) ++ [2, 3]) ∧
      KeyedRegionSpec [0] [3] d new d' := by
  obtain ⟨d', h1, sp⟩ := C06_keyed_region siblings_driver d new ⟨h.1, by rw [h.2, layout_driver]⟩ hnew
  exact ⟨d', h1, ⟨sp.inv.1, by rw [sp.inv.2, layout_driver]⟩, sp⟩

theorem C06_indexed_region_driver (d : IndexedDom) (new : List Item)
    (h : ICoh d.s ∧ d.ch = [0, 1] ++ d.s.mapped.map (· + 10) ++ [2, 3]) :
    ∃ d', indexedDomStep d new = .ok d' ∧
      (ICoh d'.s ∧ d'.ch = [0, 1] ++ d'.s.mapped.map (· + 10) ++ [2, 3]) ∧
      IndexedRegionSpec [0] [3] d new d' := by
  obtain ⟨d', h1, sp⟩ := C06_indexed_region siblings_driver d new ⟨h.1, by rw [h.2, layout_driver]⟩
  exact ⟨d', h1, ⟨sp.inv.1, by rw [sp.inv.2, layout_driver]⟩, sp⟩

/-- mount `[1,2,3]`: nodes 10, 11, 12 between the markers -/
example : (keyedDomMount [0] [3] [⟨1, 0⟩, ⟨2, 0⟩, ⟨3, 0⟩]).toOption.map (·.ch) = some [0, 1, 10, 11, 12, 2, 3] := by
  decide

/-- `[1,2,3] → [3,4,1']`: key 3 keeps node 12, key 1 keeps node 10 (payload changed), key 4 gets the new
node 13, node 11 (key 2) is gone -/
example :
    (keyedDomStep ⟨⟨[⟨1, 0⟩, ⟨2, 0⟩, ⟨3, 0⟩], [0, 1, 2], [some 0, some 1, some 2], 3⟩, [0, 1, 10, 11, 12, 2, 3]⟩
      [⟨3, 0⟩, ⟨4, 0⟩, ⟨1, 1⟩]).toOption.map (·.ch) = some [0, 1, 12, 13, 10, 2, 3] := by
  decide

/-- `Indexed`, `[a,b,c] → [a,b',c,d]`: positions 0 and 2 keep nodes 10 and 12, position 1 gets node 13,
the new position 3 gets node 14 -/
example :
    (indexedDomStep ⟨⟨[⟨1, 0⟩, ⟨2, 0⟩, ⟨3, 0⟩], [0, 1, 2], [0, 1, 2], 3⟩, [0, 1, 10, 11, 12, 2, 3]⟩
      [⟨1, 0⟩, ⟨2, 5⟩, ⟨3, 0⟩, ⟨4, 0⟩]).toOption.map (·.ch) = some [0, 1, 10, 13, 12, 14, 2, 3] := by
  decide

/-- the hypotheses of `C06_keyed_region` are satisfiable -/
example : KDInv [0] [3]
    ⟨⟨[⟨1, 0⟩, ⟨2, 0⟩, ⟨3, 0⟩], [0, 1, 2], [some 0, some 1, some 2], 3⟩, [0, 1, 10, 11, 12, 2, 3]⟩ := by
  simp [KDInv, KCoh, keys, layout]

section AxiomCheck
/-- info: 'SycVerif.KeyedDom.C06_keyed_region' depends on axioms: [propext, Classical.choice, Quot.sound] -/
#guard_msgs in #print axioms C06_keyed_region
/-- info: 'SycVerif.KeyedDom.C06_keyed_history' depends on axioms: [propext, Classical.choice, Quot.sound] -/
#guard_msgs in #print axioms C06_keyed_history
/-- info: 'SycVerif.KeyedDom.C06_keyed_history_born' depends on axioms: [propext, Classical.choice, Quot.sound] -/
#guard_msgs in #print axioms C06_keyed_history_born
/-- info: 'SycVerif.KeyedDom.C06_indexed_region' depends on axioms: [propext, Classical.choice, Quot.sound] -/
#guard_msgs in #print axioms C06_indexed_region
/-- info: 'SycVerif.KeyedDom.C06_indexed_history' depends on axioms: [propext, Classical.choice, Quot.sound] -/
#guard_msgs in #print axioms C06_indexed_history
end AxiomCheck

end SycVerif.KeyedDom
