/-
Property C07: `map_keyed` and `map_indexed` (packages/sycamore-reactive/src/iter.rs), over the
phase-by-phase model `SycVerif/Model/ListMap.lean`.
-/
import SycVerif.Lemmas.ListMap
namespace SycVerif.ListMap

/-! ## A. `map_indexed` -/

/-- coherence invariant of the `map_indexed` closure state: in the model the scope created for a
position is named by the call id stored in `mapped`, so the two arrays coincide -/
def ICoh (s : IState) : Prop :=
  s.mapped.length = s.items.length ∧ s.disposers = s.mapped ∧ (∀ t ∈ s.mapped, t < s.next) ∧ s.mapped.Nodup

/-- positions of `new` whose value changed or appeared, ascending -/
def recomputed (items new : List Item) : List Nat :=
  (List.range new.length).filter (fun j => items[j]? ≠ new[j]?)

/-- positions of `new` whose value changed (they existed before), ascending -/
def replaced (items new : List Item) : List Nat :=
  (List.range new.length).filter (fun j => j < items.length ∧ items[j]? ≠ new[j]?)

theorem recomputed_eq (items new : List Item) : recomputed items new = recomputedFrom items new 0 new.length := by
  simp [recomputed, recomputedFrom, List.range_eq_range']

theorem replaced_eq (items new : List Item) : replaced items new = replacedFrom items new 0 new.length := by
  simp [replaced, replacedFrom, List.range_eq_range']

theorem mem_recomputed {items new : List Item} {j : Nat} :
    j ∈ recomputed items new ↔ j < new.length ∧ items[j]? ≠ new[j]? := by
  simp [recomputed]

theorem recomputed_sorted (items new : List Item) : (recomputed items new).Pairwise (· < ·) :=
  List.Pairwise.filter _ List.pairwise_lt_range

/-- The full specification of one `map_indexed` update. -/
structure IndexedSpec (s : IState) (new : List Item) (s' : IState) (evs : List Ev) : Prop where
  coh : ICoh s'
  items : s'.items = new
  length : s'.mapped.length = new.length
  /-- an unchanged position keeps its mapped value (and scope) -/
  reused : ∀ j : Nat, j < new.length → s.items[j]? = new[j]? → s'.mapped[j]? = s.mapped[j]?
  /-- a changed or new position is recomputed by a fresh call -/
  fresh : ∀ j : Nat, j < new.length → s.items[j]? ≠ new[j]? →
    ∃ c, s'.mapped[j]? = some c ∧ s.next ≤ c ∧ c < s'.next ∧ Ev.create c new[j]! ∈ evs
  /-- the create events: exactly one per recomputed position, in increasing position -/
  creates : creates evs = (recomputed s.items new).map (fun j => (s'.mapped[j]!, new[j]!))
  /-- … with consecutive fresh ids -/
  createIds : (recomputed s.items new).map (fun j => s'.mapped[j]!)
    = List.range' s.next (recomputed s.items new).length
  next : s'.next = s.next + (recomputed s.items new).length
  /-- the dispose events: each replaced position's old scope and each truncated scope, exactly once -/
  disposes : (disposes evs).Perm ((replaced s.items new).map (fun j => s.mapped[j]!) ++ s.mapped.drop new.length)

theorem mapIndexed_spec (s : IState) (new : List Item) (h : ICoh s) :
    ∃ s' evs, mapIndexedStep s new = .ok (s', evs) ∧ IndexedSpec s new s' evs := by
  obtain ⟨hlen, hdisp, hlt, hnd⟩ := h
  by_cases hnew : new = []
  · subst hnew
    refine ⟨_, _, rfl, ?_⟩
    constructor <;> simp [ICoh, recomputed, replaced, hdisp]
  · obtain ⟨next', mapped', evs1, h1, h2, h3, h4, h5, h6, h7, h8⟩ :=
      indexedLoop_spec s.items new new.length 0 s.next s.mapped [] rfl (Nat.zero_le _) (by simp [hlen])
    obtain ⟨evs, p1, p2, p3⟩ := popLoop_spec (s.items.length - new.length) mapped' evs1 (by omega)
    rw [List.drop_zero] at h1
    rw [← recomputed_eq] at h5 h6 h7
    rw [← replaced_eq] at h8
    have hR := @mem_recomputed s.items new
    have hk : mapped'.length - (s.items.length - new.length) = new.length := by omega
    have htake : ∀ j : Nat, j < new.length → (mapped'.take new.length)[j]? = mapped'[j]? := by
      intro j hj; simp [hj]
    have hids : (recomputed s.items new).map (fun j => mapped'[j]!) = List.range' s.next (recomputed s.items new).length := by
      have := unlift_map h6.symm
      simpa using this.symm
    have hfresh : ∀ j : Nat, j < new.length → s.items[j]? ≠ new[j]? →
        ∃ c, mapped'[j]? = some c ∧ s.next ≤ c ∧ c < next' := by
      intro j hj hne
      obtain ⟨a, ha, _, e⟩ := getElem_of_map_eq_range' hids (hR.mpr ⟨hj, hne⟩)
      refine ⟨mapped'[j]!, ?_, by omega, by omega⟩
      have : j < mapped'.length := by omega
      simp [this]
    refine ⟨⟨new, mapped'.take new.length, mapped'.take new.length, next'⟩, evs, ?_, ?_⟩
    · simp [mapIndexedStep, hnew, hdisp, h1, p1, hk]
    have hreused : ∀ j : Nat, j < new.length → s.items[j]? = new[j]? →
        mapped'[j]? = s.mapped[j]? ∧ j < s.mapped.length := by
      intro j hj he
      refine ⟨h4 j he, ?_⟩
      have : s.items[j]? ≠ none := by rw [he]; simp [hj]
      have : j < s.items.length := by simpa using this
      omega
    have hcr : creates evs = (recomputed s.items new).map (fun j => (mapped'[j]!, new[j]!)) := by
      rw [p2]
      have := unlift_pairs (by simpa using h7)
      simpa using this
    constructor
    · -- coherence
      refine ⟨by simp; omega, rfl, ?_, ?_⟩
      · intro t ht
        obtain ⟨j, hj⟩ := List.mem_iff_getElem?.mp ht
        have hj' : j < new.length := by
          have := (List.getElem?_eq_some_iff.mp hj).1; simp at this; omega
        rw [htake j hj'] at hj
        by_cases he : s.items[j]? = new[j]?
        · rw [(hreused j hj' he).1] at hj
          have := hlt t (List.mem_of_getElem? hj)
          simp only; omega
        · obtain ⟨c, e2, _, hc⟩ := hfresh j hj' he
          rw [e2] at hj; simp at hj; simp only; omega
      · apply nodup_of_getElem?_inj
        intro i j x hij hi hj
        have hjn : j < new.length := by
          have := (List.getElem?_eq_some_iff.mp hj).1; simp at this; omega
        rw [htake i (by omega)] at hi
        rw [htake j hjn] at hj
        by_cases hei : s.items[i]? = new[i]? <;> by_cases hej : s.items[j]? = new[j]?
        · rw [(hreused i (by omega) hei).1] at hi
          rw [(hreused j hjn hej).1] at hj
          have := nodup_getElem?_inj hnd hi hj; omega
        · rw [(hreused i (by omega) hei).1] at hi
          obtain ⟨c, e2, hc, _⟩ := hfresh j hjn hej
          have := hlt x (List.mem_of_getElem? hi)
          rw [e2] at hj; simp at hj; omega
        · rw [(hreused j hjn hej).1] at hj
          obtain ⟨c, e2, hc, _⟩ := hfresh i (by omega) hei
          have := hlt x (List.mem_of_getElem? hj)
          rw [e2] at hi; simp at hi; omega
        · obtain ⟨a, ha, ra, ea⟩ := getElem_of_map_eq_range' hids (hR.mpr ⟨by omega, hei⟩)
          obtain ⟨b, hb, rb, eb⟩ := getElem_of_map_eq_range' hids (hR.mpr ⟨hjn, hej⟩)
          have hil : i < mapped'.length := by omega
          have hjl : j < mapped'.length := by omega
          simp [hil] at hi ea; simp [hjl] at hj eb
          have : a = b := by omega
          subst this; omega
    · rfl
    · simp; omega
    · intro j hj he
      rw [htake j hj]; exact (hreused j hj he).1
    · intro j hj he
      obtain ⟨c, e, h1, h2⟩ := hfresh j hj he
      refine ⟨c, by rw [htake j hj]; exact e, h1, h2, ?_⟩
      rw [← mem_creates, hcr]
      refine List.mem_map.mpr ⟨j, hR.mpr ⟨hj, he⟩, ?_⟩
      have : j < mapped'.length := by omega
      simp [this] at e
      simp [e, this]
    · rw [hcr]
      apply List.map_congr_left
      intro j hj
      have := (hR.mp hj).1
      simp [List.getElem!_eq_getElem?_getD, htake j this]
    · rw [← hids]
      apply List.map_congr_left
      intro j hj
      have := (hR.mp hj).1
      simp [List.getElem!_eq_getElem?_getD, htake j this]
    · exact h5
    · rw [p3]
      have e1 : disposes evs1 = (replaced s.items new).map (fun j => s.mapped[j]!) := by
        have := unlift_map (by simpa using h8)
        simpa using this
      rw [e1, hk]
      have e2 : mapped'.drop new.length = s.mapped.drop new.length := by
        apply List.ext_getElem?
        intro i
        simp only [List.getElem?_drop]
        exact h3 _ (by omega)
      rw [e2]
      exact List.Perm.append_left _ (List.reverse_perm _)

/-- ids of the recomputed positions increase with the position -/
theorem mapIndexed_create_ids_ascending {s : IState} {new : List Item} {s' : IState} {evs : List Ev}
    (h : IndexedSpec s new s' evs) {j1 j2 : Nat} (h1 : j1 ∈ recomputed s.items new)
    (h2 : j2 ∈ recomputed s.items new) (hlt : j1 < j2) : s'.mapped[j1]! < s'.mapped[j2]! :=
  asc_of_map_eq_range' (f := fun j => s'.mapped[j]!) (recomputed_sorted _ _) h.createIds h1 h2 hlt

/-- a reused position: no event mentions its scope -/
theorem mapIndexed_reused_no_event {s : IState} {new : List Item} {s' : IState} {evs : List Ev}
    (hs : ICoh s) (h : IndexedSpec s new s' evs) {j t : Nat} (hj : j < new.length)
    (he : s.items[j]? = new[j]?) (ht : s.mapped[j]? = some t) :
    Ev.dispose t ∉ evs ∧ ∀ it, Ev.create t it ∉ evs := by
  obtain ⟨hlen, _, hlt, hnd⟩ := hs
  constructor
  · rw [← mem_disposes, h.disposes.mem_iff, List.mem_append]
    rintro (hm | hm)
    · obtain ⟨j', hj', e⟩ := List.mem_map.mp hm
      simp [replaced] at hj'
      have hj'l : j' < s.mapped.length := by omega
      have : s.mapped[j']? = some t := by rw [← e]; simp [hj'l]
      have := nodup_getElem?_inj hnd this ht
      subst this
      exact hj'.2.2 he
    · obtain ⟨k, hk⟩ := List.mem_iff_getElem?.mp hm
      rw [List.getElem?_drop] at hk
      have := nodup_getElem?_inj hnd hk ht
      omega
  · intro it hm
    rw [← mem_creates, h.creates] at hm
    obtain ⟨j', hj', e⟩ := List.mem_map.mp hm
    obtain ⟨a, _, _, e2⟩ := getElem_of_map_eq_range' h.createIds hj'
    have := hlt t (List.mem_of_getElem? ht)
    have e1 : s'.mapped[j']! = t := congrArg Prod.fst e
    have e3 : s'.mapped[j']! = s.next + a := e2
    omega

/-- a scope is disposed iff it sits at an old position that is truncated or whose value changed -/
theorem mapIndexed_mem_disposes {s : IState} {new : List Item} {s' : IState} {evs : List Ev}
    (hs : ICoh s) (h : IndexedSpec s new s' evs) {t : Nat} :
    Ev.dispose t ∈ evs ↔
      ∃ j : Nat, j < s.items.length ∧ (new.length ≤ j ∨ s.items[j]? ≠ new[j]?) ∧ s.mapped[j]? = some t := by
  obtain ⟨hlen, _, hlt, hnd⟩ := hs
  rw [← mem_disposes, h.disposes.mem_iff, List.mem_append]
  constructor
  · rintro (hm | hm)
    · obtain ⟨j, hj, e⟩ := List.mem_map.mp hm
      simp [replaced] at hj
      have hjl : j < s.mapped.length := by omega
      exact ⟨j, hj.2.1, Or.inr hj.2.2, by rw [← e]; simp [hjl]⟩
    · obtain ⟨k, hk⟩ := List.mem_iff_getElem?.mp hm
      rw [List.getElem?_drop] at hk
      have := (List.getElem?_eq_some_iff.mp hk).1
      exact ⟨new.length + k, by omega, Or.inl (by omega), hk⟩
  · rintro ⟨j, hj, hc, e⟩
    by_cases hge : new.length ≤ j
    · right
      refine List.mem_iff_getElem?.mpr ⟨j - new.length, ?_⟩
      rw [List.getElem?_drop, show new.length + (j - new.length) = j by omega]; exact e
    · left
      have hne : s.items[j]? ≠ new[j]? := by
        rcases hc with hc | hc
        · omega
        · exact hc
      refine List.mem_map.mpr ⟨j, ?_, getElem!_of_some e⟩
      simp only [replaced, List.mem_filter, List.mem_range, decide_eq_true_eq]
      exact ⟨by omega, hj, hne⟩

/-- the disposed scopes are pairwise distinct -/
theorem mapIndexed_disposes_nodup {s : IState} {new : List Item} {s' : IState} {evs : List Ev}
    (hs : ICoh s) (h : IndexedSpec s new s' evs) : (disposes evs).Nodup := by
  obtain ⟨hlen, _, hlt, hnd⟩ := hs
  rw [h.disposes.nodup_iff, drop_eq_map_range', ← List.map_append]
  apply nodup_map_getElem! hnd
  · have : (replaced s.items new ++ List.range' new.length (s.mapped.length - new.length)).Pairwise (· < ·) := by
      rw [List.pairwise_append]
      refine ⟨List.Pairwise.filter _ List.pairwise_lt_range, List.pairwise_lt_range', ?_⟩
      intro a ha b hb
      simp [replaced] at ha
      rw [List.mem_range'_1] at hb
      omega
    exact this.imp (fun h => Nat.ne_of_lt h)
  · intro i hi
    rw [List.mem_append] at hi
    rcases hi with hi | hi
    · simp [replaced] at hi; omega
    · rw [List.mem_range'_1] at hi; omega

/-- the states reachable from the initial one by any sequence of updates -/
inductive IReach : IState → Prop
  | init : IReach IState.init
  | step {s s' : IState} {new : List Item} {evs : List Ev} :
      IReach s → mapIndexedStep s new = .ok (s', evs) → IReach s'

/-- along any history the invariant holds, so every further update succeeds and satisfies the spec -/
theorem mapIndexed_history {s : IState} (h : IReach s) :
    ICoh s ∧ ∀ new, ∃ s' evs, mapIndexedStep s new = .ok (s', evs) ∧ IndexedSpec s new s' evs := by
  have hc : ICoh s := by
    induction h with
    | init => simp [ICoh, IState.init]
    | step _ hstep ih =>
      obtain ⟨s'', evs', h1, h2⟩ := mapIndexed_spec _ _ ih
      rw [hstep] at h1; cases h1
      exact h2.coh
  exact ⟨hc, fun new => mapIndexed_spec s new hc⟩

/-! ## B. `map_keyed` with unique keys -/

/-- coherence invariant of the `map_keyed` closure state (`keys l = l.map (·.key)`) -/
def KCoh (s : KState) : Prop :=
  s.mapped.length = s.items.length ∧ s.disposers = s.mapped.map some ∧ s.mapped.Nodup ∧
  (∀ t ∈ s.mapped, t < s.next) ∧ (keys s.items).Nodup

/-- The full specification of one `map_keyed` update (`entered`/`removed`: positions of `new`/`items`
whose key is absent from the other list, ascending). -/
structure KeyedSpec (s : KState) (new : List Item) (s' : KState) (evs : List Ev) : Prop where
  coh : KCoh s'
  items : s'.items = new
  length : s'.mapped.length = new.length
  /-- a key that stays keeps the value (and scope) of the call that created it, whatever its old and
  new positions and even if the payload changed -/
  kept : ∀ (i j : Nat) (a b : Item), s.items[i]? = some a → new[j]? = some b → a.key = b.key →
    s'.mapped[j]? = s.mapped[i]?
  /-- an entering key is mapped by a fresh call -/
  fresh : ∀ (j : Nat) (b : Item), new[j]? = some b → b.key ∉ keys s.items →
    ∃ c, s'.mapped[j]? = some c ∧ s.next ≤ c ∧ c < s'.next ∧ Ev.create c b ∈ evs
  /-- the create events: exactly one per entering key, in increasing position -/
  creates : creates evs = (entered s.items new).map (fun j => (s'.mapped[j]!, new[j]!))
  /-- … with consecutive fresh ids -/
  createIds : (entered s.items new).map (fun j => s'.mapped[j]!) = List.range' s.next (entered s.items new).length
  next : s'.next = s.next + (entered s.items new).length
  /-- the dispose events: exactly the scopes of the old keys absent from `new`, each once (in old order) -/
  disposes : disposes evs = (removed s.items new).map (fun i => s.mapped[i]!)

theorem mem_entered {I N : List Item} {j : Nat} :
    j ∈ entered I N ↔ j < N.length ∧ N[j]!.key ∉ keys I := by simp [entered]

theorem mem_removed {I N : List Item} {i : Nat} :
    i ∈ removed I N ↔ i < I.length ∧ I[i]!.key ∉ keys N := by simp [removed]

theorem mapKeyed_spec (s : KState) (new : List Item) (h : KCoh s) (hnew : (keys new).Nodup) :
    ∃ s' evs, mapKeyedStep s new = .ok (s', evs) ∧ KeyedSpec s new s' evs := by
  obtain ⟨I, M, D, next⟩ := s
  obtain ⟨hlen, hdisp, hnd, hlt, hI⟩ := h
  simp only at hlen hdisp hnd hlt hI
  subst hdisp
  obtain ⟨next', mapped', evs, h1, h2, h3, h4, h5, h6, h7⟩ := mapKeyed_raw I new M next hlen hI hnew
  refine ⟨_, evs, h1, ?_⟩
  have hids : (entered I new).map (fun j => mapped'[j]!) = List.range' next (entered I new).length := by
    have := unlift_map h5.symm
    simpa using this.symm
  have hcr : creates evs = (entered I new).map (fun j => (mapped'[j]!, new[j]!)) := by
    have := unlift_pairs h6
    simpa using this
  -- every position of `new` is either kept or entered
  have hcase : ∀ (j : Nat) (b : Item), new[j]? = some b →
      (∃ (i : Nat) (a : Item), I[i]? = some a ∧ a.key = b.key ∧ mapped'[j]? = M[i]? ∧ M[i]? = some M[i]!) ∨
      (b.key ∉ keys I ∧ ∃ a, ∃ _ : a < (entered I new).length, (entered I new)[a] = j ∧ mapped'[j]? = some (next + a)) := by
    intro j b hj
    have hjl : j < new.length := (List.getElem?_eq_some_iff.mp hj).1
    by_cases hk : b.key ∈ keys I
    · left
      obtain ⟨i, a, hi, hk⟩ := mem_keys.mp hk
      have : i < M.length := by have := (List.getElem?_eq_some_iff.mp hi).1; omega
      exact ⟨i, a, hi, hk, h3 i j a b hi hj hk, by simp [this]⟩
    · right
      refine ⟨hk, ?_⟩
      have hmem : j ∈ entered I new := mem_entered.mpr ⟨hjl, by rw [getElem!_of_some hj]; exact hk⟩
      obtain ⟨a, ha, e1, e2⟩ := getElem_of_map_eq_range' hids hmem
      refine ⟨a, ha, e1, ?_⟩
      have : j < mapped'.length := by omega
      simp [this] at e2 ⊢
      exact e2
  constructor
  · -- coherence
    refine ⟨h2, rfl, ?_, ?_, hnew⟩
    · apply nodup_of_getElem?_inj
      intro j1 j2 x hlt12 hx1 hx2
      have hj1 : j1 < new.length := by have := (List.getElem?_eq_some_iff.mp hx1).1; simp at this; omega
      have hj2 : j2 < new.length := by have := (List.getElem?_eq_some_iff.mp hx2).1; simp at this; omega
      have hb1 : new[j1]? = some new[j1] := by simp [hj1]
      have hb2 : new[j2]? = some new[j2] := by simp [hj2]
      simp only at hx1 hx2
      rcases hcase j1 _ hb1 with ⟨i1, a1, hi1, hk1, e1, m1⟩ | ⟨_, a1, ha1, r1, e1⟩ <;>
      rcases hcase j2 _ hb2 with ⟨i2, a2, hi2, hk2, e2, m2⟩ | ⟨_, a2, ha2, r2, e2⟩
      · rw [e1] at hx1; rw [e2] at hx2
        have := nodup_getElem?_inj hnd hx1 hx2
        subst this
        rw [hi1] at hi2; cases hi2
        have := keys_inj hnew hb1 hb2 (by rw [← hk1, ← hk2])
        omega
      · rw [e1] at hx1; rw [e2] at hx2; cases hx2
        have := hlt _ (List.mem_of_getElem? hx1); omega
      · rw [e1] at hx1; rw [e2] at hx2; cases hx1
        have := hlt _ (List.mem_of_getElem? hx2); omega
      · rw [e1] at hx1; rw [e2] at hx2; cases hx1
        simp at hx2
        have : a2 = a1 := by omega
        subst this; omega
    · intro t ht
      obtain ⟨j, hj⟩ := List.mem_iff_getElem?.mp ht
      simp only at hj
      have hjl : j < new.length := by have := (List.getElem?_eq_some_iff.mp hj).1; omega
      rcases hcase j _ (show new[j]? = some new[j] by simp [hjl]) with ⟨i, a, hi, hk, e, m⟩ | ⟨_, a, ha, r, e⟩
      · rw [e] at hj
        have := hlt _ (List.mem_of_getElem? hj); simp only; omega
      · rw [e] at hj; cases hj; simp only; omega
  · rfl
  · exact h2
  · exact h3
  · intro j b hj hk
    rcases hcase j b hj with ⟨i, a, hi, hk', _, _⟩ | ⟨_, a, ha, r, e⟩
    · exact absurd (mem_keys.mpr ⟨i, a, hi, hk'⟩) hk
    · refine ⟨next + a, e, by simp only; omega, by simp only; omega, ?_⟩
      rw [← mem_creates, hcr]
      refine List.mem_map.mpr ⟨j, r ▸ List.getElem_mem ha, ?_⟩
      simp [getElem!_of_some hj, getElem!_of_some e]
  · exact hcr
  · exact hids
  · exact h4
  · have := unlift_map h7
    simpa using this

theorem entered_sorted (I N : List Item) : (entered I N).Pairwise (· < ·) :=
  List.Pairwise.filter _ List.pairwise_lt_range

theorem removed_sorted (I N : List Item) : (removed I N).Pairwise (· < ·) :=
  List.Pairwise.filter _ List.pairwise_lt_range

/-- ids of the entering keys increase with the position -/
theorem mapKeyed_create_ids_ascending {s : KState} {new : List Item} {s' : KState} {evs : List Ev}
    (h : KeyedSpec s new s' evs) {j1 j2 : Nat} (h1 : j1 ∈ entered s.items new)
    (h2 : j2 ∈ entered s.items new) (hlt : j1 < j2) : s'.mapped[j1]! < s'.mapped[j2]! :=
  asc_of_map_eq_range' (f := fun j => s'.mapped[j]!) (entered_sorted _ _) h.createIds h1 h2 hlt

/-- a scope is disposed iff it belongs to an old item whose key is absent from `new` -/
theorem mapKeyed_mem_disposes {s : KState} {new : List Item} {s' : KState} {evs : List Ev}
    (hs : KCoh s) (h : KeyedSpec s new s' evs) {t : Nat} :
    Ev.dispose t ∈ evs ↔ ∃ (i : Nat) (a : Item), s.items[i]? = some a ∧ a.key ∉ keys new ∧ s.mapped[i]? = some t := by
  obtain ⟨hlen, _, hnd, hlt, hI⟩ := hs
  have hb : ∀ i ∈ removed s.items new, i < s.mapped.length := by
    intro i hi; have := (mem_removed.mp hi).1; omega
  rw [← mem_disposes, h.disposes, mem_map_getElem! hb]
  constructor
  · rintro ⟨i, hi, e⟩
    obtain ⟨h1, h2⟩ := mem_removed.mp hi
    have hi' : s.items[i]? = some s.items[i] := by simp [h1]
    rw [getElem!_of_some hi'] at h2
    exact ⟨i, _, hi', h2, e⟩
  · rintro ⟨i, a, hi, hk, e⟩
    refine ⟨i, mem_removed.mpr ⟨(List.getElem?_eq_some_iff.mp hi).1, ?_⟩, e⟩
    rw [getElem!_of_some hi]; exact hk

/-- each disposed scope is disposed exactly once -/
theorem mapKeyed_disposes_nodup {s : KState} {new : List Item} {s' : KState} {evs : List Ev}
    (hs : KCoh s) (h : KeyedSpec s new s' evs) : (disposes evs).Nodup := by
  obtain ⟨hlen, _, hnd, hlt, hI⟩ := hs
  rw [h.disposes]
  apply nodup_map_getElem! hnd ((removed_sorted _ _).imp (fun h => Nat.ne_of_lt h))
  intro i hi; have := (mem_removed.mp hi).1; omega

/-- no event mentions the scope of a key that stays -/
theorem mapKeyed_kept_no_event {s : KState} {new : List Item} {s' : KState} {evs : List Ev}
    (hs : KCoh s) (h : KeyedSpec s new s' evs) {i j t : Nat} {a b : Item}
    (hi : s.items[i]? = some a) (hj : new[j]? = some b) (hk : a.key = b.key) (ht : s.mapped[i]? = some t) :
    Ev.dispose t ∉ evs ∧ ∀ it, Ev.create t it ∉ evs := by
  constructor
  · rw [mapKeyed_mem_disposes hs h]
    rintro ⟨i', a', hi', hk', e⟩
    have := nodup_getElem?_inj hs.2.2.1 e ht
    subst this
    rw [hi] at hi'; cases hi'
    exact hk' (mem_keys.mpr ⟨j, b, hj, hk.symm⟩)
  · intro it hm
    rw [← mem_creates, h.creates] at hm
    obtain ⟨j', hj', e⟩ := List.mem_map.mp hm
    obtain ⟨x, _, _, e2⟩ := getElem_of_map_eq_range' h.createIds hj'
    have := hs.2.2.2.1 t (List.mem_of_getElem? ht)
    have e1 : s'.mapped[j']! = t := congrArg Prod.fst e
    have e3 : s'.mapped[j']! = s.next + x := e2
    omega

/-! ### histories -/

/-- `born k`: the id of the call made in the update in which key `k` most recently entered the list
(`none` if `k` is not in the list). It is computed from the inputs and the event log only: a key that
was present keeps its entry, a key that enters takes the id of this update's create event for it, a key
that leaves loses its entry. -/
def bornStep (born : Nat → Option Nat) (new : List Item) (evs : List Ev) : Nat → Option Nat :=
  fun k => if k ∈ keys new then
    (born k).or (((creates evs).find? (fun p => p.2.key == k)).map (·.1))
  else none

/-- the states reachable from the initial one by updates with unique keys, with the `born` log -/
inductive KReach : KState → (Nat → Option Nat) → Prop
  | init : KReach KState.init (fun _ => none)
  | step {s s' : KState} {born : Nat → Option Nat} {new : List Item} {evs : List Ev} :
      KReach s born → (keys new).Nodup → mapKeyedStep s new = .ok (s', evs) →
      KReach s' (bornStep born new evs)

/-- Along any history of updates with unique keys: the invariant holds (so every further update succeeds
and satisfies the spec), and the value stored for each key is the result of the call made when the
key most recently entered. -/
theorem mapKeyed_history {s : KState} {born : Nat → Option Nat} (h : KReach s born) :
    KCoh s ∧
    (∀ (j : Nat) (it : Item), s.items[j]? = some it → s.mapped[j]? = born it.key ∧ (born it.key).isSome) ∧
    (∀ k, k ∉ keys s.items → born k = none) ∧
    (∀ new, (keys new).Nodup → ∃ s' evs, mapKeyedStep s new = .ok (s', evs) ∧ KeyedSpec s new s' evs) := by
  have main : KCoh s ∧
      (∀ (j : Nat) (it : Item), s.items[j]? = some it → s.mapped[j]? = born it.key ∧ (born it.key).isSome) ∧
      (∀ k, k ∉ keys s.items → born k = none) := by
    induction h with
    | init => simp [KCoh, KState.init, keys]
    | @step s s' born new evs _ hnew hstep ih =>
      obtain ⟨hc, htr, habs⟩ := ih
      obtain ⟨s'', evs', h1, sp⟩ := mapKeyed_spec s new hc hnew
      rw [hstep] at h1; cases h1
      refine ⟨sp.coh, ?_, ?_⟩
      · intro j b hj
        rw [sp.items] at hj
        have hmem : b.key ∈ keys new := mem_keys.mpr ⟨j, b, hj, rfl⟩
        unfold bornStep
        rw [if_pos hmem]
        by_cases hk : b.key ∈ keys s.items
        · obtain ⟨i, a, hi, hka⟩ := mem_keys.mp hk
          obtain ⟨e1, e2⟩ := htr i a hi
          rw [hka] at e1 e2
          rw [sp.kept i j a b hi hj hka, e1]
          obtain ⟨c, hc⟩ := Option.isSome_iff_exists.mp e2
          simp [hc]
        · rw [habs _ hk]
          obtain ⟨c, e1, _, _, _⟩ := sp.fresh j b hj hk
          have hjE : j ∈ entered s.items new :=
            mem_entered.mpr ⟨(List.getElem?_eq_some_iff.mp hj).1, by rw [getElem!_of_some hj]; exact hk⟩
          have hfind : (creates evs).find? (fun p => p.2.key == b.key) = some (c, b) := by
            apply find?_unique
            · rw [sp.creates]
              exact List.mem_map.mpr ⟨j, hjE, by rw [getElem!_of_some hj, getElem!_of_some e1]⟩
            · simp
            · intro p hp hkey
              rw [sp.creates] at hp
              obtain ⟨j', hj', rfl⟩ := List.mem_map.mp hp
              have hj'l := (mem_entered.mp hj').1
              have hb' : new[j']? = some new[j'] := by simp [hj'l]
              simp only [getElem!_of_some hb', beq_iff_eq] at hkey
              have := keys_inj hnew hb' hj hkey
              subst this
              rw [getElem!_of_some hj, getElem!_of_some e1]
          rw [hfind, e1]; simp
      · intro k hk
        rw [sp.items] at hk
        unfold bornStep
        rw [if_neg hk]
  exact ⟨main.1, main.2.1, main.2.2, fun new hnew => mapKeyed_spec s new main.1 hnew⟩

/-! ## C. Non-vacuity: concrete runs -/

/-- `[1,2,3] → [3,4,1']`: key 3 and key 1 keep their values 2 and 0 (although the payload of 1 changed),
key 4 is created by call 3, the scope of key 2 (tag 1) is disposed. -/
example :
    mapKeyedStep ⟨[⟨1, 0⟩, ⟨2, 0⟩, ⟨3, 0⟩], [0, 1, 2], [some 0, some 1, some 2], 3⟩ [⟨3, 0⟩, ⟨4, 0⟩, ⟨1, 1⟩]
      = .ok (⟨[⟨3, 0⟩, ⟨4, 0⟩, ⟨1, 1⟩], [2, 3, 0], [some 2, some 3, some 0], 4⟩,
             [.dispose 1, .create 3 ⟨4, 0⟩]) := by rfl

example : KCoh ⟨[⟨1, 0⟩, ⟨2, 0⟩, ⟨3, 0⟩], [0, 1, 2], [some 0, some 1, some 2], 3⟩ := by
  simp [KCoh, keys]

/-- the hypotheses of `mapKeyed_spec` are satisfiable: it applies to this update -/
example : ∃ s' evs,
    mapKeyedStep ⟨[⟨1, 0⟩, ⟨2, 0⟩, ⟨3, 0⟩], [0, 1, 2], [some 0, some 1, some 2], 3⟩ [⟨3, 0⟩, ⟨4, 0⟩, ⟨1, 1⟩]
      = .ok (s', evs) ∧
    KeyedSpec ⟨[⟨1, 0⟩, ⟨2, 0⟩, ⟨3, 0⟩], [0, 1, 2], [some 0, some 1, some 2], 3⟩ [⟨3, 0⟩, ⟨4, 0⟩, ⟨1, 1⟩] s' evs :=
  mapKeyed_spec _ _ (by simp [KCoh, keys]) (by simp [keys])

example : entered [⟨1, 0⟩, ⟨2, 0⟩, ⟨3, 0⟩] [⟨3, 0⟩, ⟨4, 0⟩, ⟨1, 1⟩] = [1] := by decide
example : removed [⟨1, 0⟩, ⟨2, 0⟩, ⟨3, 0⟩] [⟨3, 0⟩, ⟨4, 0⟩, ⟨1, 1⟩] = [1] := by decide

/-- the three paths from the initial state: create fast path, general path, clear fast path -/
example : mapKeyedStep KState.init [⟨1, 0⟩, ⟨2, 0⟩, ⟨3, 0⟩]
    = .ok (⟨[⟨1, 0⟩, ⟨2, 0⟩, ⟨3, 0⟩], [0, 1, 2], [some 0, some 1, some 2], 3⟩,
           [.create 0 ⟨1, 0⟩, .create 1 ⟨2, 0⟩, .create 2 ⟨3, 0⟩]) := by rfl

example : mapKeyedStep ⟨[⟨3, 0⟩, ⟨4, 0⟩, ⟨1, 1⟩], [2, 3, 0], [some 2, some 3, some 0], 4⟩ []
    = .ok (⟨[], [], [], 4⟩, [.dispose 2, .dispose 3, .dispose 0]) := by rfl

/-- … and that chain is a history in the sense of `mapKeyed_history` -/
example : ∃ born, KReach ⟨[⟨3, 0⟩, ⟨4, 0⟩, ⟨1, 1⟩], [2, 3, 0], [some 2, some 3, some 0], 4⟩ born :=
  ⟨_, .step (.step .init (new := [⟨1, 0⟩, ⟨2, 0⟩, ⟨3, 0⟩]) (by simp [keys]) rfl)
    (new := [⟨3, 0⟩, ⟨4, 0⟩, ⟨1, 1⟩]) (by simp [keys]) rfl⟩

/-- `map_indexed`: `[a,b,c] → [a,b',c,d]` recomputes positions 1 and 3 only; then truncation to `[a]` -/
example : mapIndexedStep ⟨[⟨1, 0⟩, ⟨2, 0⟩, ⟨3, 0⟩], [0, 1, 2], [0, 1, 2], 3⟩ [⟨1, 0⟩, ⟨2, 5⟩, ⟨3, 0⟩, ⟨4, 0⟩]
    = .ok (⟨[⟨1, 0⟩, ⟨2, 5⟩, ⟨3, 0⟩, ⟨4, 0⟩], [0, 3, 2, 4], [0, 3, 2, 4], 5⟩,
           [.create 3 ⟨2, 5⟩, .dispose 1, .create 4 ⟨4, 0⟩]) := by rfl

example : mapIndexedStep ⟨[⟨1, 0⟩, ⟨2, 5⟩, ⟨3, 0⟩, ⟨4, 0⟩], [0, 3, 2, 4], [0, 3, 2, 4], 5⟩ [⟨1, 0⟩]
    = .ok (⟨[⟨1, 0⟩], [0], [0], 5⟩, [.dispose 4, .dispose 2, .dispose 3]) := by rfl

section AxiomCheck
/-- info: 'SycVerif.ListMap.mapIndexed_spec' depends on axioms: [propext, Classical.choice, Quot.sound] -/
#guard_msgs in #print axioms mapIndexed_spec
/-- info: 'SycVerif.ListMap.mapKeyed_spec' depends on axioms: [propext, Classical.choice, Quot.sound] -/
#guard_msgs in #print axioms mapKeyed_spec
/-- info: 'SycVerif.ListMap.mapKeyed_history' depends on axioms: [propext, Classical.choice, Quot.sound] -/
#guard_msgs in #print axioms mapKeyed_history
end AxiomCheck

end SycVerif.ListMap
