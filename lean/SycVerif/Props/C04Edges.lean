/-
C04 (subscription half) — no signal retains subscriptions of destroyed computations, and the
subscription graph stays symmetric across every primitive that edits it. Helper lemmas:
`Lemmas/Edges.lean`.
-/
import SycVerif.Lemmas.Edges
namespace SycVerif.Reactive

/-- Disposal erases the node from BOTH directions of the subscription graph (repair D2): after
`removeNode` no live node mentions the removed id among its subscribers or its dependencies, the
graph stays dangling-free and symmetric, and every other node is otherwise untouched. -/
theorem C04_dispose_unsubscribes {r : Root} (hnd : NoDangling r) (hs : EdgesSym r) (id : Id) :
    (removeNode r id).get? id = none ∧ NoDangling (removeNode r id) ∧ EdgesSym (removeNode r id) ∧
    (∀ j n, (removeNode r id).get? j = some n → id ∉ n.dependents ∧ id ∉ n.dependencies) ∧
    (∀ j, j ≠ id → (removeNode r id).get? j = (r.get? j).map (eraseId id)) := by
  obtain ⟨h1, h2, h3, h4, _, _⟩ := removeNode_spec hnd hs id
  exact ⟨h1, h2, h3, fun j n hn => removeNode_not_mem hnd hs id hn, h4⟩

/-- Re-running a computation first unsubscribes it everywhere (never fails on a well-formed arena)… -/
theorem C04_rerun_unsubscribes {r : Root} (hnd : NoDangling r) (hs : EdgesSym r) {cur : Id} {n : Node}
    (hn : r.get? cur = some n) :
    ∃ r2, unlink cur (r.setNode cur { n with dependencies := [] }) n.dependencies = .ok r2 ∧
      (∀ j m, r2.get? j = some m → cur ∉ m.dependents) ∧ NoDangling r2 ∧ EdgesSym r2 := by
  obtain ⟨r2, h1, _, h3, _, h5, h6, _⟩ := unlink_spec hnd hs hn
  exact ⟨r2, h1, h3, h5, h6⟩

/-- … and then subscribes it to exactly the live nodes it tracked in this run, as a list (order and
duplicates preserved), keeping the graph dangling-free and symmetric (C03: subscriptions equal the
tracked reads of the latest run). -/
theorem C04_link_exact {r : Root} (hnd : NoDangling r) (hs : EdgesSym r) {d : Id} {nd : Node}
    (hd : r.get? d = some nd) (hdeps : nd.dependencies = [])
    (hfresh : ∀ j nj, r.get? j = some nj → d ∉ nj.dependents) (deps : List Id) :
    (∃ nd', (createDependencyLink r deps d).get? d = some nd' ∧ nd'.dependencies = deps.filter r.alive) ∧
    NoDangling (createDependencyLink r deps d) ∧ EdgesSym (createDependencyLink r deps d) := by
  obtain ⟨_, h2, _, h4, h5, _⟩ := createDependencyLink_spec hnd hs hd hdeps hfresh deps
  exact ⟨h2, h4, h5⟩

end SycVerif.Reactive
