/-
C05 — "the DOM under the mount point after the initial render and after every subsequent signal write
equals what a fresh render of the current state would produce. Nodes that are not inside a dynamic
region whose inputs changed keep their identity: they are updated in place, never recreated."

Model: `Model/DomView.lean` (`mount`, `update`, `dom`); helpers and proofs: `Lemmas/DomView.lean`.
Everything below holds for ALL view descriptions, stores, counters and write histories — including
descriptions with `NoHydrate` (`VD.noHydrate`, mounted as `Inst.island`), which on the client behaves
exactly like a fragment (`Realizes.island`; `ids`, `stable`, `skeleton`, `noDynOn` treat it like `frag`).

Reading guide
* `Shape`/`shapes`: a document with node identities forgotten.
* `Realizes σ inst vd`: the instance tree `inst` is a mounted copy of `vd` whose dynamic views display
  the alternative selected by `σ` (recursively).
* `runWrites σ inst k ws`: the driver loop — for each `(s, v)`: `σ := σ.set s v`, then `updateList σ s`.
* `Inst.ids`: every node identity an instance owns (incl. children parked by a hidden `Show`);
  `ids`/`idsL`: identities in the document; `stable s inst`: identities NOT inside the content of a
  dynamic view on `s`; `skeleton s inst`: the instance with exactly those contents cut out.
-/
import SycVerif.Lemmas.DomView
namespace SycVerif.DomView

/-! ## Part 1 — update = fresh render (up to identities) -/

/-- `shapes` is `List.map shape` (it is defined by mutual structural recursion so that it evaluates) -/
theorem C05_shapes_def (ts : List DTree) : shapes ts = ts.map shape := shapes_eq_map ts

/-- mounting alternative number `i` is mounting the list `alts.get i` -/
theorem C05_mountAlt (σ : Store) (alts : VDAlts) (i k : Nat) :
    mountAlt σ alts i k = mountList σ (alts.get i) k := mountAlt_eq σ alts i k

/-- the initial render realises the description -/
theorem C05_mount_realizes (σ : Store) (vd : VD) (k : Nat) : Realizes σ (mount σ vd k).1 vd :=
  mount_realizes σ vd k

theorem C05_mountList_realizes (σ : Store) (vds : VDList) (k : Nat) :
    RealizesList σ (mountList σ vds k).1 vds := mountList_realizes σ vds k

theorem C05_mountAlt_realizes (σ : Store) (alts : VDAlts) (i k : Nat) :
    RealizesList σ (mountAlt σ alts i k).1 (alts.get i) := mountAlt_realizes σ alts i k

/-- any realisation of `vd` under `σ` puts in the document, up to identities, exactly what a fresh
render of `vd` under `σ` (from any counter `k`) would -/
theorem C05_realizes_shape (σ : Store) (inst : Inst) (vd : VD) (k : Nat) (h : Realizes σ inst vd) :
    shapes (dom σ inst) = shapes (dom σ (mount σ vd k).1) := realizes_shape σ inst vd k h

theorem C05_realizesList_shape (σ : Store) (inst : InstList) (vds : VDList) (k : Nat)
    (h : RealizesList σ inst vds) :
    shapes (domList σ inst) = shapes (domList σ (mountList σ vds k).1) :=
  realizesList_shape σ inst vds k h

/-- in particular a fresh render does not depend (up to identities) on the counter it starts from -/
theorem C05_fresh_render_counter_irrelevant (σ : Store) (vds : VDList) (k k' : Nat) :
    shapes (domList σ (mountList σ vds k).1) = shapes (domList σ (mountList σ vds k').1) :=
  realizesList_shape σ _ vds k' (mountList_realizes σ vds k)

/-- a write to `s` (any new store `σ'` that agrees with `σ` on every other signal) followed by
`update` keeps the instance a realisation of the same description, now under `σ'` -/
theorem C05_update_realizes (σ σ' : Store) (s : Nat) (hσ : ∀ t, t ≠ s → σ'.get t = σ.get t)
    (inst : Inst) (vd : VD) (k : Nat) (h : Realizes σ inst vd) :
    Realizes σ' (update σ' s inst k).1 vd := update_realizes σ σ' s hσ inst vd k h

theorem C05_updateList_realizes (σ σ' : Store) (s : Nat) (hσ : ∀ t, t ≠ s → σ'.get t = σ.get t)
    (inst : InstList) (vds : VDList) (k : Nat) (h : RealizesList σ inst vds) :
    RealizesList σ' (updateList σ' s inst k).1 vds := updateList_realizes σ σ' s hσ inst vds k h

/-- `List.set` satisfies that hypothesis, also when `s` is out of range (then it is a no-op) -/
theorem C05_set_agrees (σ : Store) (s v t : Nat) (h : t ≠ s) : Store.get (σ.set s v) t = σ.get t :=
  Store.get_set_ne σ s v t h

/-- one write: the document after the in-place update equals, up to identities, a fresh render under
the new store -/
theorem C05_one_write (σ : Store) (vds : VDList) (inst : InstList) (h : RealizesList σ inst vds)
    (s v k : Nat) :
    shapes (domList (σ.set s v) (updateList (σ.set s v) s inst k).1)
      = shapes (domList (σ.set s v) (mountList (σ.set s v) vds 0).1) :=
  realizesList_shape _ _ vds 0
    (updateList_realizes σ _ s (fun t ht => Store.get_set_ne σ s v t ht) inst vds k h)

/-- **C05, first sentence.** After the initial render (`ws = []`) and after every write history `ws`,
the document equals — up to node identities — a fresh render of the description under the current
store. -/
theorem C05_update_eq_fresh (vds : VDList) (σ0 : Store) (k0 : Nat) (ws : List (Nat × Nat)) :
    let r := runWrites σ0 (mountList σ0 vds k0).1 (mountList σ0 vds k0).2 ws
    shapes (domList r.1 r.2.1) = shapes (domList r.1 (mountList r.1 vds 0).1) := by
  intro r
  exact realizesList_shape r.1 r.2.1 vds 0
    (runWrites_realizes vds ws σ0 _ _ (mountList_realizes σ0 vds k0))

/-! ## Part 2 — identities -/

/-- (a) the identities allocated by a mount are distinct and are exactly taken from `[k, k')`,
`k'` the returned counter -/
theorem C05_fresh (σ : Store) (vd : VD) (k : Nat) :
    k ≤ (mount σ vd k).2
    ∧ (∀ x ∈ (mount σ vd k).1.ids, k ≤ x ∧ x < (mount σ vd k).2)
    ∧ (mount σ vd k).1.ids.Nodup := mount_fresh σ vd k

theorem C05_freshList (σ : Store) (vds : VDList) (k : Nat) :
    k ≤ (mountList σ vds k).2
    ∧ (∀ x ∈ (mountList σ vds k).1.ids, k ≤ x ∧ x < (mountList σ vds k).2)
    ∧ (mountList σ vds k).1.ids.Nodup := mountList_fresh σ vds k

/-- the identities visible in the document are identities of the instance, in the same order
(the difference is the content of hidden `Show`s) -/
theorem C05_dom_ids (σ : Store) (inst : InstList) : (idsL (domList σ inst)).Sublist inst.ids :=
  ids_domList_sublist σ inst

/-- `stable s` lists the identities of the skeleton, and they are identities of the instance -/
theorem C05_stable_def (s : Nat) (inst : Inst) :
    stable s inst = (skeleton s inst).ids ∧ (stable s inst).Sublist inst.ids :=
  ⟨stable_eq_ids_skeleton s inst, stable_sublist s inst⟩

/-- (b) **C05, second sentence.** Outside the content of the dynamic views on the written signal the
instance is SYNTACTICALLY unchanged by the update (same constructors, same identities, same
positions), hence every stable identity is kept at its place and is still in the instance. -/
theorem C05_identity_kept (σ' : Store) (s : Nat) (inst : Inst) (k : Nat) :
    skeleton s (update σ' s inst k).1 = skeleton s inst
    ∧ stable s (update σ' s inst k).1 = stable s inst
    ∧ (stable s inst).Sublist (update σ' s inst k).1.ids :=
  ⟨update_skeleton σ' s inst k, update_stable σ' s inst k,
   update_stable σ' s inst k ▸ stable_sublist s (update σ' s inst k).1⟩

theorem C05_identity_kept_list (σ' : Store) (s : Nat) (inst : InstList) (k : Nat) :
    skeletonL s (updateList σ' s inst k).1 = skeletonL s inst
    ∧ stableL s (updateList σ' s inst k).1 = stableL s inst
    ∧ (stableL s inst).Sublist (updateList σ' s inst k).1.ids :=
  ⟨updateList_skeleton σ' s inst k, updateList_stable σ' s inst k,
   updateList_stable σ' s inst k ▸ stableL_sublist s (updateList σ' s inst k).1⟩

/-- the same at the document level: what the skeleton puts in the document is identical, WITH
identities, before and after the update -/
theorem C05_dom_outside_regions_same (σ' : Store) (s : Nat) (inst : InstList) (k : Nat) :
    domList σ' (skeletonL s (updateList σ' s inst k).1) = domList σ' (skeletonL s inst) := by
  rw [updateList_skeleton]

/-- (c) an identity of the updated instance is an old one or was allocated by this update;
if the old identities were distinct and below the counter, the new ones are distinct:
no identity is ever reused and no node is duplicated -/
theorem C05_new_nodes_are_new (σ' : Store) (s : Nat) (inst : Inst) (k : Nat) :
    k ≤ (update σ' s inst k).2
    ∧ (∀ x ∈ (update σ' s inst k).1.ids, x ∈ inst.ids ∨ (k ≤ x ∧ x < (update σ' s inst k).2))
    ∧ ((∀ x ∈ inst.ids, x < k) → inst.ids.Nodup → (update σ' s inst k).1.ids.Nodup) :=
  ⟨(update_ids σ' s inst k).1, (update_ids σ' s inst k).2,
   fun h1 h2 => update_nodup σ' s inst k ⟨h1, h2⟩⟩

theorem C05_new_nodes_are_new_list (σ' : Store) (s : Nat) (inst : InstList) (k : Nat) :
    k ≤ (updateList σ' s inst k).2
    ∧ (∀ x ∈ (updateList σ' s inst k).1.ids,
        x ∈ inst.ids ∨ (k ≤ x ∧ x < (updateList σ' s inst k).2))
    ∧ ((∀ x ∈ inst.ids, x < k) → inst.ids.Nodup → (updateList σ' s inst k).1.ids.Nodup) :=
  ⟨(updateList_ids σ' s inst k).1, (updateList_ids σ' s inst k).2,
   fun h1 h2 => updateList_nodup σ' s inst k ⟨h1, h2⟩⟩

/-- along every write history: all identities of the instance — hence of the document — are below
the counter and pairwise distinct -/
theorem C05_ids_distinct_always (vds : VDList) (σ0 : Store) (k0 : Nat) (ws : List (Nat × Nat)) :
    let r := runWrites σ0 (mountList σ0 vds k0).1 (mountList σ0 vds k0).2 ws
    (∀ x ∈ r.2.1.ids, x < r.2.2) ∧ r.2.1.ids.Nodup ∧ (idsL (domList r.1 r.2.1)).Nodup := by
  intro r
  have h := runWrites_idsOk ws σ0 _ _ (mountList_idsOk σ0 vds k0)
  exact ⟨h.1, h.2, (ids_domList_sublist r.1 r.2.1).nodup h.2⟩

/-- (d) if no dynamic view of the instance reads `s`, the update is the identity and allocates
nothing: only the text/attribute effects (which `dom` reads off the store) react -/
theorem C05_untouched (σ' : Store) (s : Nat) (inst : Inst) (k : Nat) (h : noDynOn s inst = true) :
    update σ' s inst k = (inst, k) := update_untouched σ' s inst k h

theorem C05_untouched_list (σ' : Store) (s : Nat) (inst : InstList) (k : Nat)
    (h : noDynOnL s inst = true) : updateList σ' s inst k = (inst, k) :=
  updateList_untouched σ' s inst k h

/-! ## Non-vacuity: a dynamic view inside a `Show` inside an element, two signals, three writes -/

namespace Example

deriving instance DecidableEq for AttrV
deriving instance DecidableEq for VD, VDList, VDAlts
deriving instance DecidableEq for Inst, InstList

def ofList : List VD → VDList
  | [] => .nil
  | v :: vs => .cons v (ofList vs)

/-- `<t100 a1=[sig0 odd]> "7" Show(sig0){ dyn(sig1){ ["1"] | [<t2>{sig1}</t2> "3"] } "9" } {sig0} </t100>` -/
def view : VDList :=
  ofList [.el [100] [([1], .dynBool 0), ([2], .static [5])] (ofList
    [.text [7],
     .show 0 (ofList
       [.dynView 1 (.cons (ofList [.text [1]])
                   (.cons (ofList [.el [2] [] (ofList [.dynText 1]), .text [3]]) .nil)),
        .text [9]]),
     .dynText 0])]

def σ0 : Store := [1, 0]
def writes : List (Nat × Nat) := [(1, 1), (0, 2), (1, 2)]

def inst0 : InstList := (mountList σ0 view 0).1
def after (n : Nat) : Store × InstList × Nat := runWrites σ0 inst0 (mountList σ0 view 0).2 (writes.take n)

-- initial render: element 0, text 1, Show markers 2/3, dynamic markers 4/5, content 6, text 7, dyn text 8
example : inst0.ids = [0, 1, 2, 4, 6, 5, 7, 3, 8] ∧ (mountList σ0 view 0).2 = 9 := by decide
example : idsL (domList σ0 inst0) = [0, 1, 2, 4, 6, 5, 7, 3, 8] := by decide
example : shapes (domList σ0 inst0) =
    [.elem [100] [([1], []), ([2], [5])]
      [.text [7], .comment, .comment, .text [1], .comment, .text [9], .comment, .text [49]]] := by decide

-- write 1 (sig1 := 1): only the content of the dynamic view is re-created (ids 9 10 11); all else kept
example : (after 1).1 = [1, 1] ∧ (after 1).2.1.ids = [0, 1, 2, 4, 9, 10, 11, 5, 7, 3, 8]
    ∧ (after 1).2.2 = 12 := by decide
example : stableL 1 inst0 = [0, 1, 2, 4, 5, 7, 3, 8] ∧ stableL 1 (after 1).2.1 = stableL 1 inst0 := by
  decide
example : shapes (domList (after 1).1 (after 1).2.1) =
    [.elem [100] [([1], []), ([2], [5])]
      [.text [7], .comment, .comment, .elem [2] [] [.text [49]], .text [3], .comment, .text [9],
       .comment, .text [49]]] := by decide

-- write 2 (sig0 := 2): no dynamic view reads sig0: nothing re-created; Show hides (children parked),
-- the boolean attribute disappears, the dynamic text shows "2"
example : noDynOnL 0 (after 1).2.1 = true ∧ (after 2).2 = (after 1).2 ∧ (after 2).1 = [2, 1] := by decide
example : idsL (domList (after 2).1 (after 2).2.1) = [0, 1, 2, 3, 8] := by decide
example : shapes (domList (after 2).1 (after 2).2.1) =
    [.elem [100] [([2], [5])] [.text [7], .comment, .comment, .text [50]]] := by decide

-- write 3 (sig1 := 2, i.e. alternative 0 again) while hidden: the parked dynamic view is re-created (id 12)
example : (after 3).1 = [2, 2] ∧ (after 3).2.1.ids = [0, 1, 2, 4, 12, 5, 7, 3, 8] ∧ (after 3).2.2 = 13 := by
  decide
example : stableL 1 (after 3).2.1 = stableL 1 inst0 := by decide

-- after every prefix of the history: the document has the shape of a fresh render of the current store
example : ∀ n ∈ [0, 1, 2, 3],
    shapes (domList (after n).1 (after n).2.1)
      = shapes (domList (after n).1 (mountList (after n).1 view 0).1) := by decide

-- the statement is not trivially true: the four documents differ, and an instance that is NOT updated
-- does not have the shape of the fresh render
example : shapes (domList (after 1).1 inst0) ≠ shapes (domList (after 1).1 (mountList (after 1).1 view 0).1) := by
  decide
example : shapes (domList (after 1).1 (after 1).2.1) ≠ shapes (domList σ0 inst0) := by decide

-- a write to a signal that does not exist (`List.set` is a no-op, `updateList` still runs)
example : runWrites σ0 inst0 9 [(7, 3)] = (σ0, inst0, 9) := by decide

/-- `NoHydrate` around a dynamic text and a dynamic view: on the client the same document (shape and
identities) as with a fragment, before and after a write that re-creates the dynamic view inside it -/
def viewN (wrap : VDList → VD) : VDList :=
  ofList [.el [100] [] (ofList
    [wrap (ofList [.dynText 0, .dynView 0 (.cons (ofList [.text [1]]) (.cons (ofList [.el [2] [] .nil]) .nil))]),
     .text [7]])]

def afterN (wrap : VDList → VD) : Store × InstList × Nat :=
  runWrites σ0 (mountList σ0 (viewN wrap) 0).1 (mountList σ0 (viewN wrap) 0).2 [(0, 2)]

example : shapes (domList σ0 (mountList σ0 (viewN .noHydrate) 0).1)
      = [.elem [100] [] [.text [49], .comment, .elem [2] [] [], .comment, .text [7]]]
    ∧ shapes (domList (afterN .noHydrate).1 (afterN .noHydrate).2.1)
      = [.elem [100] [] [.text [50], .comment, .text [1], .comment, .text [7]]]
    ∧ shapes (domList (afterN .noHydrate).1 (afterN .noHydrate).2.1)
      = shapes (domList (afterN .frag).1 (afterN .frag).2.1)
    ∧ idsL (domList (afterN .noHydrate).1 (afterN .noHydrate).2.1)
      = idsL (domList (afterN .frag).1 (afterN .frag).2.1)
    ∧ (afterN .noHydrate).2.1.ids = [0, 1, 2, 6, 3, 5] := by decide

end Example

end SycVerif.DomView
