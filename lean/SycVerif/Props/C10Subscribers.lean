import SycVerif.Props.ReactiveWF
import SycVerif.Lemmas.Subscribers
import SycVerif.Lemmas.AtRest
/-!
C10, third clause, WITHOUT any purity assumption on the closures: "when the outermost batch returns, every
surviving computation affected by any write made in it has run". Stated for `propagate_node_updates` itself (what
both a plain write and the end of the outermost batch call) and for the `batch` statement:

every computation that is subscribed to one of the start (written) signals when the propagation starts has RUN
during the propagation — a `run` event of it was appended to the trace — or is destroyed by the end of it.

This is the theorem behind the oracle class `batch-missed-run` of the reactive engine.
-/
namespace SycVerif.Reactive

/-- the events appended by a step from `r` to `r'` (traces only grow) -/
def newEvents (r r' : Root) : List Event := r'.trace.drop r.trace.length

def ranIn (evs : List Event) (i : Id) : Prop := ∃ obs v, Event.run i obs v ∈ evs

/-- `propagate_node_updates`: every subscriber of a start node runs, or is gone afterwards.
Hypotheses: the bookkeeping invariants `RInv`, `XInv` (they hold in every reachable state) and — the situation at the
top level and at the end of a top-level batch — no computation is running at the moment (`value ≠ none` everywhere).
If the statement needs a further hypothesis (e.g. marks all clear, nothing dirty, `batching = false`, `queue = []`),
add it EXPLICITLY here, prove that it holds in every state reached at top level (between two top-level operations of
`runOps`), and say so. -/
theorem C10_subscribers_of_written_run {fuel : Nat} {r r' : Root} {starts : List Id}
    (hI : RInv r) (hX : XInv r)
    (hidle : ∀ j n, r.get? j = some n → n.value ≠ none)
    (hmarks : ∀ j n, r.get? j = some n → n.mark = .none)
    (h : propagateNodeUpdates fuel r starts = .ok r') :
    ∀ s ∈ starts, ∀ ns, r.get? s = some ns → ∀ i ∈ ns.dependents,
      r'.get? i = none ∨ ranIn (newEvents r r') i :=
  -- `Done i r r'` unfolds to the conclusion.  Neither `XInv` nor `hidle` is used: the call returned `.ok`, and
  -- every `.ok` exit of `runNodeUpdate` has appended the event or found the node destroyed.
  have _ := hX
  have _ := hidle
  fun s hs ns hns i hi => propagateNodeUpdates_subscribers hI.nd hmarks h s hs ns hns i hi

/-- the same for a plain write at top level: `set` on a live signal outside a batch -/
theorem C01_subscribers_of_written_run_set {fuel : Nat} {r r' : Root} {s : Id}
    (hI : RInv r) (hX : XInv r) (hb : r.batching = false)
    (hidle : ∀ j n, r.get? j = some n → n.value ≠ none)
    (hmarks : ∀ j n, r.get? j = some n → n.mark = .none)
    (h : propagateUpdates fuel r s = .ok r') :
    ∀ ns, r.get? s = some ns → ∀ i ∈ ns.dependents, r'.get? i = none ∨ ranIn (newEvents r r') i := by
  cases fuel with
  | zero => simp [propagateUpdates] at h
  | succ fuel =>
    simp only [propagateUpdates, hb] at h
    exact C10_subscribers_of_written_run hI hX hidle hmarks h s (by simp)

/-- the `batch` statement at top level (not nested): let `rb` be the state when the body has ended; every computation
subscribed at that moment to a signal of the queue has run by the time the batch statement returns, or is gone.
(`execStmt … (.batch b)` = body with `batching := true`, then `propagateNodeUpdates` over the queue.) -/
theorem C10_batch_subscribers_run {fuel : Nat} {r rb r' : Root} {c cb c' : Ctx} {b : Body}
    (hnb : r.batching = false)
    (hbody : execInner fuel { r with batching := true } c b = .ok (rb, cb))
    (hI : RInv rb) (hX : XInv rb)
    (hidle : ∀ j n, rb.get? j = some n → n.value ≠ none)
    (hmarks : ∀ j n, rb.get? j = some n → n.mark = .none)
    (h : execStmt (fuel + 1) r c (.batch b) = .ok (r', c')) :
    ∀ s ∈ rb.queue, ∀ ns, rb.get? s = some ns → ∀ i ∈ ns.dependents,
      r'.get? i = none ∨ ranIn (newEvents rb r') i := by
  have _ := hX
  have _ := hidle
  simp only [execStmt, hnb, hbody, Bool.false_eq_true, if_false] at h
  split at h
  · cases h
  · rename_i r2 h2
    simp only [Except.ok.injEq, Prod.mk.injEq] at h
    obtain ⟨rfl, _⟩ := h
    -- the state `end_batch` starts from differs from `rb` in `batching` and `queue` only
    exact propagateNodeUpdates_subscribers (r := { rb with batching := false, queue := [] })
      (hI.same (r' := { rb with batching := false, queue := [] }) rfl rfl).1.nd hmarks h2

/-! ### the batch statement as a top-level operation of a program

Every hypothesis of `C10_batch_subscribers_run` about the state `rb` in which the body of the batch has ended is
discharged from reachability: `RInv` / `XInv` hold at every call boundary (`presAll`, `safeAll`), and between two
top-level operations the root is not batching, nothing is marked and nothing is running (`reachable_atRest`,
`Lemmas/AtRest`); a body that returns leaves no mark and no taken-out value behind (`calmAll`). -/

theorem C10_reachable_batch_subscribers_run {fuel fuel' : Nat} {ops : List Stmt} {r rb r' : Root}
    {env : List Handle} {cb c' : Ctx} {b : Body}
    (hreach : runOps fuel ops Root.init [] = .ok (r, env))
    (hbody : execInner fuel' { r with batching := true } ⟨env, 0, []⟩ b = .ok (rb, cb))
    (h : execStmt (fuel' + 1) r ⟨env, 0, []⟩ (.batch b) = .ok (r', c')) :
    ∀ s ∈ rb.queue, ∀ ns, rb.get? s = some ns → ∀ i ∈ ns.dependents,
      r'.get? i = none ∨ ranIn (newEvents rb r') i := by
  have hI := reachable_inv fuel ops r env hreach
  have hX := reachable_xinv fuel ops r env hreach
  have hE := reachable_envLt fuel ops r env hreach
  have hR := reachable_atRest fuel ops r env hreach
  have hI1 : RInv { r with batching := true } := (hI.same (r' := { r with batching := true }) rfl rfl).1
  have hX1 : XInv { r with batching := true } :=
    ⟨fun i n hi => hX.node i n hi, fun hb => Bool.noConfusion hb, hX.q2, hX.q3⟩
  have hIb : RInv rb := (execInner_inv fuel' _ _ b rb cb hI1 hE hbody).1
  have hXb : XInv rb := by
    have := (safeAll fuel').inner _ _ ⟨env, 0, []⟩ b hI1 hE hX1
    rw [hbody] at this; exact this.1
  have hC : Calm r rb :=
    (Calm.fields r ..).trans ((calmAll fuel').inner _ _ _ _ _ hbody)
  exact C10_batch_subscribers_run hR.batching hbody hIb hXb (hC.allIdle hR.idle) (hC.unmarked hR.marks) h

private theorem runOps_snoc (fuel : Nat) (s : Stmt) : ∀ (ops : List Stmt) (r0 : Root) (env0 : List Handle)
    (r' : Root) (env' : List Handle), runOps fuel (ops ++ [s]) r0 env0 = .ok (r', env') →
    ∃ r env c', runOps fuel ops r0 env0 = .ok (r, env) ∧ execStmt fuel r ⟨env, 0, []⟩ s = .ok (r', c')
  | [], r0, env0, r', env', h => by
    simp only [List.nil_append, runOps] at h
    split at h
    · cases h
    · rename_i r1 c1 h1
      simp only [Except.ok.injEq, Prod.mk.injEq] at h
      obtain ⟨rfl, _⟩ := h
      exact ⟨r0, env0, c1, rfl, h1⟩
  | o :: ops, r0, env0, r', env', h => by
    simp only [List.cons_append, runOps] at h
    split at h
    · cases h
    · rename_i r1 c1 h1
      obtain ⟨r, env, c', h2, h3⟩ := runOps_snoc fuel s ops r1 c1.env r' env' h
      exact ⟨r, env, c', by simp only [runOps, h1]; exact h2, h3⟩

/-- the same, stated for a whole program that ends with a `batch` statement at top level -/
theorem C10_program_batch_subscribers_run {fuel : Nat} {ops : List Stmt} {b : Body} {r' : Root}
    {env' : List Handle} (h : runOps (fuel + 1) (ops ++ [.batch b]) Root.init [] = .ok (r', env')) :
    ∃ r env rb cb, runOps (fuel + 1) ops Root.init [] = .ok (r, env) ∧
      execInner fuel { r with batching := true } ⟨env, 0, []⟩ b = .ok (rb, cb) ∧
      ∀ s ∈ rb.queue, ∀ ns, rb.get? s = some ns → ∀ i ∈ ns.dependents,
        r'.get? i = none ∨ ranIn (newEvents rb r') i := by
  obtain ⟨r, env, c', h1, h2⟩ := runOps_snoc (fuel + 1) (.batch b) ops Root.init [] r' env' h
  have h2' := h2
  simp only [execStmt] at h2'
  split at h2'
  · cases h2'
  · rename_i rb cb hb
    exact ⟨r, env, rb, cb, h1, hb, C10_reachable_batch_subscribers_run h1 hb h2⟩

/-- Non-vacuity (kernel-checked): `s = create_signal(1); create_effect(|| s.get()); batch(|| s.set(5))`.
When the body of the batch has ended the queue is `[s]` and the effect (node 2) is subscribed to `s`, so the
theorems above speak about it; it survives, and exactly one event is appended by the end of the batch. -/
theorem C10_subscribers_nonvacuous :
    (match runOps 30 ([.signal 1, .effect (.cons (.read 0) .nil)] ++ [.batch (.cons (.set 0 (.const 5)) .nil)])
        Root.init [] with
     | .ok (r', _) =>
       (match runOps 30 [.signal 1, .effect (.cons (.read 0) .nil)] Root.init [] with
        | .ok (r, env) =>
          (match execInner 29 { r with batching := true } ⟨env, 0, []⟩ (.cons (.set 0 (.const 5)) .nil) with
           | .ok (rb, _) =>
             rb.queue == [1] && (match rb.get? 1 with | some ns => ns.dependents == [2] | none => false) &&
               (r'.get? 2).isSome && r'.trace.length == rb.trace.length + 1
           | .error _ => false)
        | .error _ => false)
     | .error _ => false) = true := by decide +kernel

end SycVerif.Reactive
