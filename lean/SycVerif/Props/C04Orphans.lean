/-
C04 (ownership / disposal), repair D23: `NodeHandle::dispose` loops `dispose_children` while the node that
is being disposed still holds children or cleanups (`disposeRest` in the model).

A cleanup may, through a captured handle (`run_in`), create nodes or register further cleanups IN THE VERY
SCOPE that is being torn down, after `dispose_children` has taken the `children` / `cleanups` lists out of
it.  Before D23 `dispose` removed the scope right after one round of `dispose_children`: the late-born
nodes stayed alive for ever, owned by a dead node (reachable from no owner, never disposed), and the
late-registered cleanups were dropped without being run.  With D23 they are torn down in further rounds.

* `C04_disposeRest_drains`        — when the loop ends normally, the node (if it still exists) holds nothing;
* `C04_dispose_leaves_no_child`   — after `disposeNode … id` no live node is owned by `id`
                                     (hypothesis: `RInv`, and no live node is owned by `id` if `id` is
                                     ALREADY dead — see `C04_leaves_no_child_needs_hypothesis`);
* `C04_reachable_noOrphan`        — in every reachable state every live node that has an owner has a LIVE
                                     owner (`NoOrphan`; false before D23: `C04_noLoop_leaves_orphan`);
* `C04_teardown_born_node_disposed` — the example, evaluated by the kernel.

Helper lemmas (the induction over the mutual block): `SycVerif/Lemmas/Orphans.lean`.
-/
import SycVerif.Lemmas.Orphans
import SycVerif.Props.ReactiveWF
import SycVerif.Props.C04
namespace SycVerif.Reactive

/-! ### 1. the loop -/

/-- `disposeRest`, unfolded: nothing to do on a dead node or on a node without children and cleanups;
otherwise one more round of `disposeChildren`, and again -/
theorem C04_disposeRest_eq (fuel : Nat) (r : Root) (id : Id) :
    disposeRest (fuel + 1) r id =
      match r.get? id with
      | none => .ok r
      | some n =>
        if n.children.isEmpty && n.cleanups.isEmpty then .ok r
        else match disposeChildren fuel r id with
          | .error e => .error e
          | .ok r => disposeRest fuel r id := by
  rw [disposeRest]
  cases r.get? id with
  | none => rfl
  | some n =>
    simp only
    split
    · rfl
    · cases disposeChildren fuel r id with
      | error e => rfl
      | ok p => rfl

/-- **when the loop ends normally the node — if it still exists — holds nothing**: no children, no
cleanups.  No hypothesis on the state or on the cleanups (a loop that does not come to an end runs out of
fuel, which is `.error .fuel`; the real code does not terminate in that case). -/
theorem C04_disposeRest_drains {fuel : Nat} {r r' : Root} {id : Id} (h : disposeRest fuel r id = .ok r') :
    ∀ n, r'.get? id = some n → n.children = [] ∧ n.cleanups = [] :=
  disposeRest_drains fuel h

/-- on a node that one round of `disposeChildren` has left empty — in particular whenever the cleanups of
the subtree are inert (`disposeChildren_spec`: the node survives as `cleared …`) — the loop does nothing,
and `disposeNode` is what it was before D23 -/
theorem C04_disposeRest_noop {fuel : Nat} {r : Root} {id : Id} {n : Node} (h : r.get? id = some n)
    (hc : n.children = []) (hl : n.cleanups = []) : disposeRest (fuel + 1) r id = .ok r :=
  disposeRest_drained h hc hl

/-- the loop keeps the bookkeeping invariant (it is an iteration of `disposeChildren`) -/
theorem disposeRest_inv (fuel : Nat) (r : Root) (id : Id) (r' : Root)
    (hI : RInv r) (hx : disposeRest fuel r id = .ok r') : RInv r' :=
  ((presAll fuel).rest _ r id r' hI hx).1

/-! ### 2. no live node is owned by a disposed node -/

/-- `NoOrphan r`, unfolded: every live node that has an owner has a live owner -/
theorem noOrphan_iff (r : Root) :
    NoOrphan r ↔ ∀ j m p, r.get? j = some m → m.parent = some p → r.get? p ≠ none := by
  constructor
  · intro h j m p hm hp hd; exact h p j m hm hp hd
  · intro h a j m hm hp hd; exact h j m a hm hp hd

/-- **after a successful `disposeNode … id` no live node is owned by `id`** — whatever the cleanups do
(create nodes in `id` or below, register cleanups there, dispose `id` itself in the middle of its own
disposal, write, batch, …).

Hypotheses: the bookkeeping invariant `RInv`, and `hO`: if `id` is ALREADY dead in `r`, no live node of `r`
is owned by it.  `hO` cannot be dropped: disposing a dead id does nothing (`dispose_dead`), so whatever a
dead `id` owns in `r` it still owns in `r'`, and `RInv` says nothing about live nodes whose owner is dead
(`C04_leaves_no_child_needs_hypothesis`; before D23 such states were reachable, `C04_noLoop_leaves_orphan`).
`hO` holds trivially when `id` is alive (`C04_dispose_leaves_no_child_of_alive`) and in every reachable
state (`C04_dispose_leaves_no_child_reachable`).

Proof: `RInv.listed` puts every live node owned by a live `id` into `id.children`; the loop ends with
`id.children = []` (`C04_disposeRest_drains`), or with `id` dead.  For the second case — one of the
cleanups disposed `id` — an induction over the mutual block (`oAll`) shows that the only live nodes owned
by a dead `id` are children that a `disposeChildren` still in progress has detached and will dispose:
nothing is created in a dead scope (`createNode` panics), and a scope only dies at the end of a
`disposeNode` whose loop has emptied it. -/
theorem C04_dispose_leaves_no_child {fuel : Nat} {r r' : Root} {id : Id} (hI : RInv r)
    (hO : ∀ j m, r.get? j = some m → m.parent = some id → r.get? id ≠ none)
    (h : disposeNode fuel r id = .ok r') : ∀ j m, r'.get? j = some m → m.parent ≠ some id := by
  intro j m hm hp
  have hO' : NoOrphanAt id (fun _ => False) r := fun j m hm hp hd => hO j m hm hp hd
  obtain ⟨q, hdead⟩ := (oAll id fuel).dnode _ r id r' hI hO' h
  exact q.o j m hm hp hdead

/-- the usual case: `id` is alive when its disposal starts -/
theorem C04_dispose_leaves_no_child_of_alive {fuel : Nat} {r r' : Root} {id : Id} (hI : RInv r)
    (ha : r.get? id ≠ none) (h : disposeNode fuel r id = .ok r') :
    ∀ j m, r'.get? j = some m → m.parent ≠ some id :=
  C04_dispose_leaves_no_child hI (fun _ _ _ _ => ha) h

/-- `disposeNode` keeps "every live node that has an owner has a live owner" -/
theorem C04_dispose_keeps_noOrphan {fuel : Nat} {r r' : Root} {id : Id} (hI : RInv r) (hO : NoOrphan r)
    (h : disposeNode fuel r id = .ok r') : NoOrphan r' :=
  fun a => ((oAll a fuel).dnode _ r id r' hI (hO a) h).1.o

/-- … and so does every statement of the DSL -/
theorem execStmt_noOrphan (fuel : Nat) (r : Root) (c : Ctx) (s : Stmt) (r' : Root) (c' : Ctx)
    (hI : RInv r) (hE : EnvLt r.nodes.size c.env) (hO : NoOrphan r)
    (hx : execStmt fuel r c s = .ok (r', c')) : NoOrphan r' :=
  fun a => ((oAll a fuel).stmt _ r c s r' c' hI hE (hO a) hx).1.o

/-- **in every reachable state every live node that has an owner has a LIVE owner**: nothing is left
behind without an owner (D23) -/
theorem C04_reachable_noOrphan (fuel : Nat) (ops : List Stmt) (r : Root) (env : List Handle)
    (h : runOps fuel ops Root.init [] = .ok (r, env)) :
    ∀ j m p, r.get? j = some m → m.parent = some p → r.get? p ≠ none :=
  (noOrphan_iff r).1
    (runOps_noOrphan fuel ops Root.init [] r env rinv_init (by intro hd hm; cases hm) noOrphan_init h)

/-- in a reachable state: after `disposeNode … id` no live node is owned by `id` (dead or alive before) -/
theorem C04_dispose_leaves_no_child_reachable (fuel fuel' : Nat) (ops : List Stmt) (r : Root)
    (env : List Handle) (h : runOps fuel ops Root.init [] = .ok (r, env)) {id : Id} {r' : Root}
    (hx : disposeNode fuel' r id = .ok r') : ∀ j m, r'.get? j = some m → m.parent ≠ some id :=
  C04_dispose_leaves_no_child (reachable_inv fuel ops r env h)
    (fun j m hm hp => C04_reachable_noOrphan fuel ops r env h j m id hm hp) hx

/-! ### 3. the example: a node born in a scope during the teardown of that scope -/

/-- `s = signal 0; sc = scope { effect { s.get() } }; sc.run_in { on_cleanup { sc.run_in { signal 5 } } };
sc.dispose()` (nodes: 1 = `s`, 2 = `sc`, 3 = the effect, 4 = the signal created by the cleanup) -/
def d23Ops : List Stmt :=
  [.signal 0,
   .scope (.cons (.effect (.cons (.read 0) .nil)) .nil),
   .runIn 1 (.cons (.cleanup (.cons (.runIn 1 (.cons (.signal 5) .nil)) .nil)) .nil),
   .dispose 1]

theorem d23_eval :
    (match runOps 200 d23Ops Root.init [] with
     | .ok (r, _) => r.liveCount == 2 && ((List.range r.nodes.size).map r.alive == [true, true, false, false, false])
     | .error _ => false) = true := by decide +kernel

/-- **the signal created by the cleanup inside the scope that is being disposed is gone**: the program
ends with two live nodes, the root and the first signal -/
theorem C04_teardown_born_node_disposed :
    ∃ r env, runOps 200
      [.signal 0, .scope (.cons (.effect (.cons (.read 0) .nil)) .nil),
       .runIn 1 (.cons (.cleanup (.cons (.runIn 1 (.cons (.signal 5) .nil)) .nil)) .nil),
       .dispose 1] Root.init [] = .ok (r, env) ∧ r.liveCount = 2 := by
  have h := d23_eval
  unfold d23Ops at h
  cases h1 : runOps 200
      [.signal 0, .scope (.cons (.effect (.cons (.read 0) .nil)) .nil),
       .runIn 1 (.cons (.cleanup (.cons (.runIn 1 (.cons (.signal 5) .nil)) .nil)) .nil),
       .dispose 1] Root.init [] with
  | error e => rw [h1] at h; cases h
  | ok p =>
    obtain ⟨r, env⟩ := p
    rw [h1] at h
    simp only [Bool.and_eq_true, beq_iff_eq] at h
    exact ⟨r, env, rfl, h.1⟩

/-! ### 4. the defect: without the loop the node is left behind, and the hypothesis of item 2 -/

/-- `NodeHandle::dispose` before the repair D23 (after D19): one round of `dispose_children` -/
def disposeNodeNoLoop : Nat → Root → Id → Except Panic Root
  | 0, _, _ => .error .fuel
  | fuel + 1, r, id =>
    match disposeChildren fuel (unsubscribe r id) id with
    | .error e => .error e
    | .ok r => .ok (removeNode r id)

/-- the state of `d23Ops` before the last statement -/
def d23Before : Root :=
  match runOps 200 d23Ops.dropLast Root.init [] with
  | .ok (r, _) => r
  | .error _ => Root.init

/-- the same state after the OLD disposal of the scope: the scope (2) and its effect (3) are gone, the
signal born during the teardown (4) is alive, owned by the dead scope -/
def d23Orphaned : Root :=
  match disposeNodeNoLoop 100 d23Before 2 with
  | .ok r => r
  | .error _ => Root.init

theorem d23_noLoop_eval :
    (disposeNodeNoLoop 100 d23Before 2).isOk = true ∧
    (List.range d23Orphaned.nodes.size).map d23Orphaned.alive = [true, true, false, false, true] ∧
    (d23Orphaned.get? 4).map (·.parent) = some (some 2) ∧
    (match disposeNode 100 d23Before 2 with
     | .ok r' => (List.range r'.nodes.size).map r'.alive == [true, true, false, false, false]
     | .error _ => false) = true ∧
    (match disposeNode 100 d23Orphaned 2 with
     | .ok r' => (List.range r'.nodes.size).map r'.alive == [true, true, false, false, true] &&
         ((r'.get? 4).map (·.parent) == some (some 2))
     | .error _ => false) = true := by decide +kernel

/-- **without the loop the conclusion of `C04_dispose_leaves_no_child` fails in a reachable state** (in
which `id` is alive): after the old disposal of the scope a live node is still owned by it -/
theorem C04_noLoop_leaves_orphan :
    ∃ (r : Root) (env : List Handle) (r' : Root), runOps 200 d23Ops.dropLast Root.init [] = .ok (r, env) ∧
      r.get? 2 ≠ none ∧ disposeNodeNoLoop 100 r 2 = .ok r' ∧
      ∃ m, r'.get? 4 = some m ∧ m.parent = some 2 := by
  obtain ⟨hok, _, hpar, _, _⟩ := d23_noLoop_eval
  have hB : ∀ p, runOps 200 d23Ops.dropLast Root.init [] = .ok p → d23Before = p.1 := by
    intro p hp; unfold d23Before; rw [hp]
  cases h1 : runOps 200 d23Ops.dropLast Root.init [] with
  | error e =>
    -- excluded by the evaluation: `d23Before` would be `Root.init`, which has no slot 4
    exfalso
    have hb : d23Before = Root.init := by unfold d23Before; rw [h1]
    have : d23Orphaned.get? 4 = none := by
      unfold d23Orphaned
      rw [hb]
      have hd : Root.init.get? 2 = none := Root.get?_eq_none_of_size_le (by simp [Root.init])
      have : disposeNodeNoLoop 100 Root.init 2 = .ok Root.init := by
        simp [disposeNodeNoLoop, disposeChildren, unsubscribe_dead hd, hd, removeNode_dead hd]
      rw [this]
      exact Root.get?_eq_none_of_size_le (by simp [Root.init])
    rw [this] at hpar; cases hpar
  | ok p =>
    obtain ⟨r, env⟩ := p
    have hb : d23Before = r := hB _ h1
    cases h2 : disposeNodeNoLoop 100 r 2 with
    | error e => rw [hb, h2] at hok; simp [Except.isOk, Except.toBool] at hok
    | ok r' =>
      have ho : d23Orphaned = r' := by unfold d23Orphaned; rw [hb, h2]
      rw [ho] at hpar
      refine ⟨r, env, r', rfl, ?_, h2, ?_⟩
      · intro hd
        -- on a dead id the old disposal returns `r` itself, so `r` — a reachable state — would contain the
        -- live node 4 owned by the dead 2, contradicting `C04_reachable_noOrphan`
        have : disposeNodeNoLoop 100 r 2 = .ok r := by
          simp [disposeNodeNoLoop, disposeChildren, unsubscribe_dead hd, hd, removeNode_dead hd]
        rw [this] at h2
        cases h2
        cases h4 : r.get? 4 with
        | none => rw [h4] at hpar; cases hpar
        | some m =>
          rw [h4] at hpar
          simp only [Option.map_some, Option.some.injEq] at hpar
          exact C04_reachable_noOrphan 200 _ r env h1 4 m 2 h4 hpar hd
      · cases h4 : r'.get? 4 with
        | none => rw [h4] at hpar; cases hpar
        | some m =>
          rw [h4] at hpar
          simp only [Option.map_some, Option.some.injEq] at hpar
          exact ⟨m, rfl, hpar⟩

/-- `d23Orphaned` satisfies the bookkeeping invariant (the old `disposeNode` preserved it as well: it is
`unsubscribe`, `disposeChildren`, `removeNode`) -/
theorem d23Orphaned_inv : RInv d23Orphaned := by
  have hB : RInv d23Before := by
    unfold d23Before
    cases h : runOps 200 d23Ops.dropLast Root.init [] with
    | error e => exact rinv_init
    | ok p => exact reachable_inv 200 _ p.1 p.2 h
  unfold d23Orphaned
  cases h : disposeNodeNoLoop 100 d23Before 2 with
  | error e => exact rinv_init
  | ok r' =>
    simp only [disposeNodeNoLoop] at h
    split at h
    · cases h
    · rename_i r1 h1
      simp only [Except.ok.injEq] at h
      subst h
      obtain ⟨i0, _⟩ := RInvP.unsubscribe hB 2
      obtain ⟨i1, _⟩ := (presAll 99).dchildren _ _ 2 r1 i0 h1
      exact (RInvP.removeNode i1 2).1

/-- **the hypothesis `hO` of `C04_dispose_leaves_no_child` is needed**: `d23Orphaned` satisfies `RInv`, the
scope 2 is dead in it and still owns the live node 4; disposing 2 (again) succeeds, does nothing, and node 4
is still owned by 2 afterwards -/
theorem C04_leaves_no_child_needs_hypothesis :
    ∃ r r' : Root, RInv r ∧ disposeNode 100 r 2 = .ok r' ∧ ∃ m, r'.get? 4 = some m ∧ m.parent = some 2 := by
  obtain ⟨_, _, _, _, h⟩ := d23_noLoop_eval
  cases h2 : disposeNode 100 d23Orphaned 2 with
  | error e => rw [h2] at h; cases h
  | ok r' =>
    rw [h2] at h
    simp only [Bool.and_eq_true, beq_iff_eq] at h
    have hpar := h.2
    cases h4 : r'.get? 4 with
    | none => rw [h4] at hpar; cases hpar
    | some m =>
      rw [h4] at hpar
      simp only [Option.map_some, Option.some.injEq] at hpar
      exact ⟨d23Orphaned, r', d23Orphaned_inv, h2, m, h4, hpar⟩

end SycVerif.Reactive
