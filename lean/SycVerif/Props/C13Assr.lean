/-
C13 (server side) — the clauses about server rendering with suspense: the counters and when the blocking
render returns (5), streaming emits every fragment at most once (6), parents first (7), an emitted fragment
is final (8), and the page assembled from all fragments shows what the blocking render shows (9).

Model: `SycVerif/Model/Assr.lean`; reachable worlds as in `Props/C12Assr.lean`: `Reach m vs w` = the first
build followed by `step`s and `sendReady`s in any order (`ReachB.reach`, `ReachS.reach`: the runs of the
driver are special cases). Everything holds for EVERY view and EVERY sequence of events.
The vocabulary is introduced section by section; definitions are in `Lemmas/Assr.lean`.
-/
import SycVerif.Lemmas.Assr
namespace SycVerif.Assr

/-! ### 5. the counters -/

/-- In every reachable world the counter of boundary `k` is the number of pending bodies registered under
`k` plus the number of guards held for `k`; the loose counter is the number of pending bodies registered
under no boundary. -/
theorem C13_counts {m vs w} (h : Reach m vs w) :
    (∀ k b, 1 ≤ k → w.st.bds[k - 1]? = some b →
      b.count = (w.st.pend.filter (·.ctx = some k)).length + (w.st.guards.filter (·.2 = k)).length) ∧
    w.st.loose = (w.st.pend.filter (·.ctx = none)).length := by
  have hi := h.inv
  refine ⟨fun k b hk hb => ?_, by rw [hi.loose, List.countP_eq_length_filter]⟩
  have := hi.counts (k - 1)
  rw [cntL, hb, show k - 1 + 1 = k by omega] at this
  simpa [List.countP_eq_length_filter] using this

/-- every pending body and every guard is registered under an existing boundary (or under none) -/
theorem C13_registered_exists {m vs w} (h : Reach m vs w) :
    (∀ p ∈ w.st.pend, ∀ k, p.ctx = some k → 1 ≤ k ∧ k ≤ w.st.bds.length) ∧
    (∀ g ∈ w.st.guards, 1 ≤ g.2 ∧ g.2 ≤ w.st.bds.length ∧ g.1 ∉ w.st.resDone) :=
  ⟨fun p hp => (h.inv.pendOK p hp).2, h.inv.guardsOK⟩

/-- The blocking render returns (`globalLoading = false`) exactly when no task registered under a boundary
is unfinished: every pending body is registered under no boundary and no guard is held. -/
theorem C13_blocking_returns_iff_all_done {m vs w} (h : Reach m vs w) :
    globalLoading w.st = false ↔ (∀ p ∈ w.st.pend, p.ctx = none) ∧ w.st.guards = [] := by
  have hi := h.inv
  rw [globalLoading, List.any_eq_false]
  constructor
  · intro hz
    have hz' : ∀ j, cntL w.st.bds j = 0 := fun j => by
      rw [cntL]
      cases hb : w.st.bds[j]? with
      | none => rfl
      | some b => simpa using hz b (List.mem_of_getElem? hb)
    constructor
    · intro p hp
      cases hc : p.ctx with
      | none => rfl
      | some k =>
        have hk := (hi.pendOK p hp).2 k hc
        have := hi.counts (k - 1)
        rw [hz', show k - 1 + 1 = k by omega] at this
        have h0 : w.st.pend.countP (·.ctx = some k) = 0 := by omega
        rw [List.countP_eq_zero] at h0
        exact absurd (by simpa using hc) (h0 p hp)
    · apply List.eq_nil_iff_forall_not_mem.mpr
      intro g hg
      have hk := hi.guardsOK g hg
      have := hi.counts (g.2 - 1)
      rw [hz', show g.2 - 1 + 1 = g.2 by omega] at this
      have h0 : w.st.guards.countP (·.2 = g.2) = 0 := by omega
      rw [List.countP_eq_zero] at h0
      exact h0 g hg (by simp)
  · rintro ⟨hp, hg⟩ b hb
    obtain ⟨j, hj⟩ := List.mem_iff_getElem?.mp hb
    have := hi.counts j
    rw [cntL, hj, hg] at this
    have h0 : w.st.pend.countP (·.ctx = some (j + 1)) = 0 := by
      rw [List.countP_eq_zero]; intro p hp'; simp [hp p hp']
    simp only [Option.map_some, Option.getD_some, h0, List.countP_nil] at this
    simp [this]

/-- After a completion event no pending body is left whose task has completed: `settleFuel` is enough.
(Every round of `settle` takes at least one body out of `pend` and the bodies it registers are strictly
smaller: `Σ (sizeAVs body + 1)` over `pend` decreases.) Holds for every world, reachable or not. -/
theorem C13_settle_complete (w : World) (t : Nat) :
    ∀ p ∈ (complete w t).st.pend, p.task ∉ (complete w t).st.doneTasks :=
  complete_no_done_pending w t

/-! ### 6. streaming: a fragment is emitted at most once

`sendReadyK` is `sendReady` returning the emitted keys; `sendTrace fuel w` lists the emissions of
`sendReady fuel w _` as pairs (world just before the emission, boundary); `streamAll vs es` is the run of the
driver (`sendReady` after the first build, then `streamStep` per event) returning the final world and the
keys emitted during the whole run, in order; `sentI w j` is the `sent` flag of the boundary at index `j`
(boundary `j + 1`). -/

/-- `sendReadyK` and `sendTrace` describe `sendReady`: same final world, the fragments are those of the
emitted keys, each rendered in the world just before its emission. -/
theorem C13_sendReadyK_agrees (fuel : Nat) (w : World) (out : List String) (ks : List Nat) :
    (sendReady fuel w out).1 = (sendReadyK fuel w ks).1 ∧
    (sendReady fuel w out).2 = out ++ (sendTrace fuel w).map (fun x => fragmentOf x.1 x.2) ∧
    (sendReadyK fuel w ks).2 = ks ++ (sendTrace fuel w).map (·.2) ∧
    (sendReady fuel w out).2.length - out.length = (sendReadyK fuel w ks).2.length - ks.length := by
  rw [sendReady_trace, sendReadyK_trace]; simp

/-- the world of `streamAll` is the driver's: `ReachS`, the fold of `streamStep` -/
theorem C13_streamAll_world (vs : AVs) (es : List Ev) :
    (streamAll vs es).1 = es.foldl (fun w e => (streamStep w e).1)
      (sendReady ((World.start .stream vs).st.bds.length + 1) (World.start .stream vs) []).1 ∧
    ReachS vs (streamAll vs es).1 := by
  refine ⟨?_, streamAll_reachS vs es⟩
  rw [streamAll, streamRun_world, sendReadyK_trace]

/-- `sendReady` emits only boundaries whose `sent` flag was false, sets the flag, emits no boundary twice,
and sets no other flag; flags that are set stay set. -/
theorem C13_sendReady_flags (fuel : Nat) (w : World) (out : List String) :
    ((sendTrace fuel w).map (·.2)).Nodup ∧
    (∀ k ∈ (sendTrace fuel w).map (·.2),
      sentI w (k - 1) = false ∧ sentI (sendReady fuel w out).1 (k - 1) = true) ∧
    (∀ j, sentI w j = true → sentI (sendReady fuel w out).1 j = true) ∧
    (∀ j, sentI (sendReady fuel w out).1 j = true →
      sentI w j = true ∨ ∃ k ∈ (sendTrace fuel w).map (·.2), k - 1 = j) := by
  rw [sendReady_trace]; exact sendTrace_spec fuel w

/-- an event never changes the `sent` flag or the parent of an existing boundary, and the boundaries it
creates are unsent -/
theorem C13_step_keeps_sent {m vs w} (h : Reach m vs w) (e : Ev) :
    (∀ j, j < w.st.bds.length → sentI (step w e) j = sentI w j) ∧
    (∀ j, w.st.bds.length ≤ j → sentI (step w e) j = false) ∧
    w.st.bds.length ≤ (step w e).st.bds.length :=
  have hx := step_bdsExt h.winv e
  ⟨fun j hj => sentI_ext hx j hj, fun j hj => sentI_new hx j hj, hx.len⟩

/-- Along a whole streaming run every boundary's fragment is emitted at most once. -/
theorem C13_stream_once (vs : AVs) (es : List Ev) : (streamAll vs es).2.Nodup := by
  have h0 : WInv [] (World.start .stream vs) := WInv.start _ _
  have sp := sendTrace_spec ((World.start .stream vs).st.bds.length + 1) (World.start .stream vs)
  have h1 := (sendReady_micros ((World.start .stream vs).st.bds.length + 1) (World.start .stream vs) []).inv h0
  have sr := streamRun_spec es _ h1
  rw [streamAll]
  simp only [sendReadyK_trace, List.nil_append]
  rw [List.nodup_append]
  refine ⟨sp.1, sr.1, fun a ha b hb hab => ?_⟩
  subst hab
  have := (sp.2.1 a ha).2
  rw [sr.2.1 a hb] at this; cases this

/-- ... and exactly the emitted boundaries are marked sent at the end -/
theorem C13_stream_sent_iff_emitted (vs : AVs) (es : List Ev) (k : Nat) (hk : 1 ≤ k) :
    sentI (streamAll vs es).1 (k - 1) = true ↔ k ∈ (streamAll vs es).2 := by
  have h0 : WInv [] (World.start .stream vs) := WInv.start _ _
  have sp := sendTrace_spec ((World.start .stream vs).st.bds.length + 1) (World.start .stream vs)
  have pos := sendTrace_keys_pos ((World.start .stream vs).st.bds.length + 1) _ h0
  have h1 := (sendReady_micros ((World.start .stream vs).st.bds.length + 1) (World.start .stream vs) []).inv h0
  have sr := streamRun_spec es _ h1
  rw [streamAll]
  simp only [sendReadyK_trace, List.nil_append, List.mem_append]
  constructor
  · intro hs
    rcases sr.2.2.1 _ hs with h' | ⟨k', hk', e⟩
    · rcases sp.2.2.2 _ h' with h'' | ⟨k', hk', e⟩
      · rw [start_unsent] at h''; cases h''
      · have := pos k' hk'
        exact Or.inl (by rwa [show k = k' by omega])
    · have := sr.2.2.2.1 k' hk'
      exact Or.inr (by rwa [show k = k' by omega])
  · rintro (h | h)
    · exact sr.2.2.2.2.1 _ (sp.2.1 k h).2
    · exact sr.2.2.2.2.2 k h

/-! ### 7. streaming: a parent's fragment goes out before its children's -/

/-- Whenever `sendReady` emits boundary `k` (in world `w'`, the world just before the emission), `k` is one
of the boundaries the stream waits for, exists, is unsent and not loading, and its parent — if it has
one — has ALREADY been sent. -/
theorem C13_stream_parent_first (fuel : Nat) (w : World) (w' : World) (k : Nat)
    (h : (w', k) ∈ sendTrace fuel w) :
    k ∈ w'.polled ∧ ∃ b, w'.st.bds[k - 1]? = some b ∧ b.sent = false ∧
      loading w'.st (w'.st.bds.length + 1) k = false ∧
      ∀ p, b.parent = some p → sentI w' (p - 1) = true :=
  mem_readyList (sendTrace_mem_ready fuel w _ h).1

/-- In every reachable world a boundary's parent has a smaller key (and the keys the stream waits for are
keys of existing boundaries). -/
theorem C13_parent_smaller {m vs w} (h : Reach m vs w) :
    (∀ k b p, 1 ≤ k → w.st.bds[k - 1]? = some b → b.parent = some p → 1 ≤ p ∧ p < k) ∧
    (∀ k ∈ w.polled ++ w.st.waiting, 1 ≤ k ∧ k ≤ w.st.bds.length) := by
  refine ⟨fun k b p hk hb hp => ?_, fun k hk => ?_⟩
  · have := h.inv.parents (k - 1) b hb p hp; omega
  · have hb := h.inv.bdsLen
    rcases List.mem_append.mp hk with hk | hk
    · have := h.winv.pollOK k hk; omega
    · have := h.inv.waitOK k hk; omega

/-- Along a whole streaming run of the driver, the fragment of a boundary's parent is EARLIER in the output
than the boundary's own: if `k` is emitted and has parent `p` (in the final world; parents never change),
then `p` is among the keys emitted before `k`. -/
theorem C13_stream_parent_before (vs : AVs) (es : List Ev) (l1 l2 : List Nat) (k : Nat)
    (hL : (streamAll vs es).2 = l1 ++ k :: l2) (b : Bd) (p : Nat)
    (hb : (streamAll vs es).1.st.bds[k - 1]? = some b) (hp : b.parent = some p) : p ∈ l1 := by
  have h := streamAll_pfirst vs es
  rw [hL] at h
  rcases h.split p (by rw [parOf, hb]; exact hp) with h' | h'
  · exact h'.elim
  · exact h'

/-! ### 8. a fragment, once its boundary has stopped loading, is final

`Later w w'`: `w'` is `w` followed by any number of `step`s and `sendReady`s (any fuel), in any order.
`regionStr w k` is the content of boundary `k` rendered in shell form (nested boundaries as fallbacks):
`fragmentOf w k` is `regionStr w k` between two fixed strings (`fragmentOf_eq`). -/

/-- If boundary `k` exists and is not loading in a reachable world `w`, then its fragment is the same in
every later world: nothing registered under `k` is left (no pending body, no guard), none will be, and the
region of `k` outside nested boundaries does not change any more. -/
theorem C13_fragment_stable {m vs w w'} (h : Reach m vs w) {k : Nat} (hk : 1 ≤ k ∧ k ≤ w.st.bds.length)
    (hl : loading w.st (w.st.bds.length + 1) k = false) (hlater : Later w w') :
    fragmentOf w' k = fragmentOf w k ∧
    (∀ p ∈ w'.st.pend, p.ctx ≠ some k) ∧ (∀ g ∈ w'.st.guards, g.2 ≠ k) := by
  have := region_stable h.winv (quiet_of_not_loading h.inv hk hl) hlater
  refine ⟨by rw [fragmentOf_eq, fragmentOf_eq, this.2], fun p hp => this.1.2.2.1 p (by simpa using hp),
    this.1.2.2.2⟩

/-- the facts behind it: in a reachable world, a hole in the region of `k` (outside nested boundaries)
belongs to a pending body registered under `k`, and a resource shown there that has not delivered holds a
guard of `k` -/
theorem C13_region_registered {m vs w} (h : Reach m vs w) {k : Nat} {c : RNs}
    (hc : findSuspList k w.tree = some c) :
    (∀ hh, (Item.hole hh, some k) ∈ items (some k) c → ∃ p ∈ w.st.pend, p.hole = hh ∧ p.ctx = some k) ∧
    (∀ r, (Item.res r, some k) ∈ items (some k) c → r ∈ w.st.resDone ∨ (r, k) ∈ w.st.guards) :=
  ⟨fun _ hm => h.inv.holeCtx _ _ (findSuspList_items k w.tree none c hc _ hm),
   fun _ hm => h.inv.resOK _ _ (findSuspList_items k w.tree none c hc _ hm)⟩

/-- in particular: the fragment `sendReady` emits for `k` is the fragment of `k` in every later world (the
stream never sends text that is out of date afterwards) -/
theorem C13_emitted_fragment_final {m vs w} (h : Reach m vs w) (fuel : Nat) {w' w'' : World} {k : Nat}
    (he : (w', k) ∈ sendTrace fuel w) (hlater : Later w' w'') : fragmentOf w'' k = fragmentOf w' k := by
  have hm := sendTrace_mem_ready fuel w _ he
  have hw' : WInv [] w' := hm.2.inv h.winv
  obtain ⟨hpoll, b, hb, _, hload, _⟩ := mem_readyList hm.1
  have hk1 := hw'.pollOK k hpoll
  have hbl := hw'.inv.bdsLen
  have hi : Inv w'.st.pend w'.st w'.tree := by simpa using hw'.inv
  have := region_stable hw' (quiet_of_not_loading hi ⟨hk1.1, by omega⟩ hload) hlater
  rw [fragmentOf_eq, fragmentOf_eq, this.2]

/-! ### 9. what the client sees: streaming, once every fragment has arrived, shows the blocking result

`visible sh st t` is the text of the page with every marker, key and wrapper dropped, where boundary `k`
shows its content if `sh k` and the fallback otherwise (tree level; the application of the fragments to
the real output is checked by the harness). `renderToks` cuts the rendered text into pieces
(`renderList_toks`: the text is their concatenation), `Tok.vis` is what a piece shows. -/

/-- the rendered text is the concatenation of its pieces, for both ways of rendering -/
theorem C13_render_pieces (st : St) (how : How) (t : RNs) :
    renderList st how t = cat ((renderToks st how t).map Tok.str) := renderList_toks st how t

/-- the final rendering (sync, blocking) shows `visible` with every boundary showing its content -/
theorem C13_final_shows (st : St) (t : RNs) :
    (renderToks st .final t).filterMap Tok.vis = visible (fun _ => true) st t := (visibleList_final st t).symm

/-- the shell rendering (of the page, or of a boundary's region in its fragment) shows `visible` with every
(nested) boundary showing its fallback -/
theorem C13_shell_shows (st : St) (t : RNs) :
    (renderToks st .shell t).filterMap Tok.vis = visible (fun _ => false) st t := (visibleList_shell st t).symm

/-- What "shell + fragments" means at tree level. The shell is the shell rendering of the whole tree, the
fragment of `k` the shell rendering of the content of `k` (`regionOf w k`); both contain, for every
boundary `j` nested directly in them, a slot (`Tok.slot j`, showing the fallback). For every reachable world
and every set `sh` of boundaries, `visible sh` of the tree — and of every boundary's content — is its shell
rendering with slot `j` replaced by `visible sh` of the content of `j` if `sh j` (that is what applying the
fragment of `j` does), and left as the fallback otherwise. -/
theorem C13_page_from_fragments {m vs w} (h : Reach m vs w) (sh : Nat → Bool) :
    let slot := fun j => if sh j then visible sh w.st (regionOf w j) else ["fb"]
    visible sh w.st w.tree = fillSlots slot (renderToks w.st .shell w.tree) ∧
    ∀ k c, findSuspList k w.tree = some c →
      visible sh w.st c = fillSlots slot (renderToks w.st .shell c) := by
  intro slot
  have hnd : (suspKeys w.tree).Nodup := by
    rw [List.nodup_iff_count]; intro x; rw [h.inv.susps x]; split <;> omega
  have hreg : ∀ y ∈ allSusps w.tree, regionOf w y.1 = y.2 := fun y hy => by
    rw [regionOf, findSuspList_of_all w.tree hnd y.1 y.2 hy]; rfl
  refine ⟨?_, fun k c hc => ?_⟩
  · rw [← visSub_toks]
    exact visible_visSub sh w.st (regionOf w) w.tree (fun y hy => hreg y (shell_sub_all _ y hy))
  · rw [← visSub_toks]
    refine visible_visSub sh w.st (regionOf w) c (fun y hy => hreg y ?_)
    exact all_trans w.tree k c (findSuspList_mem_all k w.tree c hc) y (shell_sub_all _ y hy)

/-- In a reachable world in which every boundary has been sent, the page assembled from the fragments
(`sent` boundaries show their content) shows what the final rendering shows. -/
theorem C13_stream_equals_blocking {m vs w} (h : Reach m vs w) (hall : ∀ b ∈ w.st.bds, b.sent = true) :
    visible (fun k => sentI w (k - 1)) w.st w.tree = visible (fun _ => true) w.st w.tree := by
  apply visible_congr
  intro k hk
  have hpos := List.count_pos_iff.mpr hk
  rw [h.inv.susps k] at hpos
  have hb := h.inv.bdsLen
  have hk' : 1 ≤ k ∧ k < w.st.nextSusp := by split at hpos <;> omega
  have hlt : k - 1 < w.st.bds.length := by omega
  rw [sentI, List.getElem?_eq_getElem hlt]
  simpa using hall _ (List.getElem_mem hlt)

/-- the same for the streaming run of the driver: if at the end every boundary has been emitted, the page
shows the final rendering of the last world -/
theorem C13_stream_run_equals_blocking (vs : AVs) (es : List Ev)
    (hall : ∀ k, 1 ≤ k → k ≤ (streamAll vs es).1.st.bds.length → k ∈ (streamAll vs es).2) :
    visible (fun k => decide (k ∈ (streamAll vs es).2)) (streamAll vs es).1.st (streamAll vs es).1.tree =
      visible (fun _ => true) (streamAll vs es).1.st (streamAll vs es).1.tree := by
  have h := (streamAll_reachS vs es).reach
  apply visible_congr
  intro k hk
  have hpos := List.count_pos_iff.mpr hk
  rw [h.inv.susps k] at hpos
  have hb := h.inv.bdsLen
  have hk' : 1 ≤ k ∧ k < (streamAll vs es).1.st.nextSusp := by split at hpos <;> omega
  simpa using hall k hk'.1 (by omega)

/-! ### the statements are not vacuous: concrete runs -/

/-- `<div><Suspense><p/><Async task=0><span>t0</span>{res 5}</Async></Suspense><b/></div>` -/
def exCountView : AVs :=
  avs [.el 0 (avs [.susp (avs [.el 1 .nil, .acomp 0 (avs [.el 2 (avs [.text 0]), .res 5])]), .el 3 .nil])]

-- one pending body under boundary 1; when it is built it reads the loading resource 5: a guard replaces it;
-- when the resource delivers nothing is left and the blocking render returns
example : (World.start .block exCountView).st.bds.map (·.count) = [1] ∧
    (World.start .block exCountView).st.pend.map (·.ctx) = [some 1] ∧
    globalLoading (World.start .block exCountView).st = true := by decide +kernel
example : (run (World.start .block exCountView) [.c 0]).st.bds.map (·.count) = [1] ∧
    (run (World.start .block exCountView) [.c 0]).st.pend.length = 0 ∧
    (run (World.start .block exCountView) [.c 0]).st.guards = [(5, 1)] := by decide +kernel
example : (run (World.start .block exCountView) [.c 0, .r 5]).st.bds.map (·.count) = [0] ∧
    globalLoading (run (World.start .block exCountView) [.c 0, .r 5]).st = false := by decide +kernel

-- a body created after its task completed resumes in the same `settle` (second round)
example : (run (World.start .block (avs [.acomp 0 (avs [.acomp 0 (avs [.text 1])])])) [.c 0]).st.pend.length = 0 ∧
    (World.start .block (avs [.acomp 0 (avs [.acomp 0 (avs [.text 1])])])).st.pend.length = 1 := by
  decide +kernel

/-- three nested boundaries, each waiting for its own task -/
def exStreamView : AVs :=
  avs [.susp (avs [.acomp 0 (avs [.text 0]),
    .susp (avs [.acomp 1 (avs [.text 1]), .susp (avs [.acomp 2 (avs [.text 2])])])])]

-- tasks 1 and 2 complete first: nothing can be sent (the outer boundary is still loading); when task 0
-- completes the three fragments go out, parents first
example : (streamAll exStreamView [.c 1, .c 2]).2 = [] := by decide +kernel
example : (streamAll exStreamView [.c 1, .c 2, .c 0]).2 = [1, 2, 3] := by decide +kernel
example : (streamStep (streamAll exStreamView [.c 1, .c 2]).1 (.c 0)).2.length = 3 := by decide +kernel
example : (streamAll exStreamView [.c 1, .c 2, .c 0]).1.st.bds.map (·.parent) = [none, some 1, some 2] ∧
    (streamAll exStreamView [.c 1, .c 2, .c 0]).1.st.bds.map (·.sent) = [true, true, true] ∧
    (streamAll exStreamView [.c 1, .c 2, .c 0]).1.closed = true := by decide +kernel
-- in the other order each fragment goes out with its own event
example : (streamAll exStreamView [.c 0]).2 = [1] ∧ (streamAll exStreamView [.c 0, .c 1]).2 = [1, 2] ∧
    (streamAll exStreamView [.c 0, .c 1, .c 2]).2 = [1, 2, 3] := by decide +kernel

-- after task 0 boundary 1 is not loading: its fragment is the same two events later (`C13_fragment_stable`)
example : loading (run (World.start .stream exStreamView) [.c 0]).st 4 1 = false ∧
    regionStr (run (World.start .stream exStreamView) [.c 0, .c 1, .c 2]) 1 =
      regionStr (run (World.start .stream exStreamView) [.c 0]) 1 := by decide +kernel
-- while boundary 3, whose own counter is 0 after task 2, still counts as loading because of its ancestors
example : loading (run (World.start .stream exStreamView) [.c 2]).st 4 3 = true := by decide +kernel

-- what the client sees: the shell shows the outer fallback, the page with all fragments the three texts
example : visible (fun _ => false) (streamAll exStreamView [.c 1, .c 2, .c 0]).1.st
      (streamAll exStreamView [.c 1, .c 2, .c 0]).1.tree = ["fb"] ∧
    visible (fun k => decide (k ∈ (streamAll exStreamView [.c 1, .c 2, .c 0]).2))
      (streamAll exStreamView [.c 1, .c 2, .c 0]).1.st (streamAll exStreamView [.c 1, .c 2, .c 0]).1.tree =
      ["t0", "t1", "t2"] ∧
    visible (fun k => decide (k ∈ (streamAll exStreamView [.c 0, .c 1]).2))
      (streamAll exStreamView [.c 0, .c 1]).1.st (streamAll exStreamView [.c 0, .c 1]).1.tree =
      ["t0", "t1", "fb"] := by decide +kernel

end SycVerif.Assr
