/-
C13 (server side) — the clauses about server rendering with suspense.

Model: `SycVerif/Model/Assr.lean`; reachable worlds as in `Props/C12Assr.lean` (`Reach`, `ReachB`, `ReachS`).
-/
import SycVerif.Lemmas.Assr
namespace SycVerif.Assr

/-! ### 5. the counters -/

/-- In every reachable world the counter of boundary `k` is the number of pending bodies registered under
`k` plus the number of guards held for `k`; the loose counter is the number of pending bodies registered
under no boundary. -/
theorem C13_counts {m vs w} (h : Reach m vs w) :
    (∀ k b, 1 ≤ k → w.st.bds[k - 1]? = some b →
      b.count = (w.st.pend.filter (·.ctx = some k)).length + (w.st.guards.filter (·.2 = k)).length) ∧
    w.st.loose = (w.st.pend.filter (·.ctx = none)).length := by
  have hi := h.inv
  refine ⟨fun k b hk hb => ?_, by rw [hi.loose, List.countP_eq_length_filter]⟩
  have := hi.counts (k - 1)
  rw [cntL, hb, show k - 1 + 1 = k by omega] at this
  simpa [List.countP_eq_length_filter] using this

/-- every pending body and every guard is registered under an existing boundary (or under none) -/
theorem C13_registered_exists {m vs w} (h : Reach m vs w) :
    (∀ p ∈ w.st.pend, ∀ k, p.ctx = some k → 1 ≤ k ∧ k ≤ w.st.bds.length) ∧
    (∀ g ∈ w.st.guards, 1 ≤ g.2 ∧ g.2 ≤ w.st.bds.length ∧ g.1 ∉ w.st.resDone) :=
  ⟨fun p hp => (h.inv.pendOK p hp).2, h.inv.guardsOK⟩

/-- The blocking render returns (`globalLoading = false`) exactly when no task registered under a boundary
is unfinished: every pending body is registered under no boundary and no guard is held. -/
theorem C13_blocking_returns_iff_all_done {m vs w} (h : Reach m vs w) :
    globalLoading w.st = false ↔ (∀ p ∈ w.st.pend, p.ctx = none) ∧ w.st.guards = [] := by
  have hi := h.inv
  rw [globalLoading, List.any_eq_false]
  constructor
  · intro hz
    have hz' : ∀ j, cntL w.st.bds j = 0 := fun j => by
      rw [cntL]
      cases hb : w.st.bds[j]? with
      | none => rfl
      | some b => simpa using hz b (List.mem_of_getElem? hb)
    constructor
    · intro p hp
      cases hc : p.ctx with
      | none => rfl
      | some k =>
        have hk := (hi.pendOK p hp).2 k hc
        have := hi.counts (k - 1)
        rw [hz', show k - 1 + 1 = k by omega] at this
        have h0 : w.st.pend.countP (·.ctx = some k) = 0 := by omega
        rw [List.countP_eq_zero] at h0
        exact absurd (by simpa using hc) (h0 p hp)
    · apply List.eq_nil_iff_forall_not_mem.mpr
      intro g hg
      have hk := hi.guardsOK g hg
      have := hi.counts (g.2 - 1)
      rw [hz', show g.2 - 1 + 1 = g.2 by omega] at this
      have h0 : w.st.guards.countP (·.2 = g.2) = 0 := by omega
      rw [List.countP_eq_zero] at h0
      exact h0 g hg (by simp)
  · rintro ⟨hp, hg⟩ b hb
    obtain ⟨j, hj⟩ := List.mem_iff_getElem?.mp hb
    have := hi.counts j
    rw [cntL, hj, hg] at this
    have h0 : w.st.pend.countP (·.ctx = some (j + 1)) = 0 := by
      rw [List.countP_eq_zero]; intro p hp'; simp [hp p hp']
    simp only [Option.map_some, Option.getD_some, h0, List.countP_nil] at this
    simp [this]

/-- After a completion event no pending body is left whose task has completed: `settleFuel` is enough.
(Every round of `settle` takes at least one body out of `pend` and the bodies it registers are strictly
smaller: `Σ (sizeAVs body + 1)` over `pend` decreases.) Holds for every world, reachable or not. -/
theorem C13_settle_complete (w : World) (t : Nat) :
    ∀ p ∈ (complete w t).st.pend, p.task ∉ (complete w t).st.doneTasks :=
  complete_no_done_pending w t

/-! ### 6. streaming: a fragment is emitted at most once

`sendReadyK` is `sendReady` returning the emitted keys; `sendTrace fuel w` lists the emissions of
`sendReady fuel w _` as pairs (world just before the emission, boundary); `streamAll vs es` is the run of the
driver (`sendReady` after the first build, then `streamStep` per event) returning the final world and the
keys emitted during the whole run, in order; `sentI w j` is the `sent` flag of the boundary at index `j`
(boundary `j + 1`). -/

/-- `sendReadyK` and `sendTrace` describe `sendReady`: same final world, the fragments are those of the
emitted keys, each rendered in the world just before its emission. -/
theorem C13_sendReadyK_agrees (fuel : Nat) (w : World) (out : List String) (ks : List Nat) :
    (sendReady fuel w out).1 = (sendReadyK fuel w ks).1 ∧
    (sendReady fuel w out).2 = out ++ (sendTrace fuel w).map (fun x => fragmentOf x.1 x.2) ∧
    (sendReadyK fuel w ks).2 = ks ++ (sendTrace fuel w).map (·.2) ∧
    (sendReady fuel w out).2.length - out.length = (sendReadyK fuel w ks).2.length - ks.length := by
  rw [sendReady_trace, sendReadyK_trace]; simp

/-- the world of `streamAll` is the driver's: `ReachS`, the fold of `streamStep` -/
theorem C13_streamAll_world (vs : AVs) (es : List Ev) :
    (streamAll vs es).1 = es.foldl (fun w e => (streamStep w e).1)
      (sendReady ((World.start .stream vs).st.bds.length + 1) (World.start .stream vs) []).1 ∧
    ReachS vs (streamAll vs es).1 := by
  refine ⟨?_, streamAll_reachS vs es⟩
  rw [streamAll, streamRun_world, sendReadyK_trace]

/-- `sendReady` emits only boundaries whose `sent` flag was false, sets the flag, emits no boundary twice,
and sets no other flag; flags that are set stay set. -/
theorem C13_sendReady_flags (fuel : Nat) (w : World) (out : List String) :
    ((sendTrace fuel w).map (·.2)).Nodup ∧
    (∀ k ∈ (sendTrace fuel w).map (·.2),
      sentI w (k - 1) = false ∧ sentI (sendReady fuel w out).1 (k - 1) = true) ∧
    (∀ j, sentI w j = true → sentI (sendReady fuel w out).1 j = true) ∧
    (∀ j, sentI (sendReady fuel w out).1 j = true →
      sentI w j = true ∨ ∃ k ∈ (sendTrace fuel w).map (·.2), k - 1 = j) := by
  rw [sendReady_trace]; exact sendTrace_spec fuel w

/-- an event never changes the `sent` flag or the parent of an existing boundary, and the boundaries it
creates are unsent -/
theorem C13_step_keeps_sent {m vs w} (h : Reach m vs w) (e : Ev) :
    (∀ j, j < w.st.bds.length → sentI (step w e) j = sentI w j) ∧
    (∀ j, w.st.bds.length ≤ j → sentI (step w e) j = false) ∧
    w.st.bds.length ≤ (step w e).st.bds.length :=
  have hx := step_bdsExt h.winv e
  ⟨fun j hj => sentI_ext hx j hj, fun j hj => sentI_new hx j hj, hx.len⟩

/-- Along a whole streaming run every boundary's fragment is emitted at most once. -/
theorem C13_stream_once (vs : AVs) (es : List Ev) : (streamAll vs es).2.Nodup := by
  have h0 : WInv [] (World.start .stream vs) := WInv.start _ _
  have sp := sendTrace_spec ((World.start .stream vs).st.bds.length + 1) (World.start .stream vs)
  have h1 := (sendReady_micros ((World.start .stream vs).st.bds.length + 1) (World.start .stream vs) []).inv h0
  have sr := streamRun_spec es _ h1
  rw [streamAll]
  simp only [sendReadyK_trace, List.nil_append]
  rw [List.nodup_append]
  refine ⟨sp.1, sr.1, fun a ha b hb hab => ?_⟩
  subst hab
  have := (sp.2.1 a ha).2
  rw [sr.2.1 a hb] at this; cases this

/-- ... and exactly the emitted boundaries are marked sent at the end -/
theorem C13_stream_sent_iff_emitted (vs : AVs) (es : List Ev) (k : Nat) (hk : 1 ≤ k) :
    sentI (streamAll vs es).1 (k - 1) = true ↔ k ∈ (streamAll vs es).2 := by
  have h0 : WInv [] (World.start .stream vs) := WInv.start _ _
  have sp := sendTrace_spec ((World.start .stream vs).st.bds.length + 1) (World.start .stream vs)
  have pos := sendTrace_keys_pos ((World.start .stream vs).st.bds.length + 1) _ h0
  have h1 := (sendReady_micros ((World.start .stream vs).st.bds.length + 1) (World.start .stream vs) []).inv h0
  have sr := streamRun_spec es _ h1
  rw [streamAll]
  simp only [sendReadyK_trace, List.nil_append, List.mem_append]
  constructor
  · intro hs
    rcases sr.2.2.1 _ hs with h' | ⟨k', hk', e⟩
    · rcases sp.2.2.2 _ h' with h'' | ⟨k', hk', e⟩
      · rw [start_unsent] at h''; cases h''
      · have := pos k' hk'
        exact Or.inl (by rwa [show k = k' by omega])
    · have := sr.2.2.2.1 k' hk'
      exact Or.inr (by rwa [show k = k' by omega])
  · rintro (h | h)
    · exact sr.2.2.2.2.1 _ (sp.2.1 k h).2
    · exact sr.2.2.2.2.2 k h

end SycVerif.Assr
