import SycVerif.Model.Async
/-!
C13 for boundaries that READ a resource (`Resource::deref` under a suspense boundary; model `ResR`/`rrStep`
in `Model/Async.lean`, compared with the real code by the mode `resourcerd` of the async engine): a boundary
that read the resource while a fetch was outstanding is kept loading until the LATEST fetch delivers — a
dependency change in between (which supersedes the fetch) does not release it —, a boundary that read it in
between is suspended by the next fetch, and nothing stays loading once the latest fetch has delivered or the
owner of the resource is gone.
-/
namespace SycVerif.Async

def runRR (s : ResR) (evs : List RREv) : ResR := evs.foldl rrStep s

/-- the resource part: loading exactly while the latest fetch has not delivered -/
def ResOk (r : Res) : Prop := r.loading = !r.completedLatest

/-- what holds of the readers in every reachable state -/
def ReadersOk (s : ResR) : Prop :=
  ResOk s.res ∧
  ∀ r ∈ s.readers, (r.guard = true → s.res.loading = true ∧ s.alive = true) ∧ (r.recorded = true → r.guard = false)

theorem resOk_init (d : Nat) : ResOk (Res.init d) := rfl

theorem resOk_step {r : Res} (h : ResOk r) (e : REv) : ResOk (rstep r e) := by
  cases e with
  | write v => simp [rstep, ResOk]
  | finish k =>
    simp only [rstep]
    split
    · simp [ResOk]
    · exact h

theorem readersOk_init (d : Nat) : ReadersOk (ResR.init d) := by
  refine ⟨resOk_init d, ?_⟩
  intro r hr; simp [ResR.init] at hr

theorem readersOk_step {s : ResR} (h : ReadersOk s) (e : RREv) : ReadersOk (rrStep s e) := by
  obtain ⟨hres, hrd⟩ := h
  cases e with
  | read =>
    cases ha : s.alive with
    | false =>
      have : rrStep s .read = s := by simp [rrStep, ha]
      rw [this]; exact ⟨hres, hrd⟩
    | true =>
      cases hl : s.res.loading with
      | true =>
        have : rrStep s .read = { s with readers := s.readers ++ [⟨true, false⟩] } := by simp [rrStep, ha, hl]
        rw [this]
        refine ⟨hres, ?_⟩
        intro r hr
        rcases List.mem_append.mp hr with hr | hr
        · exact hrd r hr
        · simp only [List.mem_singleton] at hr; subst hr
          exact ⟨fun _ => ⟨hl, ha⟩, fun h => by cases h⟩
      | false =>
        have : rrStep s .read = { s with readers := s.readers ++ [⟨false, true⟩] } := by simp [rrStep, ha, hl]
        rw [this]
        refine ⟨hres, ?_⟩
        intro r hr
        rcases List.mem_append.mp hr with hr | hr
        · exact hrd r hr
        · simp only [List.mem_singleton] at hr; subst hr
          exact ⟨fun h => (by cases h), fun _ => rfl⟩
  | dropOldest =>
    refine ⟨hres, ?_⟩
    intro r hr
    exact hrd r (List.mem_of_mem_tail hr)
  | disposeOwner =>
    refine ⟨hres, ?_⟩
    intro r hr
    simp only [rrStep, List.mem_map] at hr
    obtain ⟨_, _, rfl⟩ := hr
    exact ⟨fun h => (by cases h), fun _ => rfl⟩
  | ev e =>
    cases ha : s.alive with
    | false =>
      have : rrStep s (.ev e) = s := by cases e <;> simp [rrStep, ha]
      rw [this]; exact ⟨hres, hrd⟩
    | true =>
      cases e with
      | write v =>
        have : rrStep s (.ev (.write v)) =
            { s with res := rstep s.res (.write v),
                     readers := s.readers.map fun r => if r.recorded then ⟨true, false⟩ else r } := by
          simp [rrStep, ha]
        rw [this]
        refine ⟨resOk_step hres _, ?_⟩
        intro r hr
        simp only [List.mem_map] at hr
        obtain ⟨r0, hr0, rfl⟩ := hr
        have hload : (rstep s.res (.write v)).loading = true := rfl
        cases hrec : r0.recorded with
        | true => exact ⟨fun _ => ⟨hload, ha⟩, fun h => by simp at h⟩
        | false =>
          refine ⟨fun _ => ⟨hload, ha⟩, fun h => ?_⟩
          simp [hrec] at h
      | finish k =>
        cases hd : (decide (k = s.res.started) && !s.res.completedLatest) with
        | true =>
          have : rrStep s (.ev (.finish k)) =
              { s with res := rstep s.res (.finish k),
                       readers := s.readers.map fun r => { r with guard := false } } := by
            simp only [rrStep, ha, hd]; simp
          rw [this]
          refine ⟨resOk_step hres _, ?_⟩
          intro r hr
          simp only [List.mem_map] at hr
          obtain ⟨r0, hr0, rfl⟩ := hr
          exact ⟨fun h => (by cases h), fun _ => rfl⟩
        | false =>
          have : rrStep s (.ev (.finish k)) = s := by
            simp only [rrStep, rstep, ha, hd]
            cases s; simp only at ha; subst ha; rfl
          rw [this]; exact ⟨hres, hrd⟩

/-- every state reachable by any sequence of reads, reader disposals, writes, completions (in any order, of
any fetch) and the disposal of the owner -/
theorem C13_readers_reachable (d : Nat) (evs : List RREv) : ReadersOk (runRR (ResR.init d) evs) := by
  suffices h : ∀ s, ReadersOk s → ReadersOk (runRR s evs) from h _ (readersOk_init d)
  induction evs with
  | nil => intro s h; exact h
  | cons e es ih => intro s h; exact ih _ (readersOk_step h e)

/-- nothing stays loading once the latest fetch has delivered, or once the owner of the resource is gone -/
theorem C13_readers_released (d : Nat) (evs : List RREv) :
    let s := runRR (ResR.init d) evs
    (s.res.loading = false ∨ s.alive = false) → ∀ r ∈ s.readers, r.guard = false := by
  intro s h r hr
  have hk := (C13_readers_reachable d evs).2 r hr
  cases hg : r.guard with
  | false => rfl
  | true =>
    obtain ⟨hl, ha⟩ := hk.1 hg
    rcases h with h | h
    · rw [hl] at h; cases h
    · rw [ha] at h; cases h

/-- a dependency change does NOT release a boundary: the guard of the `i`-th reader survives every write
(the superseded fetch can deliver nothing, the boundary waits for the latest one) -/
theorem C13_reader_guard_survives_write (s : ResR) (v : Nat) (i : Nat) (r : Reader)
    (h : s.readers[i]? = some r) (hg : r.guard = true) :
    ∃ r', (rrStep s (.ev (.write v))).readers[i]? = some r' ∧ r'.guard = true := by
  unfold rrStep
  by_cases ha : s.alive = true
  · simp only [ha, Bool.not_true, Bool.false_eq_true, if_false, List.getElem?_map, h, Option.map_some]
    by_cases hrec : r.recorded = true
    · exact ⟨⟨true, false⟩, by simp [hrec], rfl⟩
    · exact ⟨r, by simp [hrec], hg⟩
  · simp only [Bool.not_eq_true] at ha
    simp only [ha, Bool.not_false, if_true]
    exact ⟨r, h, hg⟩

/-- … and so does the completion of a fetch that is not the latest one -/
theorem C13_reader_guard_survives_stale_finish (s : ResR) (k : Nat) (i : Nat) (r : Reader)
    (h : s.readers[i]? = some r) (hg : r.guard = true) (hk : k ≠ s.res.started) :
    (rrStep s (.ev (.finish k))).readers[i]? = some r := by
  have _ := hg
  unfold rrStep
  by_cases ha : s.alive = true
  · have : (k = s.res.started && !s.res.completedLatest) = false := by simp [hk]
    simp only [ha, Bool.not_true, Bool.false_eq_true, if_false, this]
    exact h
  · simp only [Bool.not_eq_true] at ha
    simp only [ha, Bool.not_false, if_true]
    exact h

/-- a boundary that reads the resource while a fetch is outstanding is loading at once; one that reads it in
between is suspended by the next fetch -/
theorem C13_reader_read (s : ResR) (ha : s.alive = true) :
    (rrStep s .read).readers = s.readers ++ [if s.res.loading then ⟨true, false⟩ else ⟨false, true⟩] := by
  unfold rrStep
  by_cases hl : s.res.loading = true <;> simp [ha, hl]

theorem C13_recorded_reader_suspended_by_next_fetch (s : ResR) (v : Nat) (i : Nat) (r : Reader) (ha : s.alive = true)
    (h : s.readers[i]? = some r) (hr : r.recorded = true) :
    (rrStep s (.ev (.write v))).readers[i]? = some ⟨true, false⟩ := by
  unfold rrStep
  simp [ha, h, hr]

/-- non-vacuity: read while loading, supersede twice, complete the stale fetches, complete the latest -/
example :
    let s := runRR (ResR.init 7) [.read, .ev (.write 8), .ev (.finish 1), .ev (.write 9), .ev (.finish 2)]
    s.readers = [⟨true, false⟩] ∧ (rrStep s (.ev (.finish 3))).readers = [⟨false, false⟩] := by decide

end SycVerif.Async
