/-
Model of client-side rendering (packages/sycamore-web/src/node/dom_node.rs `_create_dynamic_view`,
`set_attribute`/`set_bool_attribute` effects, components.rs `Show`, dom_render.rs `render_in_scope`):
a view description is MOUNTED into an instance tree whose nodes carry identities; a signal write
UPDATES the instance in place: only dynamic regions that read the written signal are re-created.
Dynamic text and dynamic attributes are effects that always mirror the store, so they are functions of
the store at serialisation time; `Show` keeps its children alive (parked in a DocumentFragment) while
hidden. Reactive scheduling is abstracted by its contract (C01–C03): exactly the regions that track the
written signal re-run, outer regions before inner ones, and an outer re-run destroys the inner regions.
No imports: part of the native driver.
-/
namespace SycVerif.DomView

abbrev Str := List Nat
abbrev Store := List Nat                       -- signal i ↦ value

def Store.get (σ : Store) (i : Nat) : Nat := σ.getD i 0

/-- attribute values as the harness builds them -/
inductive AttrV where
  | static (v : Str)
  | dyn (sig : Nat)          -- `move || if v % 3 == 0 { None } else { Some(v.to_string()) }`
  | dynBool (sig : Nat)      -- `move || v % 2 == 1`
  deriving Repr

mutual
inductive VD where
  | el (tag : Str) (attrs : List (Str × AttrV)) (children : VDList)
  | text (s : Str)
  | dynText (sig : Nat)                        -- `View::from_dynamic(move || sig.get().to_string())`
  | dynView (sig : Nat) (alts : VDAlts)        -- `View::from_dynamic(move || alts[sig.get() % n])`
  | show (sig : Nat) (children : VDList)       -- `Show(when = sig.get() % 2 == 1) { children }`
  | frag (children : VDList)
  | noHydrate (children : VDList)              -- `NoHydrate { children }`: on the client (not hydrating) just the children
inductive VDList where
  | nil | cons (v : VD) (rest : VDList)
inductive VDAlts where
  | nil | cons (alt : VDList) (rest : VDAlts)
end

def VDAlts.length : VDAlts → Nat
  | .nil => 0 | .cons _ r => r.length + 1
def VDAlts.get : VDAlts → Nat → VDList
  | .nil, _ => .nil
  | .cons a _, 0 => a
  | .cons _ r, n + 1 => r.get n

mutual
/-- a mounted view: every DOM node carries its identity -/
inductive Inst where
  | el (id : Nat) (tag : Str) (attrs : List (Str × AttrV)) (children : InstList)
  | text (id : Nat) (s : Str)
  | dynText (id : Nat) (sig : Nat)
  | dynView (startId endId : Nat) (sig : Nat) (alts : VDAlts) (cur : InstList)
  | show (startId endId : Nat) (sig : Nat) (children : InstList)
  | frag (children : InstList)
  | island (children : InstList)               -- mounted `NoHydrate`: behaves like a fragment on the client
inductive InstList where
  | nil | cons (i : Inst) (rest : InstList)
end

mutual
/-- initial render: allocate a fresh identity for every node created -/
def mount (σ : Store) : VD → Nat → Inst × Nat
  | .el tag attrs cs, k =>
    let (ci, k') := mountList σ cs (k + 1)
    (.el k tag attrs ci, k')
  | .text s, k => (.text k s, k + 1)
  | .dynText sig, k => (.dynText k sig, k + 1)
  | .dynView sig alts, k =>
    let n := alts.length
    let (ci, k') := mountAlt σ alts (if n = 0 then 0 else σ.get sig % n) (k + 2)
    (.dynView k (k + 1) sig alts ci, k')
  | .show sig cs, k =>
    let (ci, k') := mountList σ cs (k + 2)
    (.show k (k + 1) sig ci, k')
  | .frag cs, k =>
    let (ci, k') := mountList σ cs k
    (.frag ci, k')
  | .noHydrate cs, k =>
    let (ci, k') := mountList σ cs k
    (.island ci, k')
def mountList (σ : Store) : VDList → Nat → InstList × Nat
  | .nil, k => (.nil, k)
  | .cons v rest, k =>
    let (i, k1) := mount σ v k
    let (is, k2) := mountList σ rest k1
    (.cons i is, k2)
/-- mount alternative number `idx` -/
def mountAlt (σ : Store) : VDAlts → Nat → Nat → InstList × Nat
  | .nil, _, k => (.nil, k)
  | .cons a _, 0, k => mountList σ a k
  | .cons _ r, idx + 1, k => mountAlt σ r idx k
end

mutual
/-- a write to signal `s` (the store `σ` already holds the new value): every dynamic view that reads
`s` re-creates its content; everything else is kept (and updated in place) -/
def update (σ : Store) (s : Nat) : Inst → Nat → Inst × Nat
  | .el id tag attrs cs, k =>
    let (cs', k') := updateList σ s cs k
    (.el id tag attrs cs', k')
  | .text id t, k => (.text id t, k)
  | .dynText id sig, k => (.dynText id sig, k)
  | .dynView a b sig alts cur, k =>
    if sig = s then
      let n := alts.length
      let (ci, k') := mountAlt σ alts (if n = 0 then 0 else σ.get sig % n) k
      (.dynView a b sig alts ci, k')
    else
      let (cur', k') := updateList σ s cur k
      (.dynView a b sig alts cur', k')
  | .show a b sig cs, k =>
    let (cs', k') := updateList σ s cs k
    (.show a b sig cs', k')
  | .frag cs, k =>
    let (cs', k') := updateList σ s cs k
    (.frag cs', k')
  | .island cs, k =>
    let (cs', k') := updateList σ s cs k
    (.island cs', k')
def updateList (σ : Store) (s : Nat) : InstList → Nat → InstList × Nat
  | .nil, k => (.nil, k)
  | .cons i rest, k =>
    let (i', k1) := update σ s i k
    let (r', k2) := updateList σ s rest k1
    (.cons i' r', k2)
end

/-- what is in the document -/
inductive DTree where
  | elem (id : Nat) (tag : Str) (attrs : List (Str × Str)) (children : List DTree)
  | text (id : Nat) (s : Str)
  | comment (id : Nat)
  deriving Repr

def natToStr (n : Nat) : Str := (toString n).toList.map Char.toNat

/-- the string a dynamic text shows for the value of its signal (the harness closure): empty for multiples
of four, so that empty dynamic texts — a corner of hydration — occur -/
def dynTextStr (n : Nat) : Str :=
  if n % 4 = 0 then [] else if n % 8 = 7 then natToStr n ++ [38, 60] else natToStr n   -- `v&<` for v ≡ 7 (mod 8)

/-- attributes present on the element for the current store -/
def evalAttrs (σ : Store) : List (Str × AttrV) → List (Str × Str)
  | [] => []
  | (n, .static v) :: r => (n, v) :: evalAttrs σ r
  | (n, .dyn sig) :: r => if σ.get sig % 3 = 0 then evalAttrs σ r else (n, natToStr (σ.get sig)) :: evalAttrs σ r
  | (n, .dynBool sig) :: r => if σ.get sig % 2 = 1 then (n, []) :: evalAttrs σ r else evalAttrs σ r

mutual
def dom (σ : Store) : Inst → List DTree
  | .el id tag attrs cs => [.elem id tag (evalAttrs σ attrs) (domList σ cs)]
  | .text id s => [.text id s]
  | .dynText id sig => [.text id (dynTextStr (σ.get sig))]
  | .dynView a b _ _ cur => [.comment a] ++ domList σ cur ++ [.comment b]
  | .show a b sig cs => [.comment a] ++ (if σ.get sig % 2 = 1 then domList σ cs else []) ++ [.comment b]
  | .frag cs => domList σ cs
  | .island cs => domList σ cs
def domList (σ : Store) : InstList → List DTree
  | .nil => []
  | .cons i rest => dom σ i ++ domList σ rest
end

end SycVerif.DomView
