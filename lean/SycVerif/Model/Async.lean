/-
Event-level model of sycamore's async layer (packages/sycamore-futures/src/{lib,suspense}.rs,
packages/sycamore-web/src/resource.rs), after the repairs D5 (`SuspenseTaskGuard::drop` tolerates a
disposed counter) and D9 (`use_is_loading_global` skips disposed counters).

The executor (tokio `LocalSet`), `futures::Abortable` and wakers are NOT modelled: the model assumes
(1) an aborted task is never polled again and is dropped at the next executor turn, (2) completing an
await point of a live task resumes its body exactly once. The correspondence check exercises these
assumptions on the real executor. No imports: part of the native driver.
-/
namespace SycVerif.Async

/-! ### scopes, suspense boundaries, tasks -/

structure Scope where
  parent : Option Nat
  alive : Bool
  deriving Repr

/-- `SuspenseScope` -/
structure Boundary where
  parent : Option Nat          -- enclosing boundary (`try_use_context::<SuspenseScope>()` at creation)
  counterScope : Nat           -- scope in which `tasks_remaining` was created (the caller's scope)
  innerScope : Nat             -- scope created by `provide_context_in_new_scope`
  remaining : Nat              -- `tasks_remaining`
  deriving Repr

inductive TStatus where
  | pending | done | aborted | dropped
  deriving DecidableEq, Repr

/-- a task created by `create_suspense_task` -/
structure Task where
  scope : Nat                  -- current scope at spawn (`ScopedFuture::scope`, `on_cleanup(abort)`)
  boundary : Option Nat        -- boundary of its `SuspenseTaskGuard`
  awaits : Nat                 -- await points still ahead
  status : TStatus
  deriving Repr

structure M where
  scopes : List Scope
  boundaries : List Boundary
  tasks : List Task
  polls : List (Nat × Nat)     -- (task, awaits left after the step): the body resumed
  resOwner : List (Nat × Nat) := []   -- resource ↦ the scope it was created in (default: the root scope)
  deriving Repr

/-- build description: what the harness creates, in creation order -/
inductive Item where
  | scope (children : List Item)          -- `create_child_scope`
  | boundary (children : List Item)       -- `create_suspense_scope`
  | task (awaits : Nat)                   -- `create_suspense_task` with that many await points
  | resource (n : Nat)                    -- `create_isomorphic_resource`: its fetch is a task of the current scope
  | use (n : Nat)                         -- the loading resource `n` is read here: a guard of the boundary in
                                          -- scope, held by the RESOURCE (so it lives and dies with its owner)

def M.init : M := ⟨[⟨none, true⟩], [], [], [], []⟩

/-- the scope that owns resource `n` (the root scope when it was not created by an item) -/
def M.ownerOf (m : M) (n : Nat) : Nat := ((m.resOwner.find? (·.1 == n)).map (·.2)).getD 0

mutual
/-- create the items with `cur` as current scope and `ctx` as nearest boundary -/
def buildItem (m : M) (cur : Nat) (ctx : Option Nat) : Item → M
  | .scope cs =>
    let id := m.scopes.length
    buildItems { m with scopes := m.scopes ++ [⟨some cur, true⟩] } id ctx cs
  | .boundary cs =>
    let inner := m.scopes.length
    let b := m.boundaries.length
    buildItems { m with scopes := m.scopes ++ [⟨some cur, true⟩],
                        boundaries := m.boundaries ++ [⟨ctx, cur, inner, 0⟩] } inner (some b) cs
  | .task n =>
    -- the guard increments the counter at creation
    let m := match ctx with
      | some b => { m with boundaries := m.boundaries.modify b fun x => { x with remaining := x.remaining + 1 } }
      | none => m
    { m with tasks := m.tasks ++ [⟨cur, ctx, n, .pending⟩] }
  | .resource n =>
    -- the fetch is a suspense task spawned in (an effect of) the current scope, under the boundary in scope
    let m := match ctx with
      | some b => { m with boundaries := m.boundaries.modify b fun x => { x with remaining := x.remaining + 1 } }
      | none => m
    { m with tasks := m.tasks ++ [⟨cur, ctx, 1, .pending⟩], resOwner := m.resOwner ++ [(n, cur)] }
  | .use n =>
    -- the guard is stored in the resource: it is released when the resource delivers or when the scope
    -- that owns the resource is disposed
    let m := match ctx with
      | some b => { m with boundaries := m.boundaries.modify b fun x => { x with remaining := x.remaining + 1 } }
      | none => m
    { m with tasks := m.tasks ++ [⟨m.ownerOf n, ctx, 1, .pending⟩] }
def buildItems (m : M) (cur : Nat) (ctx : Option Nat) : List Item → M
  | [] => m
  | i :: is => buildItems (buildItem m cur ctx i) cur ctx is
end

def scopeAlive (m : M) (s : Nat) : Bool := (m.scopes[s]?).map (·.alive) |>.getD false

/-- `s` is `anc` or a descendant of it; fuel = number of scopes -/
def inSubtree (m : M) (anc : Nat) : Nat → Nat → Bool
  | 0, _ => false
  | fuel + 1, s =>
    if s = anc then true else
    match (m.scopes[s]?).bind (·.parent) with
    | some p => inSubtree m anc fuel p
    | none => false

/-- `SuspenseTaskGuard::drop` (D5): decrement only if the counter signal is still alive -/
def dropGuard (m : M) (b : Option Nat) : M :=
  match b with
  | none => m
  | some b =>
    match m.boundaries[b]? with
    | none => m
    | some bd =>
      if scopeAlive m bd.counterScope then
        { m with boundaries := m.boundaries.modify b fun x => { x with remaining := x.remaining - 1 } }
      else m

/-- the harness completes the next await point of task `t` and lets the executor run -/
def complete (m : M) (t : Nat) : M :=
  match m.tasks[t]? with
  | none => m
  | some tk =>
    if tk.status != .pending || tk.awaits = 0 then m else
    let left := tk.awaits - 1
    let m := { m with polls := m.polls ++ [(t, left)] }
    if left = 0 then
      dropGuard { m with tasks := m.tasks.modify t fun x => { x with awaits := 0, status := .done } } tk.boundary
    else { m with tasks := m.tasks.modify t fun x => { x with awaits := left } }

/-- `NodeHandle::dispose` of scope `s`: the subtree dies; cleanups abort the tasks spawned in it -/
def dispose (m : M) (s : Nat) : M :=
  let n := m.scopes.length
  let dead := fun i => inSubtree m s n i
  { m with
    scopes := m.scopes.mapIdx fun i sc => if dead i then { sc with alive := false } else sc,
    tasks := m.tasks.map fun tk => if tk.status == .pending && dead tk.scope then { tk with status := .aborted } else tk }

/-- the next await point of task `t` completes and its body, when it resumes, disposes the scope the task was spawned
in (never the root scope): the task is aborted while it is being polled. The body runs on to its next await point (or
to its end); then the task is finished or, with await points left, aborted like every other task of that scope -/
def completeX (m : M) (t : Nat) : M :=
  match m.tasks[t]? with
  | none => m
  | some tk =>
    if tk.status != .pending || tk.awaits = 0 then m else
    if tk.scope = 0 then complete m t else
    let left := tk.awaits - 1
    let m := dispose { m with polls := m.polls ++ [(t, left)] } tk.scope
    if left = 0 then
      dropGuard { m with tasks := m.tasks.modify t fun x => { x with awaits := 0, status := .done } } tk.boundary
    else { m with tasks := m.tasks.modify t fun x => { x with awaits := left } }

/-- one executor turn: every aborted task is dropped (its guard with it), in task order -/
def drainFrom (m : M) : Nat → Nat → M
  | 0, _ => m
  | fuel + 1, i =>
    match m.tasks[i]? with
    | none => m
    | some tk =>
      if tk.status == .aborted then
        drainFrom (dropGuard { m with tasks := m.tasks.modify i fun x => { x with status := .dropped } } tk.boundary) fuel (i + 1)
      else drainFrom m fuel (i + 1)
def drain (m : M) : M := drainFrom m (m.tasks.length + 1) 0

/-- `SuspenseScope::_is_loading`; fuel = number of boundaries -/
def isLoading (m : M) : Nat → Nat → Bool
  | 0, _ => false
  | fuel + 1, b =>
    match m.boundaries[b]? with
    | none => false
    | some bd => bd.remaining > 0 || (match bd.parent with | some p => isLoading m fuel p | none => false)

/-- `use_is_loading_global` (D9): some counter that is still alive is positive -/
def globalLoading (m : M) : Bool :=
  m.boundaries.any fun bd => scopeAlive m bd.counterScope && bd.remaining > 0

inductive Ev where
  | complete (t : Nat)
  | dispose (s : Nat)
  deriving Repr

def step (m : M) : Ev → M
  | .complete t => drain (complete m t)
  | .dispose s => drain (dispose m s)

/-- `step` for a machine in which the tasks listed in `xs` dispose their own scope when they first resume -/
def stepX (xs : List Nat) (m : M) : Ev → M
  | .complete t => if xs.contains t then drain (completeX m t) else drain (complete m t)
  | .dispose s => drain (dispose m s)

/-! ### resources (`create_isomorphic_resource(on(dep, fetch))`) -/

structure Res where
  dep : Nat                    -- current dependency value
  started : Nat                -- number of fetches started so far (the latest has this number)
  latestDep : Nat              -- dependency value captured by the latest fetch
  completedLatest : Bool       -- the latest fetch has delivered
  value : Option (Nat × Nat)   -- (fetch number, dependency value it was started for)
  loading : Bool
  deriving Repr

/-- creation: the effect runs once, starting fetch 1 -/
def Res.init (dep : Nat) : Res := ⟨dep, 1, dep, false, none, true⟩

inductive REv where
  | write (v : Nat)            -- the dependency signal is set: the effect re-runs, aborting the previous task
  | finish (k : Nat)           -- the harness lets fetch number `k` complete
  deriving Repr

def rstep (r : Res) : REv → Res
  | .write v => { r with dep := v, started := r.started + 1, latestDep := v, completedLatest := false, loading := true }
  | .finish k =>
    if k = r.started && !r.completedLatest then
      { r with value := some (k, r.latestDep), loading := false, completedLatest := true }
    else r                       -- an aborted (older) fetch can deliver nothing

/-! ### one-shot readers of a resource, each under a suspense boundary of its own

`Resource::deref` under a boundary: while the resource is loading the boundary gets a guard, held by the
resource until the latest fetch delivers; otherwise the boundary is recorded and gets its guard when the
next fetch starts (the record is consumed by that). A reader reads once (no re-run). -/

structure Reader where
  guard : Bool               -- the boundary is kept loading by a guard the resource holds
  recorded : Bool            -- the boundary is on the list of scopes to suspend at the next fetch
  deriving Repr, DecidableEq

structure ResR where
  res : Res
  alive : Bool               -- the scope that owns the resource is alive
  readers : List Reader      -- oldest first
  deriving Repr

def ResR.init (dep : Nat) : ResR := ⟨Res.init dep, true, []⟩

inductive RREv where
  | read                     -- `u`: a new boundary reads the resource
  | dropOldest               -- `y`: the oldest reader's scope is disposed
  | disposeOwner             -- `x`: the scope that owns the resource is disposed: every guard it holds is dropped
  | ev (e : REv)
  deriving Repr

def rrStep (s : ResR) : RREv → ResR
  | .read =>
    if !s.alive then s
    else if s.res.loading then { s with readers := s.readers ++ [⟨true, false⟩] }
    else { s with readers := s.readers ++ [⟨false, true⟩] }
  | .dropOldest => { s with readers := s.readers.tail }
  | .disposeOwner => { s with alive := false, readers := s.readers.map fun _ => ⟨false, false⟩ }
  | .ev (.write v) =>
    if !s.alive then s
    else { s with res := rstep s.res (.write v),
                  readers := s.readers.map fun r => if r.recorded then ⟨true, false⟩ else r }
  | .ev (.finish k) =>
    if !s.alive then s
    else
      let delivered := k = s.res.started && !s.res.completedLatest
      { s with res := rstep s.res (.finish k),
               readers := if delivered then s.readers.map fun r => { r with guard := false } else s.readers }

/-! ### reader boundaries with a suspense task of their own (`resourcerdt`)

Some reader boundaries also have a suspense task of their own: the boundary's counter counts both that task and the
guard the resource holds for it, so the boundary is loading while EITHER is there. The tasks are kept beside the resource
machine, aligned with its reader list: `some i` = the own task number `i` is pending. -/

structure ResRT where
  base : ResR
  tasks : List (Option Nat)  -- aligned with `base.readers`: the pending own task of that reader's boundary
  nv : Nat                   -- number of task-carrying readers added so far (= the number of the next own task)
  deriving Repr

def ResRT.init (dep : Nat) : ResRT := ⟨ResR.init dep, [], 0⟩

inductive RTEv where
  | readTask                 -- `v`: a new boundary with a task of its own reads the resource
  | read                     -- `u`: a new boundary without one reads the resource
  | taskDone (i : Nat)       -- `t<i>`: own task number `i` completes
  | dropOldest               -- `y`
  | disposeOwner             -- `x`
  | ev (e : REv)
  deriving Repr

/-- a reader (and its task entry) is appended only when `rrStep` appended one (the owner is alive) -/
def rtStep (s : ResRT) : RTEv → ResRT
  | .readTask =>
    let b := rrStep s.base .read
    if b.readers.length > s.base.readers.length then ⟨b, s.tasks ++ [some s.nv], s.nv + 1⟩ else { s with base := b }
  | .read =>
    let b := rrStep s.base .read
    if b.readers.length > s.base.readers.length then ⟨b, s.tasks ++ [none], s.nv⟩ else { s with base := b }
  | .taskDone i => { s with tasks := s.tasks.map fun t => if t == some i then none else t }
  | .dropOldest => ⟨rrStep s.base .dropOldest, s.tasks.tail, s.nv⟩
  | .disposeOwner => { s with base := rrStep s.base .disposeOwner }
  | .ev e => { s with base := rrStep s.base (.ev e) }

/-- per reader boundary: it is loading iff the resource holds a guard for it or its own task is pending -/
def ResRT.loading (s : ResRT) : List Bool := List.zipWith (fun r t => r.guard || t.isSome) s.base.readers s.tasks

/-! ### boundary observers that write the dependency when their boundary resolves (`resourcerdw c`)

A delivery that releases at least one reader guard is followed by the write of `c` to the dependency, if it differs. -/

def rwStep (c : Nat) (s : ResR) (ev : RREv) : ResR :=
  let s' := rrStep s ev
  let delivered := match ev with
    | .ev (.finish k) => s.alive && k = s.res.started && !s.res.completedLatest
    | _ => false
  let released := s.readers.any (·.guard)
  if delivered && released && s'.res.dep != c then rrStep s' (.ev (.write c)) else s'

/-! ### a fetch that moves the dependency on as its last step (`resourceself c`, D28)

The completion of the latest fetch, when the dependency differs from `c`, IS the write of `c`: the fetch is superseded
while it is finishing and delivers nothing. -/

def selfStep (c : Nat) (r : Res) : REv → Res
  | .finish k => if k = r.started && !r.completedLatest && r.dep != c then rstep r (.write c) else rstep r (.finish k)
  | .write v => rstep r (.write v)


/-! ### an observer of the resource's own boundary that moves an odd dependency value on when the boundary STARTS loading

The boundary the resource lives under is suspended before the fetch function reads its dependencies (repair D29), so the write
of an odd `v` while no fetch is outstanding is a write of `v + 1`; while a fetch is outstanding the boundary is loading already and
the observer does not react. -/
def boEv (r : Res) : REv → REv
  | .write v => if !r.loading && v % 2 == 1 then .write (v + 1) else .write v
  | e => e
def boStep (r : Res) (e : REv) : Res := rstep r (boEv r e)
def boInit (d : Nat) : Res := Res.init (if d % 2 == 1 then d + 1 else d)

end SycVerif.Async
