/-
Model of hydration (packages/sycamore-web/src/node/hydrate_node.rs `HydrateNode::append_child`,
`create_element`, dom_render.rs `hydrate_in_scope`) on top of the client-rendering model `DomView`:
the server output for a view (what `Model/Ssr` renders and `Spec/Html` parses: elements, merged text,
slash-comment markers, `<!--t-->text<!---->` dynamic text) is ADOPTED by building the same view again:
every element is looked up by its key (no-op append), every marker append replaces the first slash
comment of the parent by a fresh comment `#`, every dynamic-text append replaces the node after the first
`<!--t-->` comment by a fresh text node and removes that comment, static text is left alone.
No imports beyond the DomView model: part of the native driver.
-/
import SycVerif.Model.DomView
namespace SycVerif.Hydrate
open SycVerif.DomView

/-- a child of some parent in the parsed server document / during hydration -/
inductive Ch where
  | el (tag : Str) (attrs : List (Str × Str)) (kids : List Ch)
  | text (s : Str)
  | cmt (s : Str)
  deriving Repr

/-- what the hydrating build appends to a parent, in order -/
inductive Pend where
  | el (tag : Str) (attrs : List (Str × Str)) (kids : List Pend)   -- `NodeState::Hydrated`: adopted by key
  | textStatic                                                     -- `NodeState::TextStatic`
  | textDynamic (s : Str)                                          -- `NodeState::TextDynamic(new text node)`
  | marker                                                         -- `NodeState::Marker(new comment)`
  deriving Repr

inductive HErr where
  | markerNotFound      -- "hydration marker node not found"
  | textNotFound        -- "text node not found during hydration" / `next_sibling().unwrap()`
  | shape               -- an adopted element is not where the build expects it
  deriving DecidableEq, Repr

/-- merge adjacent text children (what an HTML parser produces) and drop empty ones -/
def mergeCh : List Ch → List Ch
  | .text a :: .text b :: r => mergeCh (.text (a ++ b) :: r)
  | .text [] :: r => mergeCh r
  | c :: r => c :: mergeCh r
  | [] => []
termination_by l => l.length

mutual
/-- what the server renders for the children of `NoHydrate` (hydration mode off): elements without a
hydration key (modelled as a leading attribute `[2]`), no slash-comment markers around dynamic views, no
t-comment markers around dynamic text; the client never looks at any of it -/
def frozenOf (σ : Store) : Inst → List Ch
  | .el _ tag attrs cs => [.el tag (([2], []) :: evalAttrs σ attrs) (mergeCh (frozenOfList σ cs))]
  | .text _ s => [.text s]
  | .dynText _ sig => [.text (dynTextStr (σ.get sig))]
  | .dynView _ _ _ _ cur => frozenOfList σ cur
  | .show _ _ sig cs => if σ.get sig % 2 = 1 then frozenOfList σ cs else []
  | .frag cs => frozenOfList σ cs
  | .island cs => frozenOfList σ cs
def frozenOfList (σ : Store) : InstList → List Ch
  | .nil => []
  | .cons i rest => frozenOf σ i ++ frozenOfList σ rest
end

mutual
/-- the children the SERVER renders for an instance (before text merging) and the appends the CLIENT
build performs for the same instance -/
def ssrOf (σ : Store) : Inst → List Ch × List Pend
  | .el _ tag attrs cs =>
    let (c, p) := ssrOfList σ cs
    ([.el tag (evalAttrs σ attrs) (mergeCh c)], [.el tag (evalAttrs σ attrs) p])
  | .text _ s => ([.text s], [.textStatic])
  | .dynText _ sig => ([.cmt [116], .text (dynTextStr (σ.get sig)), .cmt []], [.textDynamic (dynTextStr (σ.get sig))])
  | .dynView _ _ _ _ cur =>
    let (c, p) := ssrOfList σ cur
    ([.cmt [47]] ++ c ++ [.cmt [47]], [.marker] ++ p ++ [.marker])
  | .show _ _ sig cs =>
    let (c, p) := ssrOfList σ cs
    if σ.get sig % 2 = 1 then ([.cmt [47]] ++ c ++ [.cmt [47]], [.marker] ++ p ++ [.marker])
    else ([.cmt [47], .cmt [47]], [.marker, .marker])
  | .frag cs => ssrOfList σ cs
  | .island cs => (frozenOfList σ cs, [])      -- rendered without keys and markers, skipped by the client
def ssrOfList (σ : Store) : InstList → List Ch × List Pend
  | .nil => ([], [])
  | .cons i rest =>
    let (c1, p1) := ssrOf σ i
    let (c2, p2) := ssrOfList σ rest
    (c1 ++ c2, p1 ++ p2)
end

/-- replace the first slash comment (the SSR marker) by the hydrated marker `#` -/
def adoptMarker : List Ch → Option (List Ch)
  | [] => none
  | .cmt [47] :: r => some (.cmt [35] :: r)
  | c :: r => (adoptMarker r).map (c :: ·)

/-- find the first `<!--t-->` comment, replace its next sibling by the new text node, drop the comment -/
def adoptText (s : Str) : List Ch → Option (List Ch)
  | [] => none
  | .cmt [116] :: _ :: r => some (.text s :: r)
  | [.cmt [116]] => none
  | c :: r => (adoptText s r).map (c :: ·)

mutual
/-- `parent.append_child(pending)` for every pending node in order; `pos` counts the element children
adopted so far (elements are adopted in document order by key) -/
def hydrateKids : Nat → List Ch → List Pend → Except HErr (List Ch)
  | 0, _, _ => .error .shape
  | _ + 1, ch, [] => .ok ch
  | fuel + 1, ch, p :: ps =>
    match p with
    | .textStatic => hydrateKids fuel ch ps
    | .marker => match adoptMarker ch with
      | none => .error .markerNotFound
      | some ch => hydrateKids fuel ch ps
    | .textDynamic s => match adoptText s ch with
      | none => .error .textNotFound
      | some ch => hydrateKids fuel ch ps
    | .el tag attrs kids =>
      -- the element itself was created (= looked up by key) before its children were appended to it
      match hydrateFirstUnadopted fuel ch tag attrs kids with
      | .error e => .error e
      | .ok ch => hydrateKids fuel ch ps
/-- hydrate the children of the first not yet adopted element child (adopted ones get the attribute
`data-hydrated`, modelled as a leading attribute `[1]`) -/
def hydrateFirstUnadopted : Nat → List Ch → Str → List (Str × Str) → List Pend → Except HErr (List Ch)
  | 0, _, _, _, _ => .error .shape
  | _ + 1, [], _, _, _ => .error .shape
  | fuel + 1, .el t as ks :: r, tag, attrs, kids =>
    -- skip elements that are already adopted (`[1]`) and elements without a key (`[2]`, `NoHydrate`)
    if as.head? = some ([1], []) || as.head? = some ([2], []) then
      match hydrateFirstUnadopted fuel r tag attrs kids with
      | .error e => .error e
      | .ok r => .ok (.el t as ks :: r)
    else if t = tag then
      match hydrateKids fuel ks kids with
      | .error e => .error e
      | .ok ks => .ok (.el t (([1], []) :: as) ks :: r)
    else .error .shape
  | fuel + 1, c :: r, tag, attrs, kids =>
    match hydrateFirstUnadopted fuel r tag attrs kids with
    | .error e => .error e
    | .ok r => .ok (c :: r)
end

mutual
/-- a `NoHydrate` subtree after hydration: the server nodes for the initial store, never updated -/
def freezeInst (σ : Store) : Inst → Inst
  | .el id tag attrs cs => .el id tag ((evalAttrs σ attrs).map fun (n, v) => (n, .static v)) (freezeList σ cs)
  | .text id s => .text id s
  | .dynText id sig => .text id (dynTextStr (σ.get sig))
  | .dynView _ _ _ _ cur => .frag (freezeList σ cur)
  | .show _ _ sig cs => if σ.get sig % 2 = 1 then .frag (freezeList σ cs) else .frag .nil
  | .frag cs => .frag (freezeList σ cs)
  | .island cs => .frag (freezeList σ cs)
def freezeList (σ : Store) : InstList → InstList
  | .nil => .nil
  | .cons i rest => .cons (freezeInst σ i) (freezeList σ rest)
end

mutual
/-- the instance a hydrated document behaves like afterwards: islands frozen at the initial store -/
def afterHydration (σ : Store) : Inst → Inst
  | .el id tag attrs cs => .el id tag attrs (afterHydrationList σ cs)
  | .text id s => .text id s
  | .dynText id sig => .dynText id sig
  | .dynView a b sig alts cur => .dynView a b sig alts (afterHydrationList σ cur)
  | .show a b sig cs => .show a b sig (afterHydrationList σ cs)
  | .frag cs => .frag (afterHydrationList σ cs)
  | .island cs => .frag (freezeList σ cs)
def afterHydrationList (σ : Store) : InstList → InstList
  | .nil => .nil
  | .cons i rest => .cons (afterHydration σ i) (afterHydrationList σ rest)
end

/-- size measure used as fuel -/
def pendSize : List Pend → Nat
  | [] => 1
  | .el _ _ k :: r => pendSize k + pendSize r + 2
  | _ :: r => pendSize r + 1
def chSize : List Ch → Nat
  | [] => 1
  | .el _ _ k :: r => chSize k + chSize r + 2
  | _ :: r => chSize r + 1

/-- hydrate the server output of a mounted view with the same view -/
def hydrateView (σ : Store) (inst : InstList) : Except HErr (List Ch) :=
  let (c, p) := ssrOfList σ inst
  hydrateKids (2 * (pendSize p + chSize (mergeCh c)) + 2) (mergeCh c) p

/-- visible content: elements and text, comments dropped, text merged -/
def visibleCh : List Ch → List Ch
  | [] => []
  | .cmt _ :: r => visibleCh r
  | .el t as ks :: r => .el t (as.filter (·.1 != [1])) (mergeCh (visibleCh ks)) :: visibleCh r
  | .text s :: r => .text s :: visibleCh r

end SycVerif.Hydrate
