/-
Model of the reactive core of `sycamore-reactive` (root.rs, node.rs, signals.rs, memos.rs,
effects.rs, context.rs, utils.rs) — after the repairs D2 (dispose unsubscribes), D3 (nested batch)
and D4 (liveness guards).

* one arena; ids are never reused (models slotmap's versioned keys: a stale handle is detectable);
* one Lean function per Rust function, same control flow, same list orders;
* user closures are programs of a small DSL (`Stmt`/`Body`), interpreted by `exec*`;
* a panic of the real code is an explicit `Except Panic`.
No imports: this file is part of the native driver.
-/
namespace SycVerif.Reactive

abbrev Id := Nat

/-- the `eq` argument of `create_selector_with`: memo/effect = `never` (`|_, _| false`),
`create_selector` = `same` (`PartialEq::eq`), `parity` = `|a, b| a % 2 == b % 2` -/
inductive EqKind where
  | never | same | parity
  deriving DecidableEq, Repr

/-- value expressions of `set`/`provide` -/
inductive Ex where
  | const (v : Int) | acc | accPlus (v : Int)
  deriving DecidableEq, Repr

mutual
/-- statements of the closure DSL (harness/native/src/reactive.rs interprets the same DSL against
the real API) -/
inductive Stmt where
  | read (h : Nat)                       -- `acc = mix(acc, h.get())`
  | readU (h : Nat)                      -- same with `get_untracked`
  | track (h : Nat)                      -- `h.track()`
  | ifpos (h : Nat) (t e : Body)         -- `read h`, then branch on the value read > 0
  | untrack (b : Body)                   -- `untrack(|| b)`
  | component (b : Body)                 -- `sycamore_core::component_scope(|| b)`
  | on (deps : List Nat) (b : Body)      -- `on(deps, || b)()`
  | signal (v : Int)                     -- `create_signal(v)`
  | memo (b : Body)                      -- `create_memo(|| b)`
  | selector (eq : EqKind) (b : Body)    -- `create_selector_with(|| b, eq)`
  | effect (b : Body)                    -- `create_effect(|| b)`
  | scope (b : Body)                     -- `create_child_scope(|| b)`
  | set (h : Nat) (e : Ex)               -- `h.set(e)`
  | setSilent (h : Nat) (e : Ex)         -- `h.set_silent(e)`
  | cleanup (b : Body)                   -- `on_cleanup(|| b)`
  | dispose (h : Nat)                    -- `h.dispose()`
  | disposeCur                           -- `use_current_scope().dispose()`
  | batch (b : Body)                     -- `batch(|| b)`
  | provide (ty : Nat) (e : Ex)          -- `provide_context(Ctx_ty(e))`
  | use (ty : Nat)                       -- `try_use_context::<Ctx_ty>()`
  | runIn (h : Nat) (b : Body)           -- `h.run_in(|| b)`
inductive Body where
  | nil
  | cons (s : Stmt) (rest : Body)
end

inductive Kind where
  | signal | memo | effect | scope
  deriving DecidableEq, Repr

/-- a handle in the lexical environment of a closure -/
structure Handle where
  id : Id
  kind : Kind
  deriving DecidableEq, Repr

/-- a user closure: its body and the handles it captured -/
structure Closure where
  body : Body
  env : List Handle
  /-- registration number (cleanups only; used to name the cleanup in the trace) -/
  tag : Nat := 0

inductive Mark where
  | none | temp | perm
  deriving DecidableEq, Repr

/-- `ReactiveNode` -/
structure Node where
  value : Option Int                        -- `None` while taken out by `run_node_update` / before the initial run
  callback : Option (EqKind × Closure)      -- `None` for signals/scopes, and while the node runs
  children : List Id
  parent : Option Id                        -- `none` = the null key
  dependents : List Id
  dependencies : List Id
  cleanups : List Closure
  context : List (Nat × Int)                -- (type tag, value)
  dirty : Bool                              -- `NodeState::Dirty`
  mark : Mark

inductive Panic where
  | disposed        -- "signal was disposed"
  | updating        -- "cannot read signal while updating" / "cannot update signal while reading"
  | slotKey         -- "invalid SlotMap key used"
  | cyclic          -- "cyclic reactive dependency"
  | ctxDup          -- "a context with type … exists already in this scope"
  | unwrapNone      -- `Option::unwrap()` on `None`
  | fuel            -- the model ran out of fuel (never reached by generated programs)
  | badProgram      -- ill-formed DSL program (handle out of range / wrong kind)
  deriving DecidableEq, Repr

/-- one logged read / context lookup of a body run -/
inductive Obs where
  | read (id : Id) (v : Int)
  | ctx (ty : Nat) (v : Option Int)
  deriving Repr

inductive Event where
  | run (node : Id) (obs : List Obs) (result : Int)     -- a computation body finished
  | cleanup (tag : Nat) (obs : List Obs)                 -- a cleanup callback finished
  deriving Repr

/-- `Root` -/
structure Root where
  nodes : Array (Option Node)      -- `none` = slot removed
  tracker : Option (List Id)
  current : Option Id              -- `current_node` (`none` = null key)
  rootNode : Option Id
  queue : List Id                  -- `node_update_queue`
  batching : Bool
  nextTag : Nat                    -- cleanup registration counter (trace naming only)
  trace : List Event               -- most recent last

/-! ### arena access -/

def Root.get? (r : Root) (id : Id) : Option Node := (r.nodes[id]?).join

/-- `nodes[id]` — panics on a stale key -/
def Root.get (r : Root) (id : Id) : Except Panic Node :=
  match r.get? id with
  | some n => .ok n
  | none => .error .slotKey

def Root.alive (r : Root) (id : Id) : Bool := (r.get? id).isSome

def Root.setNode (r : Root) (id : Id) (n : Node) : Root :=
  if id < r.nodes.size then { r with nodes := r.nodes.set! id (some n) } else r

def Root.modify (r : Root) (id : Id) (f : Node → Node) : Root :=
  match r.get? id with
  | some n => r.setNode id (f n)
  | none => r

/-- `nodes.remove(id)` -/
def Root.remove (r : Root) (id : Id) : Root :=
  if id < r.nodes.size then { r with nodes := r.nodes.set! id none } else r

def Root.liveCount (r : Root) : Nat := r.nodes.foldl (fun n o => if o.isSome then n + 1 else n) 0

/-! ### functions without user code -/

/-- `create_empty_signal` (+ value): insert a node owned by `current_node` -/
def createNode (r : Root) (value : Option Int) : Except Panic (Root × Id) :=
  let id := r.nodes.size
  let node : Node := { value := value, callback := none, children := [], parent := r.current, dependents := [], dependencies := [], cleanups := [], context := [], dirty := false, mark := .none }
  let r := { r with nodes := r.nodes.push (some node) }
  match r.current with
  | none => .ok (r, id)
  | some cur =>
    -- `root.nodes.borrow_mut()[current_node].children.push(id)`
    match r.get? cur with
    | none => .error .slotKey
    | some c => .ok (r.setNode cur { c with children := c.children ++ [id] }, id)

/-- `ReadSignal::track` -/
def track (r : Root) (id : Id) : Root :=
  match r.tracker with
  | some deps => { r with tracker := some (deps ++ [id]) }
  | none => r

/-- `DependencyTracker::create_dependency_link` (with the D4 guards) -/
def createDependencyLink (r : Root) (deps : List Id) (dependent : Id) : Root :=
  if !r.alive dependent then r else
  let deps := deps.filter r.alive
  let r := deps.foldl (fun r d => r.modify d fun n => { n with dependents := n.dependents ++ [dependent] }) r
  r.modify dependent fun n => { n with dependencies := deps }

/-- `Root::mark_dependents_dirty` (with the D4 guard) -/
def markDependentsDirty (r : Root) (cur : Id) : Root :=
  match r.get? cur with
  | none => r
  | some n => n.dependents.foldl (fun r d => r.modify d fun m => { m with dirty := true }) r

mutual
/-- `Root::dfs`; `none` = "cyclic reactive dependency" (or out of fuel, which `dfsFuel` rules out) -/
def dfs : Nat → Root → List Id → Id → Option (Root × List Id)
  | 0, _, _, _ => none
  | fuel + 1, r, buf, cur =>
    match r.get? cur with
    | none => some (r, buf)                         -- dead: don't even visit it
    | some n =>
      match n.mark with
      | .temp => none
      | .perm => some (r, buf)
      | .none =>
        let r := r.setNode cur { n with mark := .temp }
        match dfsList fuel r buf n.dependents with
        | none => none
        | some (r, buf) =>
          some (r.modify cur (fun m => { m with mark := .perm }), buf ++ [cur])
def dfsList : Nat → Root → List Id → List Id → Option (Root × List Id)
  | 0, _, _, _ => none
  | _ + 1, r, buf, [] => some (r, buf)
  | fuel + 1, r, buf, c :: cs =>
    match dfs fuel r buf c with
    | none => none
    | some (r, buf) => dfsList fuel r buf cs
end

/-- fuel that always suffices for `dfs`: every call consumes one unit and there is at most one
call per node plus one per edge -/
def dfsFuel (r : Root) : Nat :=
  2 * r.nodes.size + r.nodes.foldl (fun n o => match o with | some nd => n + nd.dependents.length | none => n) 0 + 2

/-- `provide_context_in_node` -/
def provideContext (r : Root) (ty : Nat) (v : Int) : Except Panic Root :=
  match r.current with
  | none => .error .slotKey
  | some cur =>
    match r.get? cur with
    | none => .error .slotKey
    | some n =>
      if n.context.any (fun p => p.1 == ty) then .error .ctxDup
      else .ok (r.setNode cur { n with context := n.context ++ [(ty, v)] })

/-- the `while let` walk of `try_use_context`, starting at node `n` -/
def ctxWalk : Nat → Root → Node → Nat → Except Panic (Option Int)
  | 0, _, _, _ => .error .fuel
  | fuel + 1, r, n, ty =>
    match n.context.find? (fun p => p.1 == ty) with
    | some p => .ok (some p.2)
    | none =>
      match n.parent with
      | none => .ok none
      | some p =>
        match r.get? p with
        | none => .error .slotKey
        | some pn => ctxWalk fuel r pn ty

/-- `try_use_context` -/
def tryUseContext (r : Root) (ty : Nat) : Except Panic (Option Int) :=
  match r.current with
  | none => .error .slotKey
  | some cur =>
    match r.get? cur with
    | none => .error .slotKey
    | some n => ctxWalk (r.nodes.size + 1) r n ty

/-- `ReadSignal::get_untracked` -/
def getUntracked (r : Root) (id : Id) : Except Panic Int :=
  match r.get? id with
  | none => .error .disposed
  | some n => match n.value with
    | none => .error .updating
    | some v => .ok v

/-- `Signal::update_silent` with `replace` -/
def setSilent (r : Root) (id : Id) (v : Int) : Except Panic Root :=
  match r.get? id with
  | none => .error .disposed
  | some n => match n.value with
    | none => .error .updating
    | some _ => .ok (r.setNode id { n with value := some v })

/-- the erasing half of `NodeHandle::dispose` once children are gone: remove the node, erase it
from the `dependencies` of its dependents and (D2) from the `dependents` of its dependencies -/
def removeNode (r : Root) (id : Id) : Root :=
  match r.get? id with
  | none => r
  | some this =>
    let r := r.remove id
    let r := this.dependents.foldl (fun r d => r.modify d fun n => { n with dependencies := n.dependencies.filter (· != id) }) r
    this.dependencies.foldl (fun r d => r.modify d fun n => { n with dependents := n.dependents.filter (· != id) }) r

/-- first step of `NodeHandle::dispose` (repair D19): the node leaves the subscriber lists of everything
it depends on and forgets its dependencies, so that none of its own cleanups can re-run it -/
def unsubscribe (r : Root) (id : Id) : Root :=
  match r.get? id with
  | none => r
  | some this =>
    let r := this.dependencies.foldl (fun r d => r.modify d fun n => { n with dependents := n.dependents.filter (· != id) }) r
    r.modify id fun n => { n with dependencies := [] }

/-- how a body folds an observed value into its accumulator (bounded, so that results stay small) -/
def mix (acc v : Int) : Int := (3 * acc + v + 1) % 1009

def evalEx (e : Ex) (acc : Int) : Int :=
  match e with
  | .const v => v
  | .acc => acc
  | .accPlus v => acc + v

def eqHolds (k : EqKind) (new old : Int) : Bool :=
  match k with
  | .never => false
  | .same => new == old
  | .parity => new % 2 == old % 2

/-- per-run interpreter state -/
structure Ctx where
  env : List Handle
  acc : Int
  obs : List Obs

def lookup (c : Ctx) (h : Nat) : Except Panic Handle :=
  match c.env[h]? with
  | some x => .ok x
  | none => .error .badProgram

def isValueKind (k : Kind) : Bool := k == .signal || k == .memo

/-- `deps._track()` of `on(deps, f)`: track every dependency in order -/
def trackAll (c : Ctx) (r : Root) : List Nat → Except Panic Root
  | [] => .ok r
  | h :: hs => match lookup c h with
    | .error e => .error e
    | .ok hd => if !isValueKind hd.kind then .error .badProgram else trackAll c (track r hd.id) hs

/-- first loop of `run_node_update`: remove `cur` from the `dependents` of its old dependencies -/
def unlink (cur : Id) (r : Root) : List Id → Except Panic Root
  | [] => .ok r
  | d :: ds => match r.get? d with
    | none => .error .slotKey
    | some dn => unlink cur (r.setNode d { dn with dependents := dn.dependents.filter (· != cur) }) ds

/-- first loop of `propagate_node_updates`: `dfs` + `mark_dependents_dirty` for every start node -/
def visitStarts (r : Root) (buf : List Id) : List Id → Except Panic (Root × List Id)
  | [] => .ok (r, buf)
  | s :: ss =>
    match dfs (dfsFuel r) r buf s with
    | none => .error .cyclic
    | some (r, buf) => visitStarts (markDependentsDirty r s) buf ss

/-- between the two loops of `propagate_node_updates`: the start nodes were written, not scheduled,
and are never re-run; their marks are reset before the update loop starts (so that a write to one
of them made by a computation of this propagation traverses its dependents) -/
def resetMarks (r : Root) : List Id → Root
  | [] => r
  | s :: ss =>
    match r.get? s with
    | none => resetMarks r ss
    | some n => resetMarks (r.setNode s { n with mark := .none }) ss

/-! ### functions that run user code (one fuel, consumed at every call) -/

mutual
/-- run a list of statements; handles created by the list are visible to its later statements -/
def execBody : Nat → Root → Ctx → Body → Except Panic (Root × Ctx)
  | 0, _, _, _ => .error .fuel
  | _ + 1, r, c, .nil => .ok (r, c)
  | fuel + 1, r, c, .cons s rest =>
    match execStmt fuel r c s with
    | .error e => .error e
    | .ok (r, c) => execBody fuel r c rest

/-- run a nested block: its own creations are not visible outside -/
def execInner : Nat → Root → Ctx → Body → Except Panic (Root × Ctx)
  | 0, _, _, _ => .error .fuel
  | fuel + 1, r, c, b =>
    match execBody fuel r c b with
    | .error e => .error e
    | .ok (r, c') => .ok (r, { c' with env := c.env })

def execStmt : Nat → Root → Ctx → Stmt → Except Panic (Root × Ctx)
  | 0, _, _, _ => .error .fuel
  | fuel + 1, r, c, s =>
    match s with
    | .read h =>
      match lookup c h with
      | .error e => .error e
      | .ok hd =>
        if !isValueKind hd.kind then .error .badProgram else
        let r := track r hd.id
        match getUntracked r hd.id with
        | .error e => .error e
        | .ok v => .ok (r, { c with acc := mix c.acc v, obs := c.obs ++ [.read hd.id v] })
    | .readU h =>
      match lookup c h with
      | .error e => .error e
      | .ok hd =>
        if !isValueKind hd.kind then .error .badProgram else
        match getUntracked r hd.id with
        | .error e => .error e
        | .ok v => .ok (r, { c with acc := mix c.acc v, obs := c.obs ++ [.read hd.id v] })
    | .track h =>
      match lookup c h with
      | .error e => .error e
      | .ok hd => if !isValueKind hd.kind then .error .badProgram else .ok (track r hd.id, c)
    | .ifpos h t e =>
      match lookup c h with
      | .error e => .error e
      | .ok hd =>
        if !isValueKind hd.kind then .error .badProgram else
        let r := track r hd.id
        match getUntracked r hd.id with
        | .error e => .error e
        | .ok v =>
          let c := { c with acc := mix c.acc v, obs := c.obs ++ [.read hd.id v] }
          if v > 0 then execInner fuel r c t else execInner fuel r c e
    | .untrack b | .component b =>
      -- `untrack_in_scope`: tracker := None, run, restore
      let prev := r.tracker
      match execInner fuel { r with tracker := none } c b with
      | .error e => .error e
      | .ok (r, c) => .ok ({ r with tracker := prev }, c)
    | .on deps b =>
      -- `deps._track(); untrack(f)`
      match trackAll c r deps with
      | .error e => .error e
      | .ok r =>
        let prev := r.tracker
        match execInner fuel { r with tracker := none } c b with
        | .error e => .error e
        | .ok (r, c) => .ok ({ r with tracker := prev }, c)
    | .signal v =>
      match createNode r (some v) with
      | .error e => .error e
      | .ok (r, id) => .ok (r, { c with env := c.env ++ [⟨id, .signal⟩] })
    | .memo b =>
      match createSelector fuel r .never ⟨b, c.env, 0⟩ with
      | .error e => .error e
      | .ok (r, id) => .ok (r, { c with env := c.env ++ [⟨id, .memo⟩] })
    | .selector eq b =>
      match createSelector fuel r eq ⟨b, c.env, 0⟩ with
      | .error e => .error e
      | .ok (r, id) => .ok (r, { c with env := c.env ++ [⟨id, .memo⟩] })
    | .effect b =>
      match createSelector fuel r .never ⟨b, c.env, 0⟩ with
      | .error e => .error e
      | .ok (r, id) => .ok (r, { c with env := c.env ++ [⟨id, .effect⟩] })
    | .scope b =>
      -- `Root::create_child_scope`: node = create_signal(()), run f with current_node = node
      match createNode r (some 0) with
      | .error e => .error e
      | .ok (r, id) =>
        let prev := r.current
        match execInner fuel { r with current := some id } c b with
        | .error e => .error e
        | .ok (r, c) => .ok ({ r with current := prev }, { c with env := c.env ++ [⟨id, .scope⟩] })
    | .set h e =>
      match lookup c h with
      | .error e => .error e
      | .ok hd =>
        if hd.kind != .signal then .error .badProgram else
        match setSilent r hd.id (evalEx e c.acc) with
        | .error e => .error e
        | .ok r =>
          match propagateUpdates fuel r hd.id with
          | .error e => .error e
          | .ok r => .ok (r, c)
    | .setSilent h e =>
      match lookup c h with
      | .error e => .error e
      | .ok hd =>
        if hd.kind != .signal then .error .badProgram else
        match setSilent r hd.id (evalEx e c.acc) with
        | .error e => .error e
        | .ok r => .ok (r, c)
    | .cleanup b =>
      -- `on_cleanup`: push onto the current node's cleanups (nothing if current is the null key)
      match r.current with
      | none => .ok (r, c)
      | some cur =>
        match r.get? cur with
        | none => .error .slotKey
        | some n =>
          let cl : Closure := ⟨b, c.env, r.nextTag⟩
          .ok ({ (r.setNode cur { n with cleanups := n.cleanups ++ [cl] }) with nextTag := r.nextTag + 1 }, c)
    | .dispose h =>
      match lookup c h with
      | .error e => .error e
      | .ok hd =>
        match disposeNode fuel r hd.id with
        | .error e => .error e
        | .ok r => .ok (r, c)
    | .disposeCur =>
      match r.current with
      | none => .ok (r, c)                 -- the null key: `nodes.get(null)` is `None`, nothing happens
      | some cur =>
        match disposeNode fuel r cur with
        | .error e => .error e
        | .ok r => .ok (r, c)
    | .batch b =>
      -- `batch` (D3): only the outermost batch ends the batch
      let nested := r.batching
      match execInner fuel { r with batching := true } c b with
      | .error e => .error e
      | .ok (r, c) =>
        if nested then .ok (r, c) else
        -- `end_batch`
        let q := r.queue
        match propagateNodeUpdates fuel { r with batching := false, queue := [] } q with
        | .error e => .error e
        | .ok r => .ok (r, c)
    | .provide ty e =>
      match provideContext r ty (evalEx e c.acc) with
      | .error e => .error e
      | .ok r => .ok (r, c)
    | .use ty =>
      match tryUseContext r ty with
      | .error e => .error e
      | .ok v =>
        let x : Int := match v with | some v => v | none => -8
        .ok (r, { c with acc := mix c.acc x, obs := c.obs ++ [.ctx ty v] })
    | .runIn h b =>
      match lookup c h with
      | .error e => .error e
      | .ok hd =>
        let prev := r.current
        match execInner fuel { r with current := some hd.id } c b with
        | .error e => .error e
        | .ok (r, c) => .ok ({ r with current := prev }, c)

/-- run a closure from scratch (fresh accumulator); returns its result and what it observed -/
def runClosure : Nat → Root → Closure → Except Panic (Root × Int × List Obs)
  | 0, _, _ => .error .fuel
  | fuel + 1, r, cl =>
    match execBody fuel r ⟨cl.env, 0, []⟩ cl.body with
    | .error e => .error e
    | .ok (r, c) => .ok (r, c.acc, c.obs)

/-- `create_selector_with` (memos and effects are selectors whose `eq` is never true) -/
def createSelector : Nat → Root → EqKind → Closure → Except Panic (Root × Id)
  | 0, _, _, _ => .error .fuel
  | fuel + 1, r, eq, cl =>
    match createNode r none with
    | .error e => .error e
    | .ok (r, id) =>
      let prevCur := r.current
      let prevTr := r.tracker
      -- `root.tracked_scope(&mut f)` under `current_node = signal.id`
      match runClosure fuel { r with current := some id, tracker := some [] } cl with
      | .error e => .error e
      | .ok (r, v, obs) =>
        let deps := r.tracker.getD []
        let r := { r with tracker := prevTr, current := prevCur,
                          trace := r.trace ++ [.run id obs v] }
        let r := createDependencyLink r deps id
        -- the memo may have been disposed by its own initial run (D4)
        match r.get? id with
        | none => .ok (r, id)
        | some n => .ok (r.setNode id { n with value := some v, callback := some (eq, cl) }, id)

/-- `Root::run_node_update` -/
def runNodeUpdate : Nat → Root → Id → Except Panic Root
  | 0, _, _ => .error .fuel
  | fuel + 1, r, cur =>
    match r.get? cur with
    | none => .error .slotKey
    | some n =>
      -- remove old dependency links
      let olddeps := n.dependencies
      let r := r.setNode cur { n with dependencies := [] }
      match unlink cur r olddeps with
      | .error e => .error e
      | .ok r =>
        match r.get? cur with
        | none => .error .slotKey
        | some n =>
          match n.callback, n.value with
          | none, _ => .error .unwrapNone
          | some _, none => .error .unwrapNone
          | some (eq, cl), some old =>
            let r := r.setNode cur { n with callback := none, value := none }
            -- destroy anything created in a previous update
            match disposeChildren fuel r cur with
            | .error e => .error e
            | .ok r =>
              -- one of the cleanups may have disposed this node (repair D22): nothing left to update
              if r.get? cur = none then .ok r else
              let prevCur := r.current
              let prevTr := r.tracker
              match runClosure fuel { r with current := some cur, tracker := some [] } cl with
              | .error e => .error e
              | .ok (r, new, obs) =>
                let deps := r.tracker.getD []
                let r := { r with tracker := prevTr, current := prevCur,
                                  trace := r.trace ++ [.run cur obs new] }
                let r := createDependencyLink r deps cur
                -- the node may have been disposed by its own callback (D4)
                match r.get? cur with
                | none => .ok r
                | some n =>
                  let changed := !eqHolds eq new old
                  let r := r.setNode cur { n with callback := some (eq, cl),
                                                  value := some (if changed then new else old), dirty := false }
                  .ok (if changed then markDependentsDirty r cur else r)

/-- the second loop of `Root::propagate_node_updates`, over the reversed buffer -/
def propagateLoop : Nat → Root → List Id → Except Panic Root
  | 0, _, _ => .error .fuel
  | _ + 1, r, [] => .ok r
  | fuel + 1, r, node :: rest =>
    match r.get? node with
    | none => propagateLoop fuel r rest                  -- only run if the node is still alive
    | some n =>
      let r := r.setNode node { n with mark := .none }
      if n.dirty then
        match runNodeUpdate fuel r node with
        | .error e => .error e
        | .ok r => propagateLoop fuel r rest
      else propagateLoop fuel r rest

/-- `Root::propagate_node_updates` -/
def propagateNodeUpdates : Nat → Root → List Id → Except Panic Root
  | 0, _, _ => .error .fuel
  | fuel + 1, r, starts =>
    -- traverse the reactive graph
    match visitStarts r [] starts with
    | .error e => .error e
    | .ok (r, buf) => propagateLoop fuel (resetMarks r starts) buf.reverse

/-- `Root::propagate_updates` -/
def propagateUpdates : Nat → Root → Id → Except Panic Root
  | 0, _, _ => .error .fuel
  | fuel + 1, r, start =>
    if r.batching then .ok { r with queue := r.queue ++ [start] }
    else propagateNodeUpdates fuel r [start]

/-- `NodeHandle::dispose` -/
def disposeNode : Nat → Root → Id → Except Panic Root
  | 0, _, _ => .error .fuel
  | fuel + 1, r, id =>
    match disposeChildren fuel (unsubscribe r id) id with
    | .error e => .error e
    | .ok r =>
      match disposeRest fuel r id with
      | .error e => .error e
      | .ok r => .ok (removeNode r id)

/-- the loop in `NodeHandle::dispose` (repair D23): a cleanup may have created nodes, or registered further
cleanups, in this very scope while it was being torn down (through a captured handle); as long as the node
holds children or cleanups they are torn down as well, so that nothing is left behind without an owner -/
def disposeRest : Nat → Root → Id → Except Panic Root
  | 0, _, _ => .error .fuel
  | fuel + 1, r, id =>
    match r.get? id with
    | none => .ok r
    | some n =>
      if n.children.isEmpty && n.cleanups.isEmpty then .ok r
      else
        match disposeChildren fuel r id with
        | .error e => .error e
        | .ok r => disposeRest fuel r id

/-- `NodeHandle::dispose_children` -/
def disposeChildren : Nat → Root → Id → Except Panic Root
  | 0, _, _ => .error .fuel
  | fuel + 1, r, id =>
    match r.get? id with
    | none => .ok r                                       -- already disposed: do nothing
    | some n =>
      let cleanups := n.cleanups
      let children := n.children
      let r := r.setNode id { n with cleanups := [], children := [] }
      -- cleanups run untracked
      let prevTr := r.tracker
      match runCleanups fuel { r with tracker := none } cleanups with
      | .error e => .error e
      | .ok r =>
        let r := { r with tracker := prevTr }
        match disposeList fuel r children with
        | .error e => .error e
        | .ok r =>
          -- clear context values (the node may have been disposed by one of its own cleanups, D4)
          .ok (r.modify id fun n => { n with context := [] })

def runCleanups : Nat → Root → List Closure → Except Panic Root
  | 0, _, _ => .error .fuel
  | _ + 1, r, [] => .ok r
  | fuel + 1, r, cl :: cls =>
    match runClosure fuel r cl with
    | .error e => .error e
    | .ok (r, _, obs) => runCleanups fuel { r with trace := r.trace ++ [.cleanup cl.tag obs] } cls

def disposeList : Nat → Root → List Id → Except Panic Root
  | 0, _, _ => .error .fuel
  | _ + 1, r, [] => .ok r
  | fuel + 1, r, c :: cs =>
    match disposeNode fuel r c with
    | .error e => .error e
    | .ok r => disposeList fuel r cs
end

/-- `Root::new_static` + `reinit` on a fresh root: one root node, which is the current node -/
def Root.init : Root :=
  let node : Node := { value := some 0, callback := none, children := [], parent := none, dependents := [], dependencies := [], cleanups := [], context := [], dirty := false, mark := .none }
  { nodes := #[some node], tracker := none, current := some 0, rootNode := some 0, queue := [],
    batching := false, nextTag := 0, trace := [] }

/-- `Root::reinit` (what `RootHandle::dispose` calls, and what every server render starts with): dispose
the root node — cleanups run, the whole ownership tree goes —, reset tracker / queue / batching, DRAIN what
is left in the arena (nodes that cleanups created during the teardown, repair D20: the arena itself is
kept, so no key is ever handed out twice), and create a fresh root node, which becomes the current scope. -/
def reinit (fuel : Nat) (r : Root) : Except Panic Root :=
  match (match r.rootNode with
         | some id => disposeNode fuel r id
         | none => .ok r) with
  | .error e => .error e
  | .ok r =>
    let nodes := r.nodes.map fun _ => none
    let node : Node := { value := some 0, callback := none, children := [], parent := none, dependents := [], dependencies := [], cleanups := [], context := [], dirty := false, mark := .none }
    .ok { r with nodes := nodes.push (some node), tracker := none, current := some nodes.size, rootNode := some nodes.size,
                 queue := [], batching := false }

/-- `reinit` before repair D20: the arena is REPLACED (`nodes.take()`), so the new root node gets key 0
again and every handle that survived from before names a node of the new generation. -/
def reinitOld (fuel : Nat) (r : Root) : Except Panic Root :=
  match (match r.rootNode with
         | some id => disposeNode fuel r id
         | none => .ok r) with
  | .error e => .error e
  | .ok r => .ok { Root.init with nextTag := r.nextTag, trace := r.trace }

end SycVerif.Reactive
