/-
Model of server rendering with suspense (packages/sycamore-web/src/suspense.rs `Suspense`, `WrapAsync`,
`use_suspense_key`; node/ssr_render.rs `render_to_string`, `render_to_string_await_suspense`,
`render_to_string_stream`; node/mod.rs `HydrationRegistry`; resource.rs), after the repairs D14 (no
hydration markers outside hydration mode) and D16 (a streamed fragment is woken before it is marked sent).

A view is BUILT once, left to right: elements take the next hydration key of the registry in scope, a
`Suspense` (blocking/streaming) takes the next suspense key, opens a registry of its own for its children
and then takes one more key of the outer registry for its `no-ssr` element; an async component leaves a
hole and registers its body, which is built when its task completes — with the registry and the boundary
that were in scope where the component was created. Completion events are fed one at a time.
The executor is not modelled: a completed task resumes at once and exactly once.
No imports: part of the native driver.
-/
namespace SycVerif.Assr

mutual
inductive AV where
  | el (tag : Nat) (cs : AVs)
  | text (n : Nat)
  | susp (cs : AVs)                 -- `Suspense(fallback = "fb") { cs }`
  | acomp (t : Nat) (cs : AVs)      -- async component: awaits task `t`, then builds `cs`
  | dynr (cs : AVs)                 -- `View::from_dynamic(|| cs)`: a dynamic region that reads nothing
  | res (r : Nat)                   -- dynamic text showing resource `r` (`none` while it is loading)
inductive AVs where
  | nil | cons (v : AV) (rest : AVs)
end

inductive Mode where
  | sync | block | stream
  deriving DecidableEq, Repr

abbrev Key := Nat × Nat             -- (suspense scope, element index): `data-hk="s.e"`

mutual
/-- what was built -/
inductive RN where
  | el (tag : Nat) (key : Key) (kids : RNs)
  | text (n : Nat)
  | fb                                       -- the fallback text
  | marker                                   -- `<!--/-->`
  | resText (r : Nat)                        -- `<!--t-->…<!-->`
  | hole (id : Nat)                          -- an async component that has not resolved yet
  | group (kids : RNs)                       -- the resolved content of a hole
  | susp (k : Nat) (startKey noSsrKey : Key) (content : RNs)
inductive RNs where
  | nil | cons (n : RN) (rest : RNs)
end

def RNs.append : RNs → RNs → RNs
  | .nil, b => b
  | .cons n r, b => .cons n (r.append b)
instance : Append RNs := ⟨RNs.append⟩

/-- a body waiting for its task -/
structure Pend where
  task : Nat
  reg : Nat
  ctx : Option Nat
  body : AVs
  hole : Nat

/-- a suspense boundary (boundary `k` is at index `k - 1`) -/
structure Bd where
  parent : Option Nat
  count : Nat          -- `tasks_remaining`
  sent : Bool          -- streaming: the fragment went out
  deriving Repr

structure St where
  mode : Mode
  nextSusp : Nat
  regs : List Nat              -- `regs[i]`: next element index of registry `i` (0 = outside every boundary)
  pend : List Pend
  nextHole : Nat
  bds : List Bd
  resDone : List Nat           -- resources that have delivered
  guards : List (Nat × Nat)    -- (resource, boundary): a read under the boundary while the resource was loading
  loose : Nat                  -- unfinished tasks registered under no boundary
  doneTasks : List Nat         -- tasks whose await point has been completed (a body created later resumes at once)
  waiting : List Nat           -- streaming: boundaries created since the stream last looked (`SuspenseStream.futures`)

def St.init (m : Mode) : St := ⟨m, 1, [0], [], 0, [], [], [], 0, [], []⟩

def nextKey (st : St) (reg : Nat) : Key × St :=
  let e := st.regs.getD reg 0
  ((reg, e), { st with regs := st.regs.set reg (e + 1) })

/-- one more unfinished task under `ctx` -/
def incr (st : St) : Option Nat → St
  | none => { st with loose := st.loose + 1 }
  | some k => { st with bds := st.bds.modify (k - 1) fun b => { b with count := b.count + 1 } }
def decr (st : St) : Option Nat → St
  | none => { st with loose := st.loose - 1 }
  | some k => { st with bds := st.bds.modify (k - 1) fun b => { b with count := b.count - 1 } }

mutual
/-- build `v` with registry `reg` and nearest boundary `ctx` -/
def build (reg : Nat) (ctx : Option Nat) : AV → St → RNs × St
  | .el tag cs, st =>
    let (key, st) := nextKey st reg
    let (kids, st) := buildList reg ctx cs st
    (.cons (.el tag key kids) .nil, st)
  | .text n, st => (.cons (.text n) .nil, st)
  | .dynr cs, st =>
    let (kids, st) := buildList reg ctx cs st
    (.cons .marker (kids ++ .cons .marker .nil), st)
  | .acomp t cs, st =>
    let h := st.nextHole
    let st := incr { st with nextHole := h + 1, pend := st.pend ++ [⟨t, reg, ctx, cs, h⟩] } ctx
    (.cons .marker (.cons (.hole h) (.cons .marker .nil)), st)
  | .res r, st =>
    -- a read while the resource is loading holds a guard of the boundary in scope
    let st := if st.resDone.contains r then st else
      match ctx with
      | some k => incr { st with guards := st.guards ++ [(r, k)] } ctx
      | none => st
    (.cons (.resText r) .nil, st)
  | .susp cs, st =>
    match st.mode with
    | .sync =>
      -- `Show(when=true) { (fallback()) } Show(when=false) {}`: the children are not even called
      (.cons .marker (.cons .marker (.cons .fb (.cons .marker (.cons .marker (.cons .marker (.cons .marker .nil)))))), st)
    | _ =>
      let k := st.nextSusp
      let st := { st with nextSusp := k + 1 }
      let (startKey, st) := nextKey st reg
      let st := { st with regs := st.regs ++ [0], bds := st.bds ++ [⟨ctx, 0, false⟩], waiting := st.waiting ++ [k] }
      let (content, st) := buildList k (some k) cs st
      let (noSsrKey, st) := nextKey st reg
      (.cons (.susp k startKey noSsrKey content) .nil, st)
def buildList (reg : Nat) (ctx : Option Nat) : AVs → St → RNs × St
  | .nil, st => (.nil, st)
  | .cons v rest, st =>
    let (a, st) := build reg ctx v st
    let (b, st) := buildList reg ctx rest st
    (a ++ b, st)
end

mutual
/-- put the resolved content into hole `h` -/
def fill (h : Nat) (c : RNs) : RN → RN
  | .el tag key kids => .el tag key (fillList h c kids)
  | .hole i => if i = h then .group c else .hole i
  | .group kids => .group (fillList h c kids)
  | .susp k a b content => .susp k a b (fillList h c content)
  | n => n
def fillList (h : Nat) (c : RNs) : RNs → RNs
  | .nil => .nil
  | .cons n rest => .cons (fill h c n) (fillList h c rest)
end

structure World where
  st : St
  tree : RNs
  polled : List Nat := []      -- streaming: the boundaries whose fragments the stream is waiting for
  closed : Bool := false       -- streaming: the stream has ended

/-- build the whole view (resources are created first, loading) -/
def World.start (m : Mode) (vs : AVs) : World :=
  let (tree, st) := buildList 0 none vs (St.init m)
  -- the stream takes the boundaries registered while the shell was built
  { st := { st with waiting := [] }, tree := tree, polled := st.waiting, closed := st.waiting.isEmpty }

/-- the bodies waiting for task `t` are built (in registration order) and fill their holes -/
def completeFrom : List Pend → World → World
  | [], w => w
  | p :: ps, w =>
    let (c, st) := buildList p.reg p.ctx p.body w.st
    let st := decr st p.ctx
    completeFrom ps { w with st := st, tree := fillList p.hole c w.tree }

/-- resume every body whose task has completed; bodies built on the way may resume too (their task may
have completed before they were created): repeat, oldest registration first -/
def settle : Nat → World → World
  | 0, w => w
  | fuel + 1, w =>
    let mine := w.st.pend.filter fun p => w.st.doneTasks.contains p.task
    if mine.isEmpty then w else
    let w := { w with st := { w.st with pend := w.st.pend.filter fun p => !w.st.doneTasks.contains p.task } }
    settle fuel (completeFrom mine w)

mutual
def sizeAV : AV → Nat
  | .el _ cs => sizeAVs cs + 1
  | .susp cs => sizeAVs cs + 1
  | .acomp _ cs => sizeAVs cs + 1
  | .dynr cs => sizeAVs cs + 1
  | _ => 1
def sizeAVs : AVs → Nat
  | .nil => 0
  | .cons v r => sizeAV v + sizeAVs r
end

/-- enough rounds for `settle`: every round resumes at least one body, and bodies nest finitely -/
def settleFuel (w : World) : Nat := (w.st.pend.map fun p => sizeAVs p.body + 1).sum + 1

def complete (w : World) (t : Nat) : World :=
  let w := { w with st := { w.st with doneTasks := w.st.doneTasks ++ [t] } }
  settle (settleFuel w) w

/-- resource `r` delivers: every guard held for it is released -/
def deliver (w : World) (r : Nat) : World :=
  if w.st.resDone.contains r then w else
  let gs := w.st.guards.filter (·.1 = r)
  let st := { w.st with resDone := w.st.resDone ++ [r], guards := w.st.guards.filter (·.1 != r) }
  { w with st := gs.foldl (fun st g => decr st (some g.2)) st }

inductive Ev where
  | c (t : Nat) | r (n : Nat)
  deriving Repr

def step (w : World) : Ev → World
  | .c t => complete w t
  | .r n => deliver w n

/-- `SuspenseScope::_is_loading`; fuel = number of boundaries -/
def loading (st : St) : Nat → Nat → Bool
  | 0, _ => false
  | fuel + 1, k =>
    match st.bds[k - 1]? with
    | none => false
    | some b => b.count > 0 || (match b.parent with | some p => loading st fuel p | none => false)

/-- `use_is_loading_global`: some boundary counter is positive -/
def globalLoading (st : St) : Bool := st.bds.any (·.count > 0)

/-! ### rendering to text -/

def tagName : Nat → String
  | 0 => "div" | 1 => "p" | 2 => "span" | _ => "b"
def tagOf (n : Nat) : String := tagName (n % 4)
def hk (k : Key) : String := s!" data-hk=\"{k.1}.{k.2}\""

inductive How where
  | final      -- sync and blocking: boundaries show their content
  | shell      -- streaming: boundaries show the fallback between start and end markers

mutual
def render (st : St) (how : How) : RN → String
  | .el tag key kids => s!"<{tagOf tag}{hk key}>" ++ renderList st how kids ++ s!"</{tagOf tag}>"
  | .text n => s!"t{n}"
  | .fb => "fb"
  | .marker => "<!--/-->"
  | .resText r => "<!--t-->" ++ (if st.resDone.contains r then "r7" else "none") ++ "<!-->"
  | .hole _ => ""
  | .group kids => renderList st how kids
  | .susp k a b content =>
    match how with
    | .final =>
      s!"<suspense-start data-key=\"{k}\"{hk a}></suspense-start><no-ssr{hk b}></no-ssr><!--/-->"
        ++ renderList st how content ++ "<!--/-->"
    | .shell =>
      s!"<no-ssr{hk b}></no-ssr><suspense-start data-key=\"{k}\"{hk a}></suspense-start>fb<suspense-end data-key=\"{k}\"></suspense-end>"
def renderList (st : St) (how : How) : RNs → String
  | .nil => ""
  | .cons n rest => render st how n ++ renderList st how rest
end

mutual
/-- the content of boundary `k`, if it is in the tree -/
def findSusp (k : Nat) : RN → Option RNs
  | .el _ _ kids => findSuspList k kids
  | .group kids => findSuspList k kids
  | .susp j _ _ content => if j = k then some content else findSuspList k content
  | _ => none
def findSuspList (k : Nat) : RNs → Option RNs
  | .nil => none
  | .cons n rest => match findSusp k n with | some c => some c | none => findSuspList k rest
end

def script : String := "<script>function __sycamore_suspense(e){let s=document.querySelector(`suspense-start[data-key=\"${e}\"]`),n=document.querySelector(`suspense-end[data-key=\"${e}\"]`),r=document.getElementById(`sycamore-suspense-${e}`);for(s.parentNode.insertBefore(r.content,s);s.nextSibling!=n;)s.parentNode.removeChild(s.nextSibling);}</script>"

def shellOf (w : World) : String := "<!doctype html>" ++ renderList w.st .shell w.tree ++ script

def fragmentOf (w : World) (k : Nat) : String :=
  s!"<template id=\"sycamore-suspense-{k}\"><!--/-->"
    ++ (match findSuspList k w.tree with | some c => renderList w.st .shell c | none => "")
    ++ s!"<!--/--></template><script>__sycamore_suspense({k})</script>"

/-- streaming: among the boundaries the stream is waiting for, send one that is not loading any more and
whose parent has been sent; then the stream takes the boundaries created in the meantime; a boundary that
becomes sendable because its parent was just sent follows (repeat until nothing moves). When nothing is
left to wait for, the stream ends — boundaries created afterwards are never sent. -/
def sendReady : Nat → World → List String → World × List String
  | 0, w, out => (w, out)
  | fuel + 1, w, out =>
    if w.closed then (w, out) else
    let n := w.st.bds.length
    let ready := w.polled.filter fun k =>
      match w.st.bds[k - 1]? with
      | some b => !b.sent && !loading w.st (n + 1) k &&
          (match b.parent with | some p => (w.st.bds[p - 1]?.map (·.sent)).getD false | none => true)
      | none => false
    match ready with
    | [] => (w, out)
    | k :: _ =>
      let st := { w.st with bds := w.st.bds.modify (k - 1) fun b => { b with sent := true }, waiting := [] }
      let polled := w.polled.filter (· != k) ++ w.st.waiting
      sendReady fuel { w with st := st, polled := polled, closed := polled.isEmpty } (out ++ [fragmentOf w k])

end SycVerif.Assr
