/-
Model of `reconcile_fragments` (packages/sycamore-web/src/iter.rs, a port of udomdiff) over the
children list of ONE parent node, with the three DOM mutations it uses specified as in the WHATWG DOM
standard (`insertBefore`, `removeChild`, `replaceChild`, `nextSibling`). Nodes are natural numbers
(identities). A node that is not in `ch` is detached (or lives elsewhere): its `nextSibling` is `none`.
No imports: part of the native driver.
-/
namespace SycVerif.Reconcile

inductive DomErr where
  | notFound            -- NotFoundError: reference/old child is not a child of parent
  | index               -- slice index out of bounds (Rust panic)
  | unwrapNone
  | fuel
  deriving DecidableEq, Repr

/-- `node.nextSibling` for a child of the parent (or `none` for a node that is not a child) -/
def nextSibling : List Nat → Nat → Option Nat
  | [], _ => none
  | [_], _ => none
  | x :: y :: r, n => if x = n then some y else nextSibling (y :: r) n

/-- insert `n` before `ref` in a list that does not contain `n` -/
def insertAt (ch : List Nat) (n : Nat) : Option Nat → Option (List Nat)
  | none => some (ch ++ [n])
  | some r =>
    match ch with
    | [] => none
    | x :: xs => if x = r then some (n :: x :: xs) else (insertAt xs n (some r)).map (x :: ·)

/-- `parent.insertBefore(node, ref)`: "If child is non-null and its parent is not parent, throw
NotFoundError. If referenceChild is node, set it to node's next sibling. Adopt+insert: remove node
from its old position first." -/
def insertBefore (ch : List Nat) (n : Nat) (ref : Option Nat) : Except DomErr (List Nat) :=
  match ref with
  | some r =>
    if !ch.contains r then .error .notFound else
    let ref' := if r = n then nextSibling ch n else some r
    match insertAt (ch.erase n) n ref' with
    | some l => .ok l
    | none => .error .notFound
  | none => .ok (ch.erase n ++ [n])

/-- `parent.removeChild(child)` -/
def removeChild (ch : List Nat) (c : Nat) : Except DomErr (List Nat) :=
  if ch.contains c then .ok (ch.erase c) else .error .notFound

/-- `parent.replaceChild(node, child)`: "Let referenceChild be child's next sibling; if it is node,
node's next sibling. Remove child; insert node before referenceChild." -/
def replaceChild (ch : List Nat) (n old : Nat) : Except DomErr (List Nat) :=
  if !ch.contains old then .error .notFound else
  let ref := nextSibling ch old
  let ref := if ref = some n then nextSibling ch n else ref
  let ch1 := ch.erase old
  match insertAt (ch1.erase n) n ref with
  | some l => .ok l
  | none => .error .notFound

/-- `HashMap<HashableNode, usize>` -/
abbrev NodeMap := List (Nat × Nat)
def NodeMap.get (m : NodeMap) (k : Nat) : Option Nat := (m.find? (·.1 == k)).map (·.2)

structure St where
  ch : List Nat             -- children of the parent
  a : Array Nat             -- `a` (mutated by the swap branch)
  aStart : Nat
  aEnd : Nat
  bStart : Nat
  bEnd : Nat
  map : Option NodeMap

/-- the inner `while i + 1 < a_end && i + 1 < b_end` loop of the map branch: length of the run of
consecutive nodes of `a` that map to consecutive indices of `b` -/
def seqLen (a : Array Nat) (m : NodeMap) (aEnd bEnd index : Nat) : Nat → Nat → Nat → Nat
  | 0, _, sequence => sequence
  | fuel + 1, i, sequence =>
    if i + 1 < aEnd ∧ i + 1 < bEnd then
      let i := i + 1
      match a[i]? with
      | none => sequence
      | some x => if m.get x = some (index + sequence) then seqLen a m aEnd bEnd index fuel i (sequence + 1) else sequence
    else sequence

/-- insert all of `xs` before `ref`, in order -/
def insertAll (ch : List Nat) (ref : Option Nat) : List Nat → Except DomErr (List Nat)
  | [] => .ok ch
  | x :: xs => match insertBefore ch x ref with
    | .error e => .error e
    | .ok ch => insertAll ch ref xs

/-- remove those of `xs` that the map does not know -/
def removeAll (ch : List Nat) (m : Option NodeMap) : List Nat → Except DomErr (List Nat)
  | [] => .ok ch
  | x :: xs =>
    if m.isNone || (m.bind (·.get x)).isNone then
      match removeChild ch x with
      | .error e => .error e
      | .ok ch => removeAll ch m xs
    else removeAll ch m xs

/-- one iteration of the main `while` loop; `after` = `a.last.nextSibling` taken at the start -/
def iter (b : Array Nat) (after : Option Nat) (s : St) : Except DomErr St :=
  if s.aEnd = s.aStart then
    -- append
    let node : Except DomErr (Option Nat) :=
      if s.bEnd < b.size then
        if s.bStart ≠ 0 then
          match b[s.bStart - 1]? with
          | some x => .ok (nextSibling s.ch x)
          | none => .error .index
        else match b[s.bEnd - s.bStart]? with
          | some x => .ok (some x)
          | none => .error .index
      else .ok after
    match node with
    | .error e => .error e
    | .ok node =>
      match insertAll s.ch node ((b.toList.drop s.bStart).take (s.bEnd - s.bStart)) with
      | .error e => .error e
      | .ok ch => .ok { s with ch := ch, bStart := s.bEnd }
  else if s.bEnd = s.bStart then
    -- remove
    match removeAll s.ch s.map ((s.a.toList.drop s.aStart).take (s.aEnd - s.aStart)) with
    | .error e => .error e
    | .ok ch => .ok { s with ch := ch, aStart := s.aEnd }
  else
    match s.a[s.aStart]?, b[s.bStart]?, s.a[s.aEnd - 1]?, b[s.bEnd - 1]? with
    | some a0, some b0, some a1, some b1 =>
      if a0 = b0 then .ok { s with aStart := s.aStart + 1, bStart := s.bStart + 1 }        -- common prefix
      else if a1 = b1 then .ok { s with aEnd := s.aEnd - 1, bEnd := s.bEnd - 1 }            -- common suffix
      else if a0 = b1 ∧ b0 = a1 then
        -- swap backwards
        let node := nextSibling s.ch a1
        match insertBefore s.ch b0 (nextSibling s.ch a0) with
        | .error e => .error e
        | .ok ch =>
          match insertBefore ch b1 node with
          | .error e => .error e
          | .ok ch =>
            let aEnd := s.aEnd - 1
            let bEnd := s.bEnd - 1
            match b[bEnd]? with
            | none => .error .index
            | some x =>
              if aEnd < s.a.size then
                .ok { s with ch := ch, aStart := s.aStart + 1, bStart := s.bStart + 1, aEnd := aEnd, bEnd := bEnd,
                             a := s.a.set! aEnd x }
              else .error .index
      else
        -- fallback to map
        let m : NodeMap := match s.map with
          | some m => m
          | none => ((b.toList.drop s.bStart).take (s.bEnd - s.bStart)).zipIdx.map fun (g, i) => (g, s.bStart + i)
        let s := { s with map := some m }
        match m.get a0 with
        | some index =>
          if s.bStart < index ∧ index < s.bEnd then
            let sequence := seqLen s.a m s.aEnd s.bEnd index (s.a.size + 1) s.aStart 1
            if sequence > index - s.bStart then
              match insertAll s.ch (some a0) ((b.toList.drop s.bStart).take (index - s.bStart)) with
              | .error e => .error e
              | .ok ch => .ok { s with ch := ch, bStart := index }
            else
              match replaceChild s.ch b0 a0 with
              | .error e => .error e
              | .ok ch => .ok { s with ch := ch, aStart := s.aStart + 1, bStart := s.bStart + 1 }
          else .ok { s with aStart := s.aStart + 1 }
        | none =>
          match removeChild s.ch a0 with
          | .error e => .error e
          | .ok ch => .ok { s with ch := ch, aStart := s.aStart + 1 }
    | _, _, _, _ => .error .index

def loop (b : Array Nat) (after : Option Nat) : Nat → St → Except DomErr St
  | 0, _ => .error .fuel
  | fuel + 1, s =>
    if s.aStart < s.aEnd ∨ s.bStart < s.bEnd then
      match iter b after s with
      | .error e => .error e
      | .ok s => loop b after fuel s
    else .ok s

/-- `reconcile_fragments(parent, a, b)`; `ch` = the children of `parent` before the call -/
def reconcile (ch : List Nat) (a b : List Nat) : Except DomErr (List Nat) :=
  match a.getLast? with
  | none => .error .index                       -- `a` must not be empty
  | some last =>
    let after := nextSibling ch last
    match loop b.toArray after (2 * (a.length + b.length) + 2)
        ⟨ch, a.toArray, 0, a.length, 0, b.length, none⟩ with
    | .error e => .error e
    | .ok s => .ok s.ch

/-- `utils::get_nodes_between(start, end)` on the children list -/
def nodesBetween (ch : List Nat) (start stop : Nat) : List Nat :=
  ((ch.dropWhile (· != start)).drop 1).takeWhile (· != stop)

end SycVerif.Reconcile
