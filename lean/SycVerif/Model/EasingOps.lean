/-
The operations `easing.rs` uses, as an abstract signature. The generated `Model/EasingGen.lean` is
written against this signature only; it is instantiated with `Float32` for execution (driver) and
with `ℝ` for the proofs (`Props/C19.lean`).
-/
namespace SycVerif.Easing

class EasingOps (α : Type) where
  add : α → α → α
  sub : α → α → α
  mul : α → α → α
  div : α → α → α
  neg : α → α
  abs : α → α
  sqrt : α → α
  sin : α → α
  cos : α → α
  /-- `f32::powf` -/
  powf : α → α → α
  /-- decimal literal `m / 10^e` -/
  lit : Nat → Nat → α
  /-- `std::f32::consts::PI` -/
  pi : α
  /-- `f32::EPSILON` -/
  eps : α
  lt : α → α → Prop
  le : α → α → Prop
  decLt : ∀ a b, Decidable (lt a b)
  decLe : ∀ a b, Decidable (le a b)

attribute [instance] EasingOps.decLt EasingOps.decLe

/-- Execution instance: IEEE binary32 through Lean's `Float32` (C `sinf/cosf/powf/sqrtf`). -/
instance : EasingOps Float32 where
  add := (· + ·)
  sub := (· - ·)
  mul := (· * ·)
  div := (· / ·)
  neg := fun x => -x
  abs := Float32.abs
  sqrt := Float32.sqrt
  sin := Float32.sin
  cos := Float32.cos
  powf := Float32.pow
  lit := fun m e => Float32.ofScientific m true e
  pi := Float32.ofBits 0x40490FDB       -- 3.14159274, the f32 nearest to π
  eps := Float32.ofBits 0x34000000      -- 2^-23
  lt := (· < ·)
  le := (· ≤ ·)
  decLt := fun a b => Float32.decLt a b
  decLe := fun a b => Float32.decLe a b

end SycVerif.Easing
