/-
Model of `is_dyn`, `is_dyn_pattern`, `is_dyn_macro`, `is_dyn_block` in
packages/sycamore-view-parser/src/codegen.rs: one constructor per `syn::Expr` (40), `syn::Pat` (17) and
`syn::Stmt` (4) variant, carrying the sub-terms the classifier could look at. Lists and options are
explicit mutual types so that all recursion is structural. (Written with tools/gen_isdyn.py.)
-/
namespace SycVerif.IsDyn

mutual
inductive Ex where
  | lit   -- Expr::Lit
  | path   -- Expr::Path
  | closure (f0 : Ex)   -- Expr::Closure (body is opaque)
  | field (f0 : Ex)   -- Expr::Field
  | paren (f0 : Ex)   -- Expr::Paren
  | group (f0 : Ex)   -- Expr::Group
  | tuple (f0 : ExList)   -- Expr::Tuple
  | array (f0 : ExList)   -- Expr::Array
  | repeat (f0 : Ex) (f1 : Ex)   -- Expr::Repeat (expr, len)
  | struct_ (f0 : ExList) (f1 : ExOpt)   -- Expr::Struct (field values, rest)
  | cast (f0 : Ex)   -- Expr::Cast
  | macro_ (f0 : Bool)   -- Expr::Macro (f0 = path is the bare ident `view`)
  | block (f0 : StList)   -- Expr::Block
  | const_ (f0 : StList)   -- Expr::Const (compile-time, opaque)
  | loop_ (f0 : StList)   -- Expr::Loop
  | while_ (f0 : Ex) (f1 : StList)   -- Expr::While
  | forLoop (f0 : Pt) (f1 : Ex) (f2 : StList)   -- Expr::ForLoop
  | break_ (f0 : ExOpt)   -- Expr::Break (value)
  | continue_   -- Expr::Continue
  | let_ (f0 : Pt) (f1 : Ex)   -- Expr::Let
  | match_ (f0 : Ex) (f1 : ArmList)   -- Expr::Match
  | if_ (f0 : Ex) (f1 : StList) (f2 : ExOpt)   -- Expr::If
  | unary (f0 : Ex)   -- Expr::Unary
  | binary (f0 : Ex) (f1 : Ex)   -- Expr::Binary
  | index (f0 : Ex) (f1 : Ex)   -- Expr::Index
  | range (f0 : ExOpt) (f1 : ExOpt)   -- Expr::Range
  | call (f0 : Ex) (f1 : ExList)   -- Expr::Call
  | methodCall (f0 : Ex) (f1 : ExList)   -- Expr::MethodCall
  | await_ (f0 : Ex)   -- Expr::Await
  | try_ (f0 : Ex)   -- Expr::Try
  | assign (f0 : Ex) (f1 : Ex)   -- Expr::Assign
  | reference (f0 : Ex)   -- Expr::Reference
  | rawAddr (f0 : Ex)   -- Expr::RawAddr
  | return_ (f0 : ExOpt)   -- Expr::Return
  | yield_ (f0 : ExOpt)   -- Expr::Yield
  | async_ (f0 : StList)   -- Expr::Async
  | unsafe_ (f0 : StList)   -- Expr::Unsafe
  | tryBlock (f0 : StList)   -- Expr::TryBlock
  | infer_   -- Expr::Infer
  | verbatim   -- Expr::Verbatim / future variants
inductive Pt where
  | wild   -- Pat::Wild
  | lit   -- Pat::Lit
  | path   -- Pat::Path
  | rest   -- Pat::Rest
  | const_ (f0 : StList)   -- Pat::Const (compile-time, opaque)
  | type_ (f0 : Pt)   -- Pat::Type (inner pattern)
  | paren (f0 : Pt)   -- Pat::Paren
  | or_ (f0 : PtList)   -- Pat::Or
  | tuple (f0 : PtList)   -- Pat::Tuple
  | tupleStruct (f0 : PtList)   -- Pat::TupleStruct
  | slice (f0 : PtList)   -- Pat::Slice
  | struct_ (f0 : PtList)   -- Pat::Struct (field patterns)
  | range (f0 : ExOpt) (f1 : ExOpt)   -- Pat::Range
  | reference (f0 : Bool) (f1 : Pt)   -- Pat::Reference (f0 = `mut`)
  | ident (f0 : Bool) (f1 : Bool) (f2 : PtOpt)   -- Pat::Ident (f0 = `ref`, f1 = `mut`, subpattern)
  | macro_ (f0 : Bool)   -- Pat::Macro (`_ => true`)
  | verbatim   -- Pat::Verbatim / future variants
inductive St where
  | expr (f0 : Ex)   -- Stmt::Expr
  | macro_ (f0 : Bool)   -- Stmt::Macro
  | local_ (f0 : Pt) (f1 : Init)   -- Stmt::Local
  | item   -- Stmt::Item (opaque)
inductive ExOpt where
  | none | some (e : Ex)
inductive ExList where
  | nil | cons (e : Ex) (es : ExList)
inductive PtOpt where
  | none | some (p : Pt)
inductive PtList where
  | nil | cons (p : Pt) (ps : PtList)
/-- `Local::init`: `= expr` with an optional `else { diverge }` -/
inductive Init where
  | none | some (e : Ex) (diverge : ExOpt)
inductive StList where
  | nil | cons (s : St) (ss : StList)
/-- one `match` arm: pattern, optional guard, body -/
inductive ArmList where
  | nil | cons (p : Pt) (guard : ExOpt) (body : Ex) (rest : ArmList)
end

mutual
/-- `is_dyn` -/
def isDyn : Ex → Bool
  | .lit => false
  | .path => false
  | .closure _ => false
  | .field f0 => isDyn f0
  | .paren f0 => isDyn f0
  | .group f0 => isDyn f0
  | .tuple f0 => listDyn f0
  | .array f0 => listDyn f0
  | .repeat f0 f1 => isDyn f0 || isDyn f1
  | .struct_ f0 f1 => listDyn f0 || optDyn f1
  | .cast f0 => isDyn f0
  | .macro_ f0 => !f0
  | .block f0 => blockDyn f0
  | .const_ _ => false
  | .loop_ f0 => blockDyn f0
  | .while_ f0 f1 => isDyn f0 || blockDyn f1
  | .forLoop f0 f1 f2 => patDyn f0 || isDyn f1 || blockDyn f2
  | .break_ f0 => optDyn f0
  | .continue_ => false
  | .let_ f0 f1 => patDyn f0 || isDyn f1
  | .match_ f0 f1 => isDyn f0 || armsDyn f1
  | .if_ f0 f1 f2 => isDyn f0 || blockDyn f1 || optDyn f2
  | .unary f0 => isDyn f0
  | .binary f0 f1 => isDyn f0 || isDyn f1
  | .index f0 f1 => isDyn f0 || isDyn f1
  | .range f0 f1 => optDyn f0 || optDyn f1
  | .call _ _ => true
  | .methodCall _ _ => true
  | .await_ _ => true
  | .try_ _ => true
  | .assign _ _ => true
  | .reference _ => true
  | .rawAddr _ => true
  | .return_ _ => true
  | .yield_ _ => true
  | .async_ _ => true
  | .unsafe_ _ => true
  | .tryBlock _ => true
  | .infer_ => true
  | .verbatim => true
/-- `is_dyn_pattern` -/
def patDyn : Pt → Bool
  | .wild => false
  | .lit => false
  | .path => false
  | .rest => false
  | .const_ _ => false
  | .type_ f0 => patDyn f0
  | .paren f0 => patDyn f0
  | .or_ f0 => patListDyn f0
  | .tuple f0 => patListDyn f0
  | .tupleStruct f0 => patListDyn f0
  | .slice f0 => patListDyn f0
  | .struct_ f0 => patListDyn f0
  | .range f0 f1 => optDyn f0 || optDyn f1
  | .reference f0 f1 => f0 || patDyn f1
  | .ident f0 f1 f2 => (f0 && f1) || patOptDyn f2
  | .macro_ _ => true
  | .verbatim => true
/-- the closure passed to `any` in `is_dyn_block` -/
def stmtDyn : St → Bool
  | .expr f0 => isDyn f0
  | .macro_ f0 => !f0
  | .local_ f0 f1 => patDyn f0 || initDyn f1
  | .item => false
def optDyn : ExOpt → Bool
  | .none => false | .some e => isDyn e
def listDyn : ExList → Bool
  | .nil => false | .cons e es => isDyn e || listDyn es
def patOptDyn : PtOpt → Bool
  | .none => false | .some p => patDyn p
def patListDyn : PtList → Bool
  | .nil => false | .cons p ps => patDyn p || patListDyn ps
def initDyn : Init → Bool
  | .none => false | .some e d => isDyn e || optDyn d
def blockDyn : StList → Bool
  | .nil => false | .cons s ss => stmtDyn s || blockDyn ss
def armsDyn : ArmList → Bool
  | .nil => false | .cons p g b rest => patDyn p || optDyn g || isDyn b || armsDyn rest
end

/-- `Codegen::node` for `Node::Dyn` / `Codegen::attribute`: wrap in a reactive closure iff `is_dyn`. -/
def emitsDynamic (e : Ex) : Bool := isDyn e

end SycVerif.IsDyn
