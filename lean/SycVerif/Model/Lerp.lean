/-
Model of `impl Lerp for $int` in packages/sycamore/src/motion.rs (after the repair of D8):
    (*self as f32 + (*other as f32 - *self as f32) * scalar).round() as $i
over an abstract arithmetic, instantiated with `Float32` (driver) and with exact rationals plus an
arbitrary round-to-nearest (proofs).
-/
namespace SycVerif.Lerp

/-- the float operations the integer lerp uses -/
structure LerpOps (α : Type) where
  /-- `$i as f32` -/
  ofInt : Int → α
  add : α → α → α
  sub : α → α → α
  mul : α → α → α
  /-- `.round() as $i` for the type with range `[lo, hi]`: round half away from zero, then the
  saturating float→int cast (NaN ↦ 0) -/
  roundSat : Int → Int → α → Int

/-- `Lerp::lerp` for an integer type with range `[lo, hi]`. No checked integer operation is left:
the function is total. -/
def lerpInt {α : Type} (ops : LerpOps α) (lo hi : Int) (a b : Int) (t : α) : Int :=
  ops.roundSat lo hi (ops.add (ops.ofInt a) (ops.mul (ops.sub (ops.ofInt b) (ops.ofInt a)) t))

/-- `impl Lerp for [T; N]`: pointwise -/
def lerpArr {α : Type} (ops : LerpOps α) (lo hi : Int) : List Int → List Int → α → List Int
  | a :: as, b :: bs, t => lerpInt ops lo hi a b t :: lerpArr ops lo hi as bs t
  | _, _, _ => []

/-! ### `Float32` instance -/

/-- exact integer value of an integral finite float; NaN ↦ 0, ±∞ ↦ ±2^200 (saturates anyway) -/
def f32ToInt (x : Float32) : Int :=
  let bits := x.toBits.toNat
  let sign : Int := if bits / 2^31 % 2 = 1 then -1 else 1
  let e := bits / 2^23 % 256
  let m := bits % 2^23
  if e = 255 then (if m = 0 then sign * 2^200 else 0)
  else if e = 0 then 0          -- subnormal: |x| < 1, integral ⇒ 0
  else
    let mant : Nat := m + 2^23
    if e ≥ 150 then sign * (mant * 2^(e - 150) : Nat) else sign * (mant / 2^(150 - e) : Nat)

def clamp (lo hi v : Int) : Int := if v < lo then lo else if v > hi then hi else v

def f32Ops : LerpOps Float32 where
  ofInt := Float32.ofInt
  add := (· + ·)
  sub := (· - ·)
  mul := (· * ·)
  roundSat := fun lo hi x => clamp lo hi (f32ToInt x.round)

/-! ### `impl Lerp for f32 / f64`: `self + (other - self) * scalar as $f`

IEEE arithmetic is total, so is the model: there is no error branch (NaN and the infinities are
ordinary values). The driver compares bit patterns (every NaN printed as `nan`). -/

def lerpF32 (a b : Float32) (t : Float32) : Float32 := a + (b - a) * t
def lerpF64 (a b : Float) (t : Float32) : Float := a + (b - a) * t.toFloat

end SycVerif.Lerp
