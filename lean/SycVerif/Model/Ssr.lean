/-
Model of server-side rendering: `SsrNode`, `render_recursive` (packages/sycamore-web/src/node/ssr_node.rs),
`html_escape::encode_text` / `encode_double_quoted_attribute` (0.2.15), and — for key discipline — the
construction of an `SsrNode` tree from a view description through the builder API with the
`HydrationRegistry` counter (`create_element`, node/mod.rs).
Strings are lists of Unicode scalar values (`Nat`). No imports: part of the native driver.
-/
namespace SycVerif.Ssr

abbrev Str := List Nat

def lit (s : String) : Str := s.toList.map Char.toNat

mutual
/-- `SsrNode` -/
inductive SsrNode where
  | element (tag : Str) (attrs : List (Str × Str)) (boolAttrs : List (Str × Bool))
      (children : SsrList) (innerHtml : Option Str) (hk : Option (Nat × Nat))
  | textDynamic (text : Str)
  | textStatic (text : Str)
  | marker
  | dynamic (view : SsrList)
inductive SsrList where
  | nil
  | cons (n : SsrNode) (rest : SsrList)
end

def SsrList.ofList : List SsrNode → SsrList
  | [] => .nil
  | n :: ns => .cons n (SsrList.ofList ns)

/-- `html_escape::encode_text`: `&`, `<`, `>` -/
def escTextChar (c : Nat) : Str :=
  if c = 38 then lit "&amp;" else if c = 60 then lit "&lt;" else if c = 62 then lit "&gt;" else [c]
def escapeText (s : Str) : Str := s.flatMap escTextChar

/-- `html_escape::encode_double_quoted_attribute`: `&`, `<`, `>`, `"` -/
def escAttrChar (c : Nat) : Str :=
  if c = 34 then lit "&quot;" else escTextChar c
def escapeAttr (s : Str) : Str := s.flatMap escAttrChar

def voidElements : List Str :=
  ["area", "base", "br", "col", "embed", "hr", "img", "input", "link", "meta", "param", "source",
   "track", "wbr", "command", "keygen", "menuitem"].map lit

def isVoid (tag : Str) : Bool := voidElements.contains tag

def natToStr (n : Nat) : Str := (toString n).toList.map Char.toNat

def renderAttrs : List (Str × Str) → Str
  | [] => []
  | (n, v) :: rest => [32] ++ n ++ lit "=\"" ++ escapeAttr v ++ [34] ++ renderAttrs rest

def renderBoolAttrs : List (Str × Bool) → Str
  | [] => []
  | (n, true) :: rest => [32] ++ n ++ renderBoolAttrs rest
  | (_, false) :: rest => renderBoolAttrs rest

inductive Panic where
  | voidWithContent        -- "void elements cannot have children or inner_html"
  | innerHtmlAndChildren   -- "inner_html and children are mutually exclusive"
  deriving DecidableEq, Repr

def SsrList.isEmpty : SsrList → Bool
  | .nil => true
  | .cons _ _ => false

mutual
/-- `render_recursive` -/
def render : SsrNode → Except Panic Str
  | .element tag attrs battrs children inner hk =>
    let head := [60] ++ tag ++ renderAttrs attrs ++ renderBoolAttrs battrs ++
      (match hk with
       | some (s, e) => lit " data-hk=\"" ++ natToStr s ++ [46] ++ natToStr e ++ [34]
       | none => []) ++ [62]
    if isVoid tag then
      if children.isEmpty && inner.isNone then .ok head else .error .voidWithContent
    else
      match inner with
      | some h => if children.isEmpty then .ok (head ++ h ++ lit "</" ++ tag ++ [62]) else .error .innerHtmlAndChildren
      | none =>
        match renderList children with
        | .error e => .error e
        | .ok body => .ok (head ++ body ++ lit "</" ++ tag ++ [62])
  | .textDynamic t => .ok (lit "<!--t-->" ++ escapeText t ++ lit "<!-->")
  | .textStatic t => .ok (escapeText t)
  | .marker => .ok (lit "<!--/-->")
  | .dynamic v => renderList v
/-- `render_recursive_view` -/
def renderList : SsrList → Except Panic Str
  | .nil => .ok []
  | .cons n rest =>
    match render n with
    | .error e => .error e
    | .ok a => match renderList rest with
      | .error e => .error e
      | .ok b => .ok (a ++ b)
end

/-! ### building a view through the builder API (hydration keys) -/

mutual
/-- what the harness builds with `tags::*`, `.attr`, `.bool_attr`, text, `View::from_dynamic`, fragments -/
inductive VSpec where
  | el (tag : Str) (attrs : List (Str × Option Str)) (boolAttrs : List (Str × Bool)) (children : VList)
  | text (s : Str)
  | dynText (s : Str)          -- `View::from_dynamic(move || string)`
  | dynView (v : VList)        -- `View::from_dynamic(move || view)`: marker, content, marker
  | fragment (v : VList)
  /-- two dynamic regions (A then B in the document) that are empty until a batch made while the view
  is built sets their flags; `ab = true`: the flag of region A is written first, so the dependents of
  B's flag (written LAST) re-run first when the batch ends and B's elements take their keys first -/
  | batch2 (ab : Bool) (a b : VList)
inductive VList where
  | nil
  | cons (v : VSpec) (rest : VList)
end

def appendSsr : SsrList → SsrList → SsrList
  | .nil, b => b
  | .cons n a, b => .cons n (appendSsr a b)

def keepSome : List (Str × Option Str) → List (Str × Str)
  | [] => []
  | (n, some v) :: rest => (n, v) :: keepSome rest
  | (_, none) :: rest => keepSome rest

mutual
/-- build with the registry counter `k` of suspense scope `s`: `create_element` takes the next key
BEFORE the children are built (the parent expression is evaluated first) -/
def build (s : Nat) : VSpec → Nat → SsrList × Nat
  | .el tag attrs battrs children, k =>
    let (cs, k') := buildList s children (k + 1)
    (.cons (.element tag (keepSome attrs) battrs cs none (some (s, k))) .nil, k')
  | .text t, k => (.cons (.textStatic t) .nil, k)
  | .dynText t, k => (.cons (.textDynamic t) .nil, k)
  | .dynView v, k =>
    let (cs, k') := buildList s v k
    (.cons .marker (.cons (.dynamic cs) (.cons .marker .nil)), k')
  | .fragment v, k => buildList s v k
  | .batch2 true a b, k =>
    -- `ab`: region B (flag written last) is built first, then region A; document order is A then B
    let (cb, k1) := buildList s b k
    let (ca, k2) := buildList s a k1
    (.cons .marker (.cons (.dynamic ca) (.cons .marker (.cons .marker (.cons (.dynamic cb) (.cons .marker .nil))))), k2)
  | .batch2 false a b, k =>
    -- `ba`: region A is built first, then region B
    let (ca, k1) := buildList s a k
    let (cb, k2) := buildList s b k1
    (.cons .marker (.cons (.dynamic ca) (.cons .marker (.cons .marker (.cons (.dynamic cb) (.cons .marker .nil))))), k2)
def buildList (s : Nat) : VList → Nat → SsrList × Nat
  | .nil, k => (.nil, k)
  | .cons v rest, k =>
    let (a, k1) := build s v k
    let (b, k2) := buildList s rest k1
    (appendSsr a b, k2)
end

/-- `render_to_string(|| view)`: fresh registry (suspense 0, element 0) -/
def renderToString (v : VList) : Except Panic Str := renderList (buildList 0 v 0).1

end SycVerif.Ssr
