/-
Model of `map_keyed` and `map_indexed` (packages/sycamore-reactive/src/iter.rs): the `update`
closure, phase by phase. `map_fn` is abstracted to "return a fresh call id" (so that every output
says which call produced it) and every item scope is named by the call that ran inside it.
No imports: part of the native driver.
-/
namespace SycVerif.ListMap

structure Item where
  key : Nat
  payload : Nat
  deriving DecidableEq, Repr

inductive Ev where
  | create (call : Nat) (item : Item)     -- `create_child_scope(|| map_fn(item))`, result = `call`
  | dispose (tag : Nat)                   -- the scope created by call `tag` is disposed (its cleanups run)
  deriving DecidableEq, Repr

inductive Panic where
  | unwrapNone | index | debugAssert
  deriving DecidableEq, Repr

/-- the captured state of the `update` closure -/
structure KState where
  items : List Item
  mapped : List Nat
  disposers : List (Option Nat)
  next : Nat                              -- next call id
  deriving Repr

def KState.init : KState := ⟨[], [], [], 0⟩

/-- `HashMap<K, usize>` -/
abbrev IdxMap := List (Nat × Nat)
def IdxMap.get (m : IdxMap) (k : Nat) : Option Nat := (m.find? (·.1 == k)).map (·.2)
def IdxMap.insert (m : IdxMap) (k v : Nat) : IdxMap :=
  if m.any (·.1 == k) then m.map (fun p => if p.1 == k then (k, v) else p) else m ++ [(k, v)]

/-- `for dis in mem::take(&mut disposers) { dis.unwrap().dispose() }` -/
def disposeAll : List (Option Nat) → List Ev → Except Panic (List Ev)
  | [], evs => .ok evs
  | none :: _, _ => .error .unwrapNone
  | some t :: rest, evs => disposeAll rest (evs ++ [.dispose t])

/-- fast path "new create": one scope + one `map_fn` call per item, in order -/
def createAll : List Item → Nat → List Nat → List (Option Nat) → List Ev → (Nat × List Nat × List (Option Nat) × List Ev)
  | [], next, mapped, disp, evs => (next, mapped, disp, evs)
  | it :: rest, next, mapped, disp, evs =>
    createAll rest (next + 1) (mapped ++ [next]) (disp ++ [some next]) (evs ++ [.create next it])

/-- `items.iter().zip(new).position(|(a, b)| a != b).unwrap_or(min_len)` -/
def commonPrefix : List Item → List Item → Nat
  | a :: as, b :: bs => if a = b then commonPrefix as bs + 1 else 0
  | _, _ => 0

structure Work where
  mappedTmp : List (Option Nat)
  disposersTmp : List (Option Nat)
  disposers : List (Option Nat)

/-- the suffix loop; fuel = `items.length` -/
def suffixLoop (items new : List Item) (mapped : List Nat) (start : Nat) :
    Nat → Nat → Nat → Work → Except Panic (Nat × Nat × Work)
  | 0, e, ne, w => .ok (e, ne, w)
  | fuel + 1, e, ne, w =>
    if e > start ∧ ne > start ∧ items[e - 1]? = new[ne - 1]? ∧ (items[e - 1]?).isSome then
      let e := e - 1
      let ne := ne - 1
      match mapped[e]?, w.disposers[e]? with
      | some m, some d =>
        suffixLoop items new mapped start fuel e ne
          { mappedTmp := w.mappedTmp.set ne (some m), disposersTmp := w.disposersTmp.set ne d,
            disposers := w.disposers.set e none }
      | _, _ => .error .index
    else .ok (e, ne, w)

/-- step 0: scan `j` from `new_end - 1` down to `start`; `js` is that descending list -/
def buildIndices (new : List Item) (start : Nat) : List Nat → IdxMap → List (Option Nat) → Except Panic (IdxMap × List (Option Nat))
  | [], m, nx => .ok (m, nx)
  | j :: js, m, nx =>
    match new[j]? with
    | none => .error .index
    | some it =>
      let i := m.get it.key
      buildIndices new start js (m.insert it.key j) (nx.set (j - start) i)

/-- step 1: old items `start..end` -/
def moveLoop (items : List Item) (mapped : List Nat) (start : Nat) :
    List Nat → IdxMap → List (Option Nat) → Work → List Ev → Except Panic (IdxMap × Work × List Ev)
  | [], m, _, w, evs => .ok (m, w, evs)
  | i :: is, m, nx, w, evs =>
    match items[i]? with
    | none => .error .index
    | some it =>
      match m.get it.key with
      | some j =>
        match mapped[i]?, w.disposers[i]? with
        | some mv, some d =>
          let w := { w with mappedTmp := w.mappedTmp.set j (some mv), disposersTmp := w.disposersTmp.set j d,
                            disposers := w.disposers.set i none }
          let m := match (nx[j - start]?).join with
            | some j' => m.insert it.key j'
            | none => m
          if j < w.mappedTmp.length then moveLoop items mapped start is m nx w evs else .error .index
        | _, _ => .error .index
      | none =>
        match (w.disposers[i]?) with
        | some (some t) => moveLoop items mapped start is m nx { w with disposers := w.disposers.set i none } (evs ++ [.dispose t])
        | some none => .error .unwrapNone
        | none => .error .index

/-- step 2: `for j in start..new_items.len()` -/
def fillLoop (new : List Item) : List Nat → Nat → List Nat → Work → List Ev →
    Except Panic (Nat × List Nat × Work × List Ev)
  | [], next, mapped, w, evs => .ok (next, mapped, w, evs)
  | j :: js, next, mapped, w, evs =>
    match (w.mappedTmp[j]?).join with
    | some mv =>
      let d := (w.disposersTmp[j]?).join
      let w' := { w with disposersTmp := w.disposersTmp.set j none }
      if j ≥ mapped.length then
        fillLoop new js next (mapped ++ [mv]) { w' with disposers := w'.disposers ++ [d] } evs
      else
        fillLoop new js next (mapped.set j mv) { w' with disposers := w'.disposers.set j d } evs
    | none =>
      match new[j]? with
      | none => .error .index
      | some it =>
        let evs := evs ++ [.create next it]
        if mapped.length > j then
          fillLoop new js (next + 1) (mapped.set j next) { w with disposers := w.disposers.set j (some next) } evs
        else
          fillLoop new js (next + 1) (mapped ++ [next]) { w with disposers := w.disposers ++ [some next] } evs

/-- one run of the `update` closure of `map_keyed` -/
def mapKeyedStep (s : KState) (new : List Item) : Except Panic (KState × List Ev) :=
  if new.isEmpty then
    match disposeAll s.disposers [] with
    | .error e => .error e
    | .ok evs => .ok ({ s with items := new, mapped := [], disposers := [] }, evs)
  else if s.items.isEmpty then
    let (next, mapped, disp, evs) := createAll new s.next s.mapped s.disposers []
    .ok ({ items := new, mapped := mapped.take new.length, disposers := disp.take new.length, next := next }, evs)
  else
    let start := commonPrefix s.items new
    let w0 : Work := ⟨List.replicate new.length none, List.replicate new.length none, s.disposers⟩
    match suffixLoop s.items new s.mapped start s.items.length s.items.length new.length w0 with
    | .error e => .error e
    | .ok (e, ne, w) =>
      -- `debug_assert!(… "end and new_end are the last indexes where items[end - 1] != new_items[new_end - 1]")`
      -- (checks run with debug assertions on; it can only fail when an item occurs twice in a list)
      if e != 0 && ne != 0 && !((e == s.items.length && ne == new.length) || s.items[e - 1]? != new[ne - 1]?) then
        .error .debugAssert else
      let js := (List.range (ne - start)).reverse.map (· + start)
      match buildIndices new start js [] (List.replicate (ne - start) none) with
      | .error e => .error e
      | .ok (m, nx) =>
        match moveLoop s.items s.mapped start ((List.range (e - start)).map (· + start)) m nx w [] with
        | .error e => .error e
        | .ok (_, w, evs) =>
          match fillLoop new ((List.range (new.length - start)).map (· + start)) s.next s.mapped w evs with
          | .error e => .error e
          | .ok (next, mapped, w, evs) =>
            .ok ({ items := new, mapped := mapped.take new.length,
                   disposers := w.disposers.take new.length, next := next }, evs)

/-! ### map_indexed -/

structure IState where
  items : List Item
  mapped : List Nat
  disposers : List Nat
  next : Nat
  deriving Repr

def IState.init : IState := ⟨[], [], [], 0⟩

def indexedLoop (items : List Item) : List Item → Nat → Nat → List Nat → List Nat → List Ev →
    Except Panic (Nat × List Nat × List Nat × List Ev)
  | [], _, next, mapped, disp, evs => .ok (next, mapped, disp, evs)
  | it :: rest, i, next, mapped, disp, evs =>
    match items[i]? with
    | none =>
      indexedLoop items rest (i + 1) (next + 1) (mapped ++ [next]) (disp ++ [next]) (evs ++ [.create next it])
    | some old =>
      if old ≠ it then
        match disp[i]? with
        | none => .error .index
        | some prev =>
          if i < mapped.length then
            indexedLoop items rest (i + 1) (next + 1) (mapped.set i next) (disp.set i next)
              (evs ++ [.create next it, .dispose prev])
          else .error .index
      else indexedLoop items rest (i + 1) next mapped disp evs

/-- `for _ in new.len()..items.len() { disposers.pop().unwrap().dispose() }` -/
def popLoop : Nat → List Nat → List Ev → Except Panic (List Nat × List Ev)
  | 0, disp, evs => .ok (disp, evs)
  | n + 1, disp, evs =>
    match disp.getLast? with
    | none => .error .unwrapNone
    | some t => popLoop n disp.dropLast (evs ++ [.dispose t])

def mapIndexedStep (s : IState) (new : List Item) : Except Panic (IState × List Ev) :=
  if new.isEmpty then
    .ok ({ s with items := [], mapped := [], disposers := [] }, s.disposers.map .dispose)
  else
    match indexedLoop s.items new 0 s.next s.mapped s.disposers [] with
    | .error e => .error e
    | .ok (next, mapped, disp, evs) =>
      match popLoop (s.items.length - new.length) disp evs with
      | .error e => .error e
      | .ok (disp, evs) =>
        .ok ({ items := new, mapped := mapped.take new.length, disposers := disp, next := next }, evs)

end SycVerif.ListMap
