import SycVerif.Props.C17
import SycVerif.Props.C19
import SycVerif.Props.C19Easing
import SycVerif.Driver.Main
import SycVerif.Props.C18
import SycVerif.Props.C01
import SycVerif.Props.C16
import SycVerif.Props.ReactiveBasic
