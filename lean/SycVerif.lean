import SycVerif.Model.Route
