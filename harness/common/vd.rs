//! View descriptions shared by the client-rendering engine (harness/dom) and the SSR generator for the
//! hydration engine (harness/native): the same `build` runs against whichever back end is compiled in.
use crate::util::*;
use sycamore::prelude::*;
use sycamore::web::{custom_element, GlobalAttributes, GlobalProps, NoHydrate, NoSsr, Show, ShowProps};

#[derive(Clone, Debug)]
pub enum AttrV {
    Static(String),
    Dyn(usize),
    DynBool(usize),
    /// like `Dyn` / `DynBool`, but the attribute value is a closure that RETURNS a signal (a derived
    /// `MaybeDyn` that yields `MaybeDyn::Signal`), kept in step with signal `g` by an effect
    DynVia(usize),
    DynBoolVia(usize),
}
#[derive(Clone, Debug)]
pub enum VD {
    El(String, Vec<(String, AttrV)>, Vec<VD>),
    Text(String),
    DText(usize),
    DView(usize, Vec<Vec<VD>>),
    /// a dynamic region whose closure reads NO signal: the alternative is chosen once, from the initial
    /// value of a signal that the case never writes (the model treats it as a `dview` on that signal)
    DView0(usize, Vec<Vec<VD>>),
    Show(usize, Vec<VD>),
    Frag(Vec<VD>),
    /// `NoHydrate { children }`: rendered by the server without hydration keys, skipped by the hydrating client
    NoHydrate(Vec<VD>),
    /// `Keyed(list = LISTS[sig % 6], key = identity, view = li { "k<key>" })`
    Keyed(usize),
    /// `NoSsr { children }`: a `<no-ssr>` placeholder on the server, the children on the client (after mount)
    NoSsr(Vec<VD>),
    /// no node at all: `on_cleanup(move || sig.set(val))` registered in the scope the view is built in (generated at
    /// the top level only, so it runs when the render scope / the root is torn down — never while the case observes)
    OnCleanup(usize, u32),
    /// no node at all: `sig.set(val)` executed WHILE the view is being built (a component further down publishing
    /// state that something further up displays). Generated at the top level only, and only for signals that are
    /// displayed by dynamic texts and attributes (which are patched in place, on the server too)
    SetNow(usize, u32),
    /// a dynamic child whose closure returns `&'static str` ("even" / "odd"): NOT the `String` specialisation — a
    /// marker-delimited dynamic view that holds one text node, on the server too
    DStr(usize),
    /// children that are built FIRST (in hydration mode: their elements take keys) and then placed inside an element that a
    /// `NoHydrate` region creates (a component that evaluates its children and wraps them in a static frame): the frame has
    /// no key and is skipped by the hydrating client, the children are adopted and stay reactive
    PreNH(String, Vec<VD>),
    /// site number k of `mx_sites` over signal g: a piece of view written with the `view!` MACRO (compiled into the
    /// harness) that is equivalent to the builder-made `mx_equiv(k, g)`; everything but `build` works on the equivalent
    Mx(usize, usize),
}

/// the builder-made view that macro site k over signal g is equivalent to
pub fn mx_equiv(k: usize, g: usize) -> VD {
    match k % MX_SITES {
        0 => VD::El("p".into(), vec![], vec![VD::DStr(g)]),
        1 => VD::El("p".into(), vec![], vec![mx_text(g)]),
        2 => VD::El("span".into(), vec![], vec![mx_text(g)]),
        3 => VD::DStr(g),
        4 => VD::El("div".into(), vec![("title".into(), AttrV::Dyn(g))], vec![]),
        5 => VD::El("span".into(), vec![], vec![VD::DStr(g)]),
        6 => VD::El("div".into(), vec![("hidden".into(), AttrV::DynBool(g))], vec![VD::Text("x".into()), mx_text(g)]),
        // raw-text / escapable-raw-text parents: an interpolation is what it is whatever element is around it
        7 => VD::El("title".into(), vec![], vec![mx_text(g)]),
        _ => VD::El("style".into(), vec![], vec![VD::Text("p".into()), mx_text(g)]),
    }
}
/// `(expr)` with a `String` value inside `view!` is NOT the text specialisation of `View::from_dynamic` (the macro converts
/// the value into a `View` inside the closure): an ordinary dynamic region that holds one text node, re-created by every
/// run. The sites show `dtext_str(value % 8)`, so the region is a `dview` over eight texts
fn mx_text(g: usize) -> VD {
    VD::DView(g, (0..8).map(|i| vec![VD::Text(dtext_str(i))]).collect())
}
pub const MX_SITES: usize = 9;
const PARITY: [&str; 2] = ["even", "odd"];
fn mx_attr(v: u32) -> Option<String> { if v % 3 == 0 { None } else { Some(v.to_string()) } }
/// a wrapper that forwards an `expr` fragment into `view!` (the proc-macro receives it as an invisible group)
macro_rules! mx_fwd { ($e:expr) => { view! { span { ($e) } } }; }
fn mx_build(k: usize, s: Signal<u32>) -> View {
    match k % MX_SITES {
        0 => view! { p { (PARITY[(s.get() % 2) as usize]) } },
        1 => view! { p { (dtext_str(s.get() % 8)) } },
        2 => mx_fwd!(dtext_str(s.get() % 8)),
        3 => view! { (PARITY[(s.get() % 2) as usize]) },
        4 => view! { div(title=mx_attr(s.get())) },
        5 => mx_fwd!(PARITY[(s.get() % 2) as usize]),
        6 => view! { div(hidden=s.get() % 2 == 1) { "x" (dtext_str(s.get() % 8)) } },
        7 => view! { title { (dtext_str(s.get() % 8)) } },
        _ => view! { style { "p" (dtext_str(s.get() % 8)) } },
    }
}

pub const KEYED_LISTS: &[&[u32]] = &[&[], &[1], &[1, 2], &[2, 1], &[1, 2, 3], &[3, 1]];
pub fn keyed_list(v: u32) -> Vec<u32> {
    KEYED_LISTS[v as usize % KEYED_LISTS.len()].to_vec()
}

pub fn dtext_str(v: u32) -> String {
    // empty for multiples of four; markup metacharacters for v = 7 (mod 8): `7&<`
    if v % 4 == 0 { String::new() } else if v % 8 == 7 { format!("{v}&<") } else { v.to_string() }
}

/// the store once the view has been built: top-level `setnow` writes applied in document order
pub fn store_after_build(vds: &[VD], store: &[u32]) -> Vec<u32> {
    let mut s = store.to_vec();
    for v in vds { if let VD::SetNow(g, x) = v { if *g < s.len() { s[*g] = *x; } } }
    s
}

pub fn leak(s: &str) -> &'static str {
    Box::leak(s.to_string().into_boxed_str())
}

pub fn sx(v: &VD) -> String {
    let l = |c: &Vec<VD>| c.iter().map(|c| format!(" {}", sx(c))).collect::<String>();
    match v {
        VD::El(tag, attrs, cs) => format!(
            "(el {} (A{}) (C{}))",
            enc(tag),
            attrs.iter().map(|(n, a)| format!(" ({} {})", enc(n), match a { AttrV::Static(s) => format!("(s {})", enc(s)), AttrV::Dyn(g) => format!("(d {g})"), AttrV::DynBool(g) => format!("(b {g})"), AttrV::DynVia(g) => format!("(D {g})"), AttrV::DynBoolVia(g) => format!("(B {g})") })).collect::<String>(),
            l(cs)
        ),
        VD::Text(s) => format!("(text {})", enc(s)),
        VD::DText(g) => format!("(dtext {g})"),
        VD::DView(g, alts) => format!("(dview {g}{})", alts.iter().map(|a| format!(" (alt{})", l(a))).collect::<String>()),
        VD::DView0(g, alts) => format!("(dview0 {g}{})", alts.iter().map(|a| format!(" (alt{})", l(a))).collect::<String>()),
        VD::Show(g, cs) => format!("(show {g}{})", l(cs)),
        VD::Frag(cs) => format!("(frag{})", l(cs)),
        VD::NoHydrate(cs) => format!("(nohydrate{})", l(cs)),
        VD::PreNH(tag, cs) => format!("(prenh {}{})", enc(tag), l(cs)),
        VD::Keyed(g) => format!("(keyed {g})"),
        VD::NoSsr(cs) => format!("(nossr{})", l(cs)),
        VD::OnCleanup(g, v) => format!("(oncleanup {g} {v})"),
        VD::SetNow(g, v) => format!("(setnow {g} {v})"),
        VD::DStr(g) => format!("(dstr {g})"),
        VD::Mx(k, g) => format!("(mx {k} {g})"),
    }
}

#[derive(Debug)]
pub enum Sx { A(String), L(Vec<Sx>) }
pub fn sx_parse(s: &str) -> Option<Sx> {
    let toks: Vec<String> = s.replace('(', " ( ").replace(')', " ) ").split_whitespace().map(|x| x.to_string()).collect();
    fn go(t: &[String], i: &mut usize) -> Option<Sx> {
        let tok = t.get(*i)?;
        *i += 1;
        if tok == "(" {
            let mut v = vec![];
            while t.get(*i)? != ")" { v.push(go(t, i)?); }
            *i += 1;
            Some(Sx::L(v))
        } else if tok == ")" { None } else { Some(Sx::A(tok.clone())) }
    }
    let mut i = 0;
    let r = go(&toks, &mut i)?;
    if i == toks.len() { Some(r) } else { None }
}
fn dec(s: &Sx) -> Option<String> {
    let Sx::A(a) = s else { return None };
    if a == "e" { return Some(String::new()); }
    a.split('.').map(|n| n.parse::<u32>().ok().and_then(char::from_u32)).collect()
}
fn num(s: &Sx) -> Option<usize> { if let Sx::A(a) = s { a.parse().ok() } else { None } }
pub fn rd(s: &Sx) -> Option<VD> {
    let Sx::L(l) = s else { return None };
    let Sx::A(h) = l.first()? else { return None };
    Some(match h.as_str() {
        "el" => {
            let Sx::L(a) = &l[2] else { return None };
            let Sx::L(c) = &l[3] else { return None };
            let attrs = a[1..].iter().map(|p| { let Sx::L(p) = p else { return None }; let Sx::L(v) = &p[1] else { return None }; let Sx::A(k) = &v[0] else { return None };
                Some((dec(&p[0])?, match k.as_str() { "s" => AttrV::Static(dec(&v[1])?), "d" => AttrV::Dyn(num(&v[1])?), "D" => AttrV::DynVia(num(&v[1])?), "B" => AttrV::DynBoolVia(num(&v[1])?), _ => AttrV::DynBool(num(&v[1])?) })) }).collect::<Option<_>>()?;
            VD::El(dec(&l[1])?, attrs, c[1..].iter().map(rd).collect::<Option<_>>()?)
        }
        "text" => VD::Text(dec(&l[1])?),
        "dtext" => VD::DText(num(&l[1])?),
        "dview" => VD::DView(num(&l[1])?, l[2..].iter().map(|a| { let Sx::L(a) = a else { return None }; a[1..].iter().map(rd).collect::<Option<Vec<_>>>() }).collect::<Option<_>>()?),
        "dview0" => VD::DView0(num(&l[1])?, l[2..].iter().map(|a| { let Sx::L(a) = a else { return None }; a[1..].iter().map(rd).collect::<Option<Vec<_>>>() }).collect::<Option<_>>()?),
        "show" => VD::Show(num(&l[1])?, l[2..].iter().map(rd).collect::<Option<_>>()?),
        "frag" => VD::Frag(l[1..].iter().map(rd).collect::<Option<_>>()?),
        "keyed" => VD::Keyed(num(&l[1])?),
        "oncleanup" => VD::OnCleanup(num(&l[1])?, num(&l[2])? as u32),
        "setnow" => VD::SetNow(num(&l[1])?, num(&l[2])? as u32),
        "dstr" => VD::DStr(num(&l[1])?),
        "mx" => VD::Mx(num(&l[1])?, num(&l[2])?),
        "nossr" => VD::NoSsr(l[1..].iter().map(rd).collect::<Option<_>>()?),
        "nohydrate" => VD::NoHydrate(l[1..].iter().map(rd).collect::<Option<_>>()?),
        "prenh" => VD::PreNH(dec(&l[1])?, l[2..].iter().map(rd).collect::<Option<_>>()?),
        _ => return None,
    })
}

/// build the real view
pub fn build(v: &VD, sigs: &[Signal<u32>]) -> View {
    match v {
        VD::El(tag, attrs, cs) => {
            let mut e = custom_element(leak(tag));
            for (n, a) in attrs {
                match a {
                    AttrV::Static(s) => e = e.attr(leak(n), s.clone()),
                    AttrV::Dyn(g) => { let s = sigs[*g]; e = e.attr(leak(n), move || { let v = s.get(); if v % 3 == 0 { None } else { Some(v.to_string()) } }); }
                    AttrV::DynBool(g) => { let s = sigs[*g]; e = e.bool_attr(leak(n), move || s.get() % 2 == 1); }
                    AttrV::DynVia(g) => {
                        let s = sigs[*g];
                        let f = |v: u32| -> Option<std::borrow::Cow<'static, str>> { if v % 3 == 0 { None } else { Some(v.to_string().into()) } };
                        let comp = create_signal(f(s.get_untracked()));
                        create_effect(move || comp.set(f(s.get())));
                        e = e.attr(leak(n), move || comp);
                    }
                    AttrV::DynBoolVia(g) => {
                        let s = sigs[*g];
                        let comp = create_signal(s.get_untracked() % 2 == 1);
                        create_effect(move || comp.set(s.get() % 2 == 1));
                        e = e.bool_attr(leak(n), move || comp);
                    }
                }
            }
            if cs.is_empty() { e.into() } else { e.children(cs.iter().map(|c| build(c, sigs)).collect::<Vec<View>>()).into() }
        }
        VD::Text(s) => s.clone().into(),
        // empty for multiples of four: empty dynamic texts are a corner of hydration
        VD::DText(g) => { let s = sigs[*g]; View::from_dynamic(move || dtext_str(s.get())) }
        VD::DView(g, alts) => {
            let (s, alts, sigs) = (sigs[*g], alts.clone(), sigs.to_vec());
            View::from_dynamic(move || {
                let v = s.get() as usize;
                if alts.is_empty() { View::new() } else { View::from(alts[v % alts.len()].iter().map(|c| build(c, &sigs)).collect::<Vec<View>>()) }
            })
        }
        VD::DView0(g, alts) => {
            let (v, alts, sigs) = (sigs[*g].get_untracked() as usize, alts.clone(), sigs.to_vec());
            View::from_dynamic(move || {
                if alts.is_empty() { View::new() } else { View::from(alts[v % alts.len()].iter().map(|c| build(c, &sigs)).collect::<Vec<View>>()) }
            })
        }
        VD::Show(g, cs) => {
            let s = sigs[*g];
            let (cs, sigs) = (cs.clone(), sigs.to_vec());
            sycamore::rt::component_scope(move || Show(ShowProps::builder().when(move || s.get() % 2 == 1).children(Children::new(move || View::from(cs.iter().map(|c| build(c, &sigs)).collect::<Vec<View>>()))).build()))
        }
        VD::Frag(cs) => View::from(cs.iter().map(|c| build(c, sigs)).collect::<Vec<View>>()),
        VD::OnCleanup(g, v) => {
            let (s, v) = (sigs[*g], *v);
            on_cleanup(move || s.set(v));
            View::new()
        }
        VD::SetNow(g, v) => {
            sigs[*g].set(*v);
            View::new()
        }
        VD::DStr(g) => { let s = sigs[*g]; View::from_dynamic(move || -> &'static str { if s.get() % 2 == 0 { "even" } else { "odd" } }) }
        VD::Mx(k, g) => mx_build(*k, sigs[*g]),
        VD::NoSsr(cs) => {
            let (cs, sigs) = (cs.clone(), sigs.to_vec());
            view! { NoSsr(children=Children::new(move || View::from(cs.iter().map(|c| build(c, &sigs)).collect::<Vec<View>>()))) }
        }
        VD::Keyed(g) => {
            let s = sigs[*g];
            let list = create_memo(move || keyed_list(s.get()));
            view! { Keyed(list=list, view=|k: u32| view! { li { (format!("k{k}")) } }, key=|k| *k) }
        }
        VD::PreNH(tag, cs) => {
            let body = View::from(cs.iter().map(|c| build(c, sigs)).collect::<Vec<View>>());
            let tag = tag.clone();
            view! { NoHydrate(children=Children::new(move || custom_element(leak(&tag)).children(body).into())) }
        }
        VD::NoHydrate(cs) => {
            let (cs, sigs) = (cs.clone(), sigs.to_vec());
            view! { NoHydrate(children=Children::new(move || View::from(cs.iter().map(|c| build(c, &sigs)).collect::<Vec<View>>()))) }
        }
    }
}

/// what a `NoHydrate` subtree is after hydration: the server rendering for the initial store, never updated
pub fn freeze(v: &VD, store: &[u32]) -> VD {
    let fl = |cs: &Vec<VD>| cs.iter().map(|c| freeze(c, store)).collect::<Vec<VD>>();
    match v {
        VD::El(tag, attrs, cs) => {
            let mut a = vec![];
            for (n, x) in attrs {
                match x {
                    AttrV::Static(s) => a.push((n.clone(), AttrV::Static(s.clone()))),
                    AttrV::Dyn(g) | AttrV::DynVia(g) => { let v = store[*g]; if v % 3 != 0 { a.push((n.clone(), AttrV::Static(v.to_string()))); } }
                    AttrV::DynBool(g) | AttrV::DynBoolVia(g) => { if store[*g] % 2 == 1 { a.push((n.clone(), AttrV::Static(String::new()))); } }
                }
            }
            VD::El(tag.clone(), a, fl(cs))
        }
        VD::Text(s) => VD::Text(s.clone()),
        VD::DText(g) => VD::Text(dtext_str(store[*g])),
        VD::DStr(g) => VD::Text(if store[*g] % 2 == 0 { "even".into() } else { "odd".into() }),
        VD::Mx(k, g) => freeze(&mx_equiv(*k, *g), store),
        VD::PreNH(tag, cs) => VD::El(tag.clone(), vec![], fl(cs)),
        VD::DView(g, alts) | VD::DView0(g, alts) => if alts.is_empty() { VD::Frag(vec![]) } else { VD::Frag(fl(&alts[store[*g] as usize % alts.len()])) },
        VD::Show(g, cs) => if store[*g] % 2 == 1 { VD::Frag(fl(cs)) } else { VD::Frag(vec![]) },
        VD::Frag(cs) | VD::NoHydrate(cs) | VD::NoSsr(cs) => VD::Frag(fl(cs)),
        VD::OnCleanup(..) | VD::SetNow(..) => VD::Frag(vec![]),
        VD::Keyed(g) => VD::Frag(keyed_list(store[*g]).iter().map(|k| VD::El("li".into(), vec![], vec![VD::Text(format!("k{k}"))])).collect()),
    }
}
/// the view a hydrated document behaves like: `NoHydrate` subtrees frozen at the initial store
pub fn after_hydration(v: &VD, store0: &[u32]) -> VD {
    let al = |cs: &Vec<VD>| cs.iter().map(|c| after_hydration(c, store0)).collect::<Vec<VD>>();
    match v {
        VD::El(tag, attrs, cs) => VD::El(tag.clone(), attrs.clone(), al(cs)),
        VD::DView(g, alts) => VD::DView(*g, alts.iter().map(al).collect()),
        VD::DView0(g, alts) => VD::DView0(*g, alts.iter().map(al).collect()),
        VD::Show(g, cs) => VD::Show(*g, al(cs)),
        VD::Frag(cs) => VD::Frag(al(cs)),
        VD::NoSsr(cs) => VD::NoSsr(al(cs)),
        VD::NoHydrate(cs) => VD::Frag(cs.iter().map(|c| freeze(c, store0)).collect()),
        // the frame is static, the prebuilt children were adopted and behave like client-rendered ones
        VD::PreNH(tag, cs) => VD::El(tag.clone(), vec![], al(cs)),
        // the write happened while the view was built; the view that the document behaves like does not repeat it
        VD::SetNow(..) => VD::Frag(vec![]),
        other => other.clone(),
    }
}

const TAGS: &[&str] = &["div", "p", "span", "ul", "li", "b", "x-y"];
const ATTRS: &[&str] = &["class", "id", "data-x", "title", "hidden", "open"];

pub fn gen(rng: &mut Rng, depth: usize, nsig: usize, budget: &mut usize) -> VD {
    if *budget > 0 { *budget -= 1; }
    let leaf = depth == 0 || *budget == 0;
    // `nsig` writable signals 0..nsig-1; signal `nsig` exists too but is never written (input-less regions)
    match rng.below(if leaf { 3 } else { 12 }) {
        0 => VD::Text(["a", "b", "", "x<y", "hello"][rng.below(5)].to_string()),
        1 => VD::DText(rng.below(nsig)),
        2 => if rng.chance(1, 3) { VD::DStr(rng.below(nsig)) } else { VD::DText(rng.below(nsig)) },
        3 | 4 => {
            let n = rng.below(4); // 0..3 alternatives (empty and multi-node ones included)
            VD::DView(rng.below(nsig), (0..n).map(|_| (0..rng.below(3)).map(|_| gen(rng, depth - 1, nsig, budget)).collect()).collect())
        }
        5 => VD::Show(rng.below(nsig), (0..1 + rng.below(2)).map(|_| gen(rng, depth - 1, nsig, budget)).collect()),
        10 => {
            let n = 1 + rng.below(2);
            VD::DView0(nsig, (0..n).map(|_| (0..1 + rng.below(3)).map(|_| gen(rng, depth - 1, nsig, budget)).collect()).collect())
        }
        11 => VD::NoHydrate((0..1 + rng.below(2)).map(|_| gen(rng, depth - 1, nsig, budget)).collect()),
        6 => VD::Frag((0..rng.below(3)).map(|_| gen(rng, depth - 1, nsig, budget)).collect()),
        _ => {
            let mut names: Vec<&str> = vec![];
            let mut attrs = vec![];
            for _ in 0..rng.below(3) {
                let n = *rng.pick(ATTRS);
                if names.contains(&n) { continue; }
                names.push(n);
                attrs.push((n.to_string(), match rng.below(5) { 0 => AttrV::Static(["", "a", "b c"][rng.below(3)].to_string()), 1 => AttrV::Dyn(rng.below(nsig)), 2 => AttrV::DynBool(rng.below(nsig)), 3 => AttrV::DynVia(rng.below(nsig)), _ => AttrV::DynBoolVia(rng.below(nsig)) }));
            }
            VD::El(rng.pick(TAGS).to_string(), attrs, (0..rng.below(4)).map(|_| gen(rng, depth - 1, nsig, budget)).collect())
        }
    }
}


/// does a `NoHydrate` sit inside a region that can be re-created after hydration? (then it is mounted
/// normally later, and "frozen at the initial store" is not what the document shows any more)
pub fn nohydrate_in_dynamic(v: &VD, inside: bool) -> bool {
    match v {
        VD::El(_, _, cs) | VD::Frag(cs) | VD::NoSsr(cs) | VD::PreNH(_, cs) => cs.iter().any(|c| nohydrate_in_dynamic(c, inside)),
        VD::DView(_, alts) | VD::DView0(_, alts) => alts.iter().any(|a| a.iter().any(|c| nohydrate_in_dynamic(c, true))),
        VD::Show(_, cs) => cs.iter().any(|c| nohydrate_in_dynamic(c, true)),
        VD::NoHydrate(cs) => inside || cs.iter().any(|c| nohydrate_in_dynamic(c, inside)),
        _ => false,
    }
}
