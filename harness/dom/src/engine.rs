//! Verification engines on the DOM back end (E8): `dom` = reconcile_fragments and Keyed/Indexed.
use crate::domutil;
use crate::util::*;
use std::cell::{Cell, RefCell};
use std::collections::HashMap;
use std::rc::Rc;
use sycamore::prelude::*;
use wasm_bindgen::JsCast;
use web_sys::Node;

fn parse_l(s: &str) -> Vec<u32> {
    if s == "-" { vec![] } else { s.split(',').map(|x| x.parse().unwrap()).collect() }
}
fn show_l(l: &[u32]) -> String {
    if l.is_empty() { "-".into() } else { l.iter().map(|x| x.to_string()).collect::<Vec<_>>().join(",") }
}

/// `dom reconcile <pre> <a> <b> <post>`: names are numbers; kinds of nodes vary with the name
fn exec_reconcile(t: &[&str]) -> (String, Option<String>, bool) {
    let (pre, a, b, post) = (parse_l(t[0]), parse_l(t[1]), parse_l(t[2]), parse_l(t[3]));
    domutil::reset_document();
    let doc = web_sys::window().unwrap().document().unwrap();
    let parent = domutil::container("div");
    let mut nodes: HashMap<u32, Node> = HashMap::new();
    let mut mk = |n: u32| -> Node {
        nodes.entry(n).or_insert_with(|| match n % 3 {
            0 => { let e = doc.create_element("i").unwrap(); e.set_attribute("n", &n.to_string()).unwrap(); e.into() }
            1 => doc.create_text_node(&format!("t{n}")).into(),
            _ => doc.create_comment(&format!("c{n}")).into(),
        }).clone()
    };
    for n in pre.iter().chain(a.iter()).chain(post.iter()) { let x = mk(*n); parent.append_child(&x).unwrap(); }
    let mut av: Vec<Node> = a.iter().map(|n| mk(*n)).collect();
    let bv: Vec<Node> = b.iter().map(|n| mk(*n)).collect();
    let ids: HashMap<u64, u32> = nodes.iter().map(|(k, v)| (domutil::id(v), *k)).collect();
    domutil::clear_mutation_log();
    let r = catch(|| sycamore::web::__verif_reconcile_fragments(&parent, &mut av, &bv));
    let kids: Vec<u32> = domutil::children_ids(&parent).iter().map(|i| *ids.get(i).unwrap_or(&9999)).collect();
    let obs = match &r {
        Ok(()) => format!("ok {}", show_l(&kids)),
        Err(m) => format!("panic={}", if m.contains("NotFound") || m.contains("not a child") { "notfound" } else if m.contains("index out of") || m.contains("out of range") { "index" } else { "other" }),
    };
    // oracle, directly from the statement
    let mut want = pre.clone(); want.extend(&b); want.extend(&post);
    let pre_ok = a.is_empty() == false;
    let mut verdict = None;
    if pre_ok {
        match &r {
            Err(m) => verdict = Some(format!("[dom-reconcile-panic] reconcile_fragments panicked: {m}")),
            Ok(()) => {
                if kids != want { verdict = Some(format!("[dom-reconcile] children are {kids:?}, expected {want:?}")); }
                for x in &a { if !b.contains(x) && nodes[x].parent_node().is_some() { verdict.get_or_insert(format!("[dom-reconcile] removed node {x} still has a parent")); } }
                // nothing outside the region is moved: no mutation may have a sibling as its subject
                for m in domutil::mutation_log() {
                    let subj = match &m { domutil::Mutation::InsertBefore { child, .. } | domutil::Mutation::AppendChild { child, .. } | domutil::Mutation::RemoveChild { child, .. } => Some(*child), domutil::Mutation::ReplaceChild { new, .. } => Some(*new), _ => None };
                    if let Some(s) = subj { if let Some(n) = ids.get(&s) { if pre.contains(n) || post.contains(n) { verdict.get_or_insert(format!("[dom-reconcile] sibling {n} outside the region was moved: {m:?}")); } } }
                }
            }
        }
    }
    (obs, verdict, !a.is_empty() && !b.is_empty() && a != b)
}

type Item = (u32, u32);
fn parse_lists(s: &str) -> Vec<Vec<Item>> {
    s.split(';').map(|l| if l == "-" || l.is_empty() { vec![] } else { l.split(',').map(|t| { let (k, p) = t.split_once('.').unwrap(); (k.parse().unwrap(), p.parse().unwrap()) }).collect() }).collect()
}

/// `dom keyed|indexed <l0;l1;…>`: mount `div { "pre" ul-less region … }` and observe the parent's children
/// a key whose `Hash` is coarser than its `Eq` (allowed by the `Hash` contract): only the parity is hashed
#[derive(Clone, Copy, PartialEq, Eq, Debug)]
struct CoarseKey(u32);
impl std::hash::Hash for CoarseKey {
    fn hash<H: std::hash::Hasher>(&self, state: &mut H) { state.write_u32(self.0 % 2) }
}
thread_local! { static COARSE: Cell<bool> = const { Cell::new(false) }; }

fn exec_list(keyed: bool, lists: &[Vec<Item>]) -> (String, Option<String>, bool) {
    domutil::reset_document();
    let container = domutil::container("main");
    let calls = Rc::new(Cell::new(0u32));
    let mut out = vec![];
    let mut verdict: Option<String> = None;
    let list_sig: Rc<RefCell<Option<Signal<Vec<Item>>>>> = Default::default();
    let first = lists[0].clone();
    let (c2, ls2, cont2) = (calls.clone(), list_sig.clone(), container.clone());
    let root = create_root(move || {
        let sig = create_signal(first);
        *ls2.borrow_mut() = Some(sig);
        let c3 = c2.clone();
        let view_fn = move |it: Item| {
            let id = c3.get();
            c3.set(id + 1);
            view! { li(data-c=id.to_string(), data-k=it.0.to_string()) { (it.1.to_string()) } }
        };
        let v: View = if keyed && COARSE.with(|c| c.get()) {
            view! { div { "pre" Keyed(list=sig, view=view_fn, key=|it: &Item| CoarseKey(it.0)) "post" } }
        } else if keyed {
            view! { div { "pre" Keyed(list=sig, view=view_fn, key=|it: &Item| it.0) "post" } }
        } else {
            view! { div { "pre" Indexed(list=sig, view=view_fn) "post" } }
        };
        sycamore::web::render_in_scope(move || v, cont2.unchecked_ref());
    });
    domutil::run_microtasks();
    let parent: Node = container.first_child().expect("div");
    let mut first_seen: HashMap<u32, u64> = HashMap::new();
    let observe = |first_seen: &mut HashMap<u32, u64>, verdict: &mut Option<String>| -> String {
        let mut parts = vec![];
        let mut n = parent.first_child();
        while let Some(x) = n {
            let part = match x.node_type() {
                1 => {
                    let e: &web_sys::Element = x.unchecked_ref();
                    let c: u32 = e.get_attribute("data-c").unwrap().parse().unwrap();
                    let id = domutil::id(&x);
                    let f = *first_seen.entry(c).or_insert(id);
                    if f != id { verdict.get_or_insert(format!("[dom-identity] the item created by call {c} is now a different DOM node")); }
                    format!("{}#{}={}", e.get_attribute("data-k").unwrap(), c, x.text_content().unwrap_or_default())
                }
                3 => format!("T{}", x.text_content().unwrap_or_default()),
                _ => "M".to_string(),
            };
            parts.push(part);
            n = x.next_sibling();
        }
        parts.join(",")
    };
    out.push(observe(&mut first_seen, &mut verdict));
    let sig = list_sig.borrow().unwrap();
    let mut serving: HashMap<u32, u32> = HashMap::new();
    for (step, new) in lists.iter().enumerate() {
        if step > 0 {
            let new2 = new.clone();
            if let Err(m) = catch(|| sig.set(new2)) {
                out.push("panic".into());
                verdict.get_or_insert(format!("[dom-list-panic] update {step} panicked: {m}"));
                break;
            }
            out.push(observe(&mut first_seen, &mut verdict));
        }
        // oracle: region between the markers == items of the new list in order; retained keys keep their node
        let obs = out.last().unwrap().clone();
        let parts: Vec<&str> = obs.split(',').collect();
        let ok_frame = parts.first() == Some(&"Tpre") && parts.get(1) == Some(&"M") && parts.last() == Some(&"Tpost") && parts.get(parts.len().saturating_sub(2)) == Some(&"M");
        if !ok_frame { verdict.get_or_insert(format!("[dom-list] update {step}: siblings/markers around the list are not intact: {obs}")); continue; }
        let items: Vec<(u32, u32)> = parts[2..parts.len() - 2].iter().map(|p| { let (k, r) = p.split_once('#').unwrap(); let (c, _) = r.split_once('=').unwrap(); (k.parse().unwrap(), c.parse().unwrap()) }).collect();
        let keys: Vec<u32> = items.iter().map(|i| i.0).collect();
        let want: Vec<u32> = new.iter().map(|i| i.0).collect();
        if keys != want { verdict.get_or_insert(format!("[dom-list] update {step}: rendered keys {keys:?}, list has {want:?}")); }
        let uniq = { let mut k = want.clone(); k.sort(); k.dedup(); k.len() == want.len() };
        if keyed && uniq {
            for (k, c) in &items {
                if let Some(pc) = serving.get(k) { if pc != c { verdict.get_or_insert(format!("[dom-list] update {step}: key {k} was retained but is rendered by a new node (call {c}, was {pc})")); } }
            }
            serving = items.iter().cloned().collect();
        } else { serving.clear(); }
    }
    root.dispose();
    (out.join(" | "), verdict, lists.len() > 1)
}

/// `dom keyedsel|indexedsel <ev;ev;…>`: the list prop is a DERIVED value that hands back one of two list signals
/// (`move || if sel.get() { y } else { x }`); events `x<list>` / `y<list>` write a list signal, `s0` / `s1` select.
/// Same observations and oracle as `keyed|indexed` over the chain of DISPLAYED lists.
fn exec_list_sel(keyed: bool, evs: &[&str]) -> (String, Option<String>, bool) {
    // the displayed list after the mount and after every event
    let (mut lx, mut ly, mut sl): (Vec<Item>, Vec<Item>, bool) = (vec![], vec![], false);
    let mut lists: Vec<Vec<Item>> = vec![vec![]];
    for e in evs {
        if let Some(l) = e.strip_prefix('x') { lx = parse_lists(l).remove(0); }
        else if let Some(l) = e.strip_prefix('y') { ly = parse_lists(l).remove(0); }
        else { sl = *e == "s1"; }
        lists.push(if sl { ly.clone() } else { lx.clone() });
    }
    let lists = &lists[..];
    let evs_owned: Vec<String> = evs.iter().map(|e| e.to_string()).collect();
    domutil::reset_document();
    let container = domutil::container("main");
    let calls = Rc::new(Cell::new(0u32));
    let mut out = vec![];
    let mut verdict: Option<String> = None;
    let list_sig: Rc<RefCell<Option<(Signal<Vec<Item>>, Signal<Vec<Item>>, Signal<bool>)>>> = Default::default();
    let first = lists[0].clone();
    let (c2, ls2, cont2) = (calls.clone(), list_sig.clone(), container.clone());
    let root = create_root(move || {
        let _ = &first;
        let (sx, sy, ssel) = (create_signal(Vec::<Item>::new()), create_signal(Vec::<Item>::new()), create_signal(false));
        *ls2.borrow_mut() = Some((sx, sy, ssel));
        let sig = move || if ssel.get() { sy } else { sx };
        let c3 = c2.clone();
        let view_fn = move |it: Item| {
            let id = c3.get();
            c3.set(id + 1);
            view! { li(data-c=id.to_string(), data-k=it.0.to_string()) { (it.1.to_string()) } }
        };
        let v: View = if keyed {
            view! { div { "pre" Keyed(list=sig, view=view_fn, key=|it: &Item| it.0) "post" } }
        } else {
            view! { div { "pre" Indexed(list=sig, view=view_fn) "post" } }
        };
        sycamore::web::render_in_scope(move || v, cont2.unchecked_ref());
    });
    domutil::run_microtasks();
    let parent: Node = container.first_child().expect("div");
    let mut first_seen: HashMap<u32, u64> = HashMap::new();
    let observe = |first_seen: &mut HashMap<u32, u64>, verdict: &mut Option<String>| -> String {
        let mut parts = vec![];
        let mut n = parent.first_child();
        while let Some(x) = n {
            let part = match x.node_type() {
                1 => {
                    let e: &web_sys::Element = x.unchecked_ref();
                    let c: u32 = e.get_attribute("data-c").unwrap().parse().unwrap();
                    let id = domutil::id(&x);
                    let f = *first_seen.entry(c).or_insert(id);
                    if f != id { verdict.get_or_insert(format!("[dom-identity] the item created by call {c} is now a different DOM node")); }
                    format!("{}#{}={}", e.get_attribute("data-k").unwrap(), c, x.text_content().unwrap_or_default())
                }
                3 => format!("T{}", x.text_content().unwrap_or_default()),
                _ => "M".to_string(),
            };
            parts.push(part);
            n = x.next_sibling();
        }
        parts.join(",")
    };
    out.push(observe(&mut first_seen, &mut verdict));
    let (sx, sy, ssel) = list_sig.borrow().unwrap();
    let mut serving: HashMap<u32, u32> = HashMap::new();
    for (step, new) in lists.iter().enumerate() {
        if step > 0 {
            let e = evs_owned[step - 1].clone();
            if let Err(m) = catch(|| {
                if let Some(l) = e.strip_prefix('x') { sx.set(parse_lists(l).remove(0)); }
                else if let Some(l) = e.strip_prefix('y') { sy.set(parse_lists(l).remove(0)); }
                else { ssel.set(e == "s1"); }
            }) {
                out.push("panic".into());
                verdict.get_or_insert(format!("[dom-list-panic] update {step} panicked: {m}"));
                break;
            }
            out.push(observe(&mut first_seen, &mut verdict));
        }
        // oracle: region between the markers == items of the new list in order; retained keys keep their node
        let obs = out.last().unwrap().clone();
        let parts: Vec<&str> = obs.split(',').collect();
        let ok_frame = parts.first() == Some(&"Tpre") && parts.get(1) == Some(&"M") && parts.last() == Some(&"Tpost") && parts.get(parts.len().saturating_sub(2)) == Some(&"M");
        if !ok_frame { verdict.get_or_insert(format!("[dom-list] update {step}: siblings/markers around the list are not intact: {obs}")); continue; }
        let items: Vec<(u32, u32)> = parts[2..parts.len() - 2].iter().map(|p| { let (k, r) = p.split_once('#').unwrap(); let (c, _) = r.split_once('=').unwrap(); (k.parse().unwrap(), c.parse().unwrap()) }).collect();
        let keys: Vec<u32> = items.iter().map(|i| i.0).collect();
        let want: Vec<u32> = new.iter().map(|i| i.0).collect();
        if keys != want { verdict.get_or_insert(format!("[dom-list] update {step}: rendered keys {keys:?}, list has {want:?}")); }
        let uniq = { let mut k = want.clone(); k.sort(); k.dedup(); k.len() == want.len() };
        if keyed && uniq {
            for (k, c) in &items {
                if let Some(pc) = serving.get(k) { if pc != c { verdict.get_or_insert(format!("[dom-list] update {step}: key {k} was retained but is rendered by a new node (call {c}, was {pc})")); } }
            }
            serving = items.iter().cloned().collect();
        } else { serving.clear(); }
    }
    root.dispose();
    (out.join(" | "), verdict, lists.len() > 1)
}

/// `dom keyeddyn|indexeddyn <ev;ev;…>` with `ev` = `l<list>` (set the list) or `t<v>` (write the toggle):
/// every item view is a dynamic view at its top level (no wrapping element), switching on the toggle
fn exec_list_dyn(keyed: bool, evs: &[&str]) -> (String, Option<String>, bool) {
    domutil::reset_document();
    let container = domutil::container("main");
    let mut out = vec![];
    let mut verdict: Option<String> = None;
    let sigs: Rc<RefCell<Option<(Signal<Vec<Item>>, Signal<u32>)>>> = Default::default();
    let (s2, cont2) = (sigs.clone(), container.clone());
    let root = create_root(move || {
        let list = create_signal(Vec::<Item>::new());
        let toggle = create_signal(0u32);
        *s2.borrow_mut() = Some((list, toggle));
        let view_fn = move |it: Item| {
            let k = it.0.to_string();
            View::from_dynamic(move || {
                let (ka, kb) = (k.clone(), k.clone());
                // three shapes: one node, two nodes, and NOTHING (an item can be created empty and filled later)
                match toggle.get() % 3 {
                    0 => view! { li(data-k=ka) { "even" } },
                    1 => view! { b(data-k=ka) { "odd" } i(data-k=kb) },
                    _ => View::new(),
                }
            })
        };
        let v: View = if keyed {
            view! { div { "pre" Keyed(list=list, view=view_fn, key=|it: &Item| it.0) "post" } }
        } else {
            view! { div { "pre" Indexed(list=list, view=view_fn) "post" } }
        };
        sycamore::web::render_in_scope(move || v, cont2.unchecked_ref());
    });
    let parent: Node = container.first_child().expect("div");
    let (list, toggle) = sigs.borrow().unwrap();
    let mut cur_list: Vec<Item> = vec![];
    let mut cur_t = 0u32;
    for e in evs {
        let r = if let Some(l) = e.strip_prefix('l') { let l = parse_lists(l).remove(0); cur_list = l.clone(); catch(|| list.set(l)) }
                else { let v: u32 = e[1..].parse().unwrap(); cur_t = v; catch(|| toggle.set(v)) };
        if let Err(m) = r { out.push("panic".into()); verdict.get_or_insert(format!("[dom-list-panic] event {e} panicked: {m}")); break; }
        // shape of the region
        let mut parts = vec![];
        let mut n = parent.first_child();
        while let Some(x) = n {
            parts.push(match x.node_type() {
                1 => { let el: &web_sys::Element = x.unchecked_ref(); format!("{}{}", el.tag_name().to_lowercase(), el.get_attribute("data-k").unwrap_or_default()) }
                3 => format!("T{}", x.text_content().unwrap_or_default()),
                _ => "M".to_string(),
            });
            n = x.next_sibling();
        }
        let obs = parts.join(",");
        // oracle: what a fresh render of (list, toggle) looks like
        let mut want = vec!["Tpre".to_string(), "M".to_string()];
        for it in &cur_list { want.push("M".into()); match cur_t % 3 { 0 => want.push(format!("li{}", it.0)), 1 => { want.push(format!("b{}", it.0)); want.push(format!("i{}", it.0)); } _ => {} } want.push("M".into()); }
        want.push("M".into()); want.push("Tpost".into());
        let want = want.join(",");
        if obs != want { verdict.get_or_insert(format!("[dom-list-stale-item] after event {e}: the list region is `{obs}`, a fresh render of the current state gives `{want}`")); }
        out.push(obs);
    }
    let _ = catch(|| root.dispose());
    (out.join(" | "), verdict, evs.len() > 1)
}

pub fn exec(line: &str) -> (String, Option<String>, bool) {
    let t: Vec<&str> = line.split(' ').collect();
    match t[1] {
        "keyedsel" => exec_list_sel(true, &t[2].split(';').collect::<Vec<_>>()),
        "indexedsel" => exec_list_sel(false, &t[2].split(';').collect::<Vec<_>>()),
        "keyeddyn" => exec_list_dyn(true, &t[2].split(';').collect::<Vec<_>>()),
        "indexeddyn" => exec_list_dyn(false, &t[2].split(';').collect::<Vec<_>>()),
        "reconcile" => exec_reconcile(&t[2..]),
        "keyed" => exec_list(true, &parse_lists(t[2])),
        // the same with keys whose hashes collide
        "keyedc" => { COARSE.with(|c| c.set(true)); let r = exec_list(true, &parse_lists(t[2])); COARSE.with(|c| c.set(false)); r }
        "indexed" => exec_list(false, &parse_lists(t[2])),
        _ => ("bad-op".into(), None, false),
    }
}

fn perms(names: &[u32], maxlen: usize) -> Vec<Vec<u32>> {
    let mut out = vec![vec![]];
    let mut frontier: Vec<Vec<u32>> = vec![vec![]];
    for _ in 0..maxlen {
        let mut next = vec![];
        for l in &frontier { for k in names { if !l.contains(k) { let mut m = l.clone(); m.push(*k); next.push(m); } } }
        out.extend(next.iter().cloned());
        frontier = next;
    }
    out
}

pub fn generate(args: &Args) -> Vec<String> {
    let thorough = args.tier == "thorough";
    let mut rng = Rng::new(args.seed);
    let mut l = vec![];
    // exhaustive pairs of duplicate-free sequences over 5 (quick) / 6 (thorough) names up to length 4 / 5,
    // with 0-2 siblings on each side
    let names: Vec<u32> = (1..=(if thorough { 6 } else { 5 })).collect();
    let seqs = perms(&names, if thorough { 5 } else { 4 });
    let sibs: [(&str, &str); 4] = [("-", "-"), ("80", "90"), ("80,81", "-"), ("-", "90,91")];
    let mut i = 0;
    for a in &seqs {
        if a.is_empty() { continue; }
        for b in &seqs {
            let (pre, post) = sibs[i % 4];
            i += 1;
            l.push(format!("dom reconcile {pre} {} {} {post}", show_l(a), show_l(b)));
            // the way Keyed/Indexed call it: shared end marker
            if i % 3 == 0 {
                let (mut a2, mut b2) = (a.clone(), b.clone());
                a2.push(70);
                b2.push(70);
                l.push(format!("dom reconcile {pre} {} {} {post}", show_l(&a2), show_l(&b2)));
            }
        }
    }
    // items created EMPTY, filled later, then retained / moved by list updates
    for fam in ["t2;l1.0,2.0;t0;l1.0,2.0,3.0;t1;l2.0,1.0;t2;l2.0;t0", "l1.0;t5;l1.0,2.0;t3;l2.0,1.0;l1.0", "t2;l3.0;t1;l3.0,4.0;l4.0,3.0;t2;l3.0;t0;l3.0,5.0"] {
        l.push(format!("dom keyeddyn {fam}"));
        l.push(format!("dom indexeddyn {fam}"));
    }
    // the list prop as a derived value that returns one of two list signals
    for fam in ["x1.0,2.0;y3.0;s1;y3.0,4.0;x2.0,1.0;s0;x2.0", "s1;y1.0;y1.0,2.0;y2.0,1.0;s0;x5.0;s1", "x1.0;x1.0,2.0;x2.0;y2.0;s1;s0"] {
        l.push(format!("dom keyedsel {fam}"));
        l.push(format!("dom indexedsel {fam}"));
    }
    for i in 0..(if thorough { 20_000 } else { 1_500 }) {
        let n = 3 + rng.below(6);
        let evs: Vec<String> = (0..n).map(|_| match rng.below(5) {
            0 => format!("s{}", rng.below(2)),
            k => {
                let m = rng.below(5);
                let mut v: Vec<Item> = vec![];
                for _ in 0..m { let key = 1 + rng.below(6) as u32; if !v.iter().any(|x| x.0 == key) { v.push((key, rng.below(2) as u32)); } }
                format!("{}{}", if k % 2 == 0 { "x" } else { "y" }, if v.is_empty() { "-".to_string() } else { v.iter().map(|(k, p)| format!("{k}.{p}")).collect::<Vec<_>>().join(",") })
            }
        }).collect();
        l.push(format!("dom {} {}", if i % 3 == 2 { "indexedsel" } else { "keyedsel" }, evs.join(";")));
    }
    // chains of list updates through the real Keyed / Indexed components
    let n = if thorough { 60_000 } else { 4_000 };
    for i in 0..n {
        let len = 3 + rng.below(5);
        let dup = i % 9 == 8;
        let chain: Vec<String> = (0..len).map(|_| {
            let m = rng.below(6);
            let mut v: Vec<Item> = vec![];
            for _ in 0..m { let k = 1 + rng.below(6) as u32; if dup || !v.iter().any(|x| x.0 == k) { v.push((k, rng.below(2) as u32)); } }
            if v.is_empty() { "-".to_string() } else { v.iter().map(|(k, p)| format!("{k}.{p}")).collect::<Vec<_>>().join(",") }
        }).collect();
        l.push(format!("dom {} {}", if i % 3 == 2 { "indexed" } else if i % 6 == 1 && !dup { "keyedc" } else { "keyed" }, chain.join(";")));
        // the same chain with item views that are dynamic at their top level, toggled in between
        if i % 4 == 0 && !dup {
            let mut evs: Vec<String> = vec![];
            for c in &chain { evs.push(format!("l{c}")); if rng.chance(1, 2) { evs.push(format!("t{}", rng.below(6))); } }
            l.push(format!("dom {} {}", if i % 8 == 0 { "indexeddyn" } else { "keyeddyn" }, evs.join(";")));
        }
    }
    // LONG lists: a changed window (what remains after the common prefix and suffix) of every length 2..=12 (thorough 20)
    // with unchanged items around it: reversed, rotated, ends swapped, half of the keys replaced, shuffled; and back —
    // through the components and through the node reconciler itself
    let maxw = if thorough { 20 } else { 12 };
    for w in 2..=maxw {
        for (pre, suf) in [(0usize, 0usize), (2, 1)] {
            let base: Vec<u32> = (1..=(pre + w + suf) as u32).collect();
            let win = |f: &dyn Fn(&mut Vec<u32>)| -> Vec<u32> {
                let mut mid: Vec<u32> = base[pre..pre + w].to_vec();
                f(&mut mid);
                let mut v = base[..pre].to_vec(); v.extend(mid); v.extend(&base[pre + w..]); v
            };
            let mut variants: Vec<Vec<u32>> = vec![
                win(&|m| m.reverse()),
                win(&|m| m.rotate_left(1)),
                win(&|m| m.rotate_right(1)),
                win(&|m| { let n = m.len(); m.swap(0, n - 1) }),
                win(&|m| { let n = m.len(); for i in (0..n).step_by(2) { m[i] += 40; } m.swap(0, n - 1) }),
            ];
            let mut sh = base[pre..pre + w].to_vec();
            for i in (1..sh.len()).rev() { let j = rng.below(i + 1); sh.swap(i, j); }
            if sh[0] == base[pre] { sh.rotate_left(1); }
            { let mut v = base[..pre].to_vec(); v.extend(sh); v.extend(&base[pre + w..]); variants.push(v); }
            let items = |x: &Vec<u32>| x.iter().map(|k| format!("{k}.0")).collect::<Vec<_>>().join(",");
            for v in &variants {
                l.push(format!("dom keyed {};{};{}", items(&base), items(v), items(&base)));
                l.push(format!("dom keyedc {};{};{}", items(&base), items(v), items(&base)));
                l.push(format!("dom reconcile - {} {} -", show_l(&base), show_l(v)));
                if pre == 0 { l.push(format!("dom indexed {};{};{}", items(&base), items(v), items(&base))); l.push(format!("dom reconcile 80 {} {} 90", show_l(v), show_l(&base))); }
            }
        }
    }
    l
}

pub fn run(args: &Args) {
    let mut sink = Sink::new(&args.out, "dom");
    let (mut lines, only) = crate::corpus_lines(args);
    sink.note("corpus_cases", lines.len());
    if !only { lines.extend(generate(args)); }
    for l in &lines {
        let (obs, verdict, nt) = exec(l);
        sink.count(&format!("op:{}", l.split(' ').nth(1).unwrap_or("?")));
        if obs.contains("panic") { sink.count("result:panic"); }
        sink.case(l, &obs, verdict, nt);
    }
    sink.finish();
}
