//! E8 part 2 "view" (C05): views with dynamic text, dynamic sub-views, Show and dynamic attributes,
//! mounted with the real DOM back end on the in-process DOM and updated by signal writes.
use crate::domutil;
use crate::util::*;
use std::collections::HashMap;
use sycamore::prelude::*;
use sycamore::web::{custom_element, GlobalAttributes, GlobalProps, Show, ShowProps};
use wasm_bindgen::JsCast;
use web_sys::Node;

#[derive(Clone, Debug)]
pub enum AttrV {
    Static(String),
    Dyn(usize),
    DynBool(usize),
}
#[derive(Clone, Debug)]
pub enum VD {
    El(String, Vec<(String, AttrV)>, Vec<VD>),
    Text(String),
    DText(usize),
    DView(usize, Vec<Vec<VD>>),
    Show(usize, Vec<VD>),
    Frag(Vec<VD>),
}

fn leak(s: &str) -> &'static str {
    Box::leak(s.to_string().into_boxed_str())
}

pub fn sx(v: &VD) -> String {
    let l = |c: &Vec<VD>| c.iter().map(|c| format!(" {}", sx(c))).collect::<String>();
    match v {
        VD::El(tag, attrs, cs) => format!(
            "(el {} (A{}) (C{}))",
            enc(tag),
            attrs.iter().map(|(n, a)| format!(" ({} {})", enc(n), match a { AttrV::Static(s) => format!("(s {})", enc(s)), AttrV::Dyn(g) => format!("(d {g})"), AttrV::DynBool(g) => format!("(b {g})") })).collect::<String>(),
            l(cs)
        ),
        VD::Text(s) => format!("(text {})", enc(s)),
        VD::DText(g) => format!("(dtext {g})"),
        VD::DView(g, alts) => format!("(dview {g}{})", alts.iter().map(|a| format!(" (alt{})", l(a))).collect::<String>()),
        VD::Show(g, cs) => format!("(show {g}{})", l(cs)),
        VD::Frag(cs) => format!("(frag{})", l(cs)),
    }
}

#[derive(Debug)]
enum Sx { A(String), L(Vec<Sx>) }
fn sx_parse(s: &str) -> Option<Sx> {
    let toks: Vec<String> = s.replace('(', " ( ").replace(')', " ) ").split_whitespace().map(|x| x.to_string()).collect();
    fn go(t: &[String], i: &mut usize) -> Option<Sx> {
        let tok = t.get(*i)?;
        *i += 1;
        if tok == "(" {
            let mut v = vec![];
            while t.get(*i)? != ")" { v.push(go(t, i)?); }
            *i += 1;
            Some(Sx::L(v))
        } else if tok == ")" { None } else { Some(Sx::A(tok.clone())) }
    }
    let mut i = 0;
    let r = go(&toks, &mut i)?;
    if i == toks.len() { Some(r) } else { None }
}
fn dec(s: &Sx) -> Option<String> {
    let Sx::A(a) = s else { return None };
    if a == "e" { return Some(String::new()); }
    a.split('.').map(|n| n.parse::<u32>().ok().and_then(char::from_u32)).collect()
}
fn num(s: &Sx) -> Option<usize> { if let Sx::A(a) = s { a.parse().ok() } else { None } }
fn rd(s: &Sx) -> Option<VD> {
    let Sx::L(l) = s else { return None };
    let Sx::A(h) = l.first()? else { return None };
    Some(match h.as_str() {
        "el" => {
            let Sx::L(a) = &l[2] else { return None };
            let Sx::L(c) = &l[3] else { return None };
            let attrs = a[1..].iter().map(|p| { let Sx::L(p) = p else { return None }; let Sx::L(v) = &p[1] else { return None }; let Sx::A(k) = &v[0] else { return None };
                Some((dec(&p[0])?, match k.as_str() { "s" => AttrV::Static(dec(&v[1])?), "d" => AttrV::Dyn(num(&v[1])?), _ => AttrV::DynBool(num(&v[1])?) })) }).collect::<Option<_>>()?;
            VD::El(dec(&l[1])?, attrs, c[1..].iter().map(rd).collect::<Option<_>>()?)
        }
        "text" => VD::Text(dec(&l[1])?),
        "dtext" => VD::DText(num(&l[1])?),
        "dview" => VD::DView(num(&l[1])?, l[2..].iter().map(|a| { let Sx::L(a) = a else { return None }; a[1..].iter().map(rd).collect::<Option<Vec<_>>>() }).collect::<Option<_>>()?),
        "show" => VD::Show(num(&l[1])?, l[2..].iter().map(rd).collect::<Option<_>>()?),
        "frag" => VD::Frag(l[1..].iter().map(rd).collect::<Option<_>>()?),
        _ => return None,
    })
}

/// build the real view
fn build(v: &VD, sigs: &[Signal<u32>]) -> View {
    match v {
        VD::El(tag, attrs, cs) => {
            let mut e = custom_element(leak(tag));
            for (n, a) in attrs {
                match a {
                    AttrV::Static(s) => e = e.attr(leak(n), s.clone()),
                    AttrV::Dyn(g) => { let s = sigs[*g]; e = e.attr(leak(n), move || { let v = s.get(); if v % 3 == 0 { None } else { Some(v.to_string()) } }); }
                    AttrV::DynBool(g) => { let s = sigs[*g]; e = e.bool_attr(leak(n), move || s.get() % 2 == 1); }
                }
            }
            if cs.is_empty() { e.into() } else { e.children(cs.iter().map(|c| build(c, sigs)).collect::<Vec<View>>()).into() }
        }
        VD::Text(s) => s.clone().into(),
        VD::DText(g) => { let s = sigs[*g]; View::from_dynamic(move || s.get().to_string()) }
        VD::DView(g, alts) => {
            let (s, alts, sigs) = (sigs[*g], alts.clone(), sigs.to_vec());
            View::from_dynamic(move || {
                let v = s.get() as usize;
                if alts.is_empty() { View::new() } else { View::from(alts[v % alts.len()].iter().map(|c| build(c, &sigs)).collect::<Vec<View>>()) }
            })
        }
        VD::Show(g, cs) => {
            let s = sigs[*g];
            let (cs, sigs) = (cs.clone(), sigs.to_vec());
            sycamore::rt::component_scope(move || Show(ShowProps::builder().when(move || s.get() % 2 == 1).children(Children::new(move || View::from(cs.iter().map(|c| build(c, &sigs)).collect::<Vec<View>>()))).build()))
        }
        VD::Frag(cs) => View::from(cs.iter().map(|c| build(c, sigs)).collect::<Vec<View>>()),
    }
}

/// canonical serialisation; `names` = creation id -> canonical number (by first appearance); with
/// `names = None` identities are left out (shape only)
fn ser(node: &Node, names: &mut Option<&mut HashMap<u64, usize>>, out: &mut String) {
    let cid = |names: &mut Option<&mut HashMap<u64, usize>>| -> String {
        match names { Some(m) => { let n = m.len(); m.entry(domutil::id(node)).or_insert(n).to_string() } None => String::new() }
    };
    match node.node_type() {
        1 => {
            let e: &web_sys::Element = node.unchecked_ref();
            let c = cid(names);
            let mut attrs: Vec<(String, String)> = web_sys::verif::attributes(e).into_iter().map(|(n, v)| (enc(&n), enc(&v))).collect();
            attrs.sort();
            out.push_str(&format!("E{c}:{}[{}]{{", enc(&e.tag_name().to_lowercase()), attrs.iter().map(|(n, v)| format!("{n}={v}")).collect::<Vec<_>>().join(";")));
            let mut first = true;
            let mut ch = node.first_child();
            while let Some(x) = ch { if !first { out.push(','); } first = false; ser(&x, names, out); ch = x.next_sibling(); }
            out.push('}');
        }
        3 => { let c = cid(names); out.push_str(&format!("T{c}:{}", enc(&node.text_content().unwrap_or_default()))); }
        _ => { let c = cid(names); out.push_str(&format!("C{c}")); }
    }
}
fn ser_children(parent: &Node, mut names: Option<&mut HashMap<u64, usize>>) -> String {
    let mut out = String::new();
    let mut first = true;
    let mut ch = parent.first_child();
    while let Some(x) = ch { if !first { out.push(','); } first = false; ser(&x, &mut names, &mut out); ch = x.next_sibling(); }
    out
}

fn exec(line: &str) -> (String, Option<String>, bool) {
    let rest = line.strip_prefix("view run ").unwrap();
    let mut parts: Vec<&str> = rest.rsplitn(3, ' ').collect(); // writes, store, sexp
    parts.reverse();
    let Some(Sx::L(l)) = sx_parse(parts[0]) else { return ("bad-op".into(), None, false) };
    let vds: Vec<VD> = l[1..].iter().map(|s| rd(s).expect("bad view")).collect();
    let store: Vec<u32> = if parts[1] == "-" { vec![] } else { parts[1].split(',').map(|x| x.parse().unwrap()).collect() };
    let writes: Vec<(usize, u32)> = if parts[2] == "-" { vec![] } else { parts[2].split(',').map(|w| { let (i, v) = w.split_once('=').unwrap(); (i.parse().unwrap(), v.parse().unwrap()) }).collect() };

    domutil::reset_document();
    let container = domutil::container("main");
    let mut sigs: Vec<Signal<u32>> = vec![];
    let mut out = vec![];
    let mut verdict: Option<String> = None;
    let (c2, v2, st2) = (container.clone(), vds.clone(), store.clone());
    let mut sig_out: Vec<Signal<u32>> = vec![];
    let r = catch(|| {
        let so = &mut sig_out;
        create_root(move || {
            let sigs: Vec<Signal<u32>> = st2.iter().map(|v| create_signal(*v)).collect();
            *so = sigs.clone();
            let view = View::from(v2.iter().map(|v| build(v, &sigs)).collect::<Vec<View>>());
            sycamore::web::render_in_scope(move || view, c2.unchecked_ref());
        })
    });
    let root = match r { Ok(r) => r, Err(m) => return ("panic".into(), Some(format!("[view-panic] mounting panicked: {m}")), false) };
    sigs.extend(sig_out);
    domutil::run_microtasks();
    let mut names: HashMap<u64, usize> = HashMap::new();
    let mut cur = store.clone();
    // oracle: a fresh render of the current state in a second container has the same shape
    let fresh_shape = |cur: &[u32]| -> Result<String, String> {
        let other = domutil::container("aside");
        let (o2, v3, c3) = (other.clone(), vds.clone(), cur.to_vec());
        let r = catch(|| create_root(move || {
            let sigs: Vec<Signal<u32>> = c3.iter().map(|v| create_signal(*v)).collect();
            let view = View::from(v3.iter().map(|v| build(v, &sigs)).collect::<Vec<View>>());
            sycamore::web::render_in_scope(move || view, o2.unchecked_ref());
        }))?;
        let s = ser_children(&other, None);
        r.dispose();
        other.parent_node().map(|p| p.remove_child(&other));
        Ok(s)
    };
    let step_check = |out: &mut Vec<String>, verdict: &mut Option<String>, names: &mut HashMap<u64, usize>, cur: &[u32], what: &str| {
        out.push(ser_children(&container, Some(names)));
        if verdict.is_none() {
            let have = ser_children(&container, None);
            match fresh_shape(cur) {
                Ok(want) => if want != have { *verdict = Some(format!("[view-stale] after {what}: the document is `{have}` but a fresh render of the current state gives `{want}`")); }
                Err(m) => *verdict = Some(format!("[view-panic] fresh render panicked: {m}")),
            }
        }
    };
    step_check(&mut out, &mut verdict, &mut names, &cur, "the initial render");
    for (i, v) in &writes {
        if *i >= sigs.len() { break; }
        let s = sigs[*i];
        if let Err(m) = catch(|| s.set(*v)) {
            out.push("panic".into());
            verdict.get_or_insert(format!("[view-panic] writing signal {i} := {v} panicked: {m}"));
            break;
        }
        cur[*i] = *v;
        step_check(&mut out, &mut verdict, &mut names, &cur, &format!("signal {i} := {v}"));
    }
    let _ = catch(|| root.dispose());
    (out.join(" | "), verdict, !writes.is_empty())
}

const TAGS: &[&str] = &["div", "p", "span", "ul", "li", "b", "x-y"];
const ATTRS: &[&str] = &["class", "id", "data-x", "title", "hidden", "open"];

fn gen(rng: &mut Rng, depth: usize, nsig: usize, budget: &mut usize) -> VD {
    if *budget > 0 { *budget -= 1; }
    let leaf = depth == 0 || *budget == 0;
    match rng.below(if leaf { 3 } else { 10 }) {
        0 => VD::Text(["a", "b", "", "x<y", "hello"][rng.below(5)].to_string()),
        1 | 2 => VD::DText(rng.below(nsig)),
        3 | 4 => {
            let n = rng.below(4); // 0..3 alternatives (empty and multi-node ones included)
            VD::DView(rng.below(nsig), (0..n).map(|_| (0..rng.below(3)).map(|_| gen(rng, depth - 1, nsig, budget)).collect()).collect())
        }
        5 => VD::Show(rng.below(nsig), (0..1 + rng.below(2)).map(|_| gen(rng, depth - 1, nsig, budget)).collect()),
        6 => VD::Frag((0..rng.below(3)).map(|_| gen(rng, depth - 1, nsig, budget)).collect()),
        _ => {
            let mut names: Vec<&str> = vec![];
            let mut attrs = vec![];
            for _ in 0..rng.below(3) {
                let n = *rng.pick(ATTRS);
                if names.contains(&n) { continue; }
                names.push(n);
                attrs.push((n.to_string(), match rng.below(3) { 0 => AttrV::Static(["", "a", "b c"][rng.below(3)].to_string()), 1 => AttrV::Dyn(rng.below(nsig)), _ => AttrV::DynBool(rng.below(nsig)) }));
            }
            VD::El(rng.pick(TAGS).to_string(), attrs, (0..rng.below(4)).map(|_| gen(rng, depth - 1, nsig, budget)).collect())
        }
    }
}

pub fn generate(args: &Args) -> Vec<String> {
    let thorough = args.tier == "thorough";
    let mut rng = Rng::new(args.seed ^ 0x7777);
    let mut l = vec![];
    // hand-written families: nesting of dynamic regions in elements, fragments, other regions, Show
    let fam = [
        "(L (el 100 (A (99 (d 0)) (104 (b 1))) (C (text 104) (dtext 0) (dview 1 (alt (text 97)) (alt (el 98 (A) (C)) (dtext 0))) (show 1 (el 115 (A) (C))))))",
        "(L (dview 0 (alt (dview 1 (alt (text 97)) (alt (text 98) (dtext 0)))) (alt) (alt (text 99) (text 100))))",
        "(L (show 0 (dview 1 (alt (dtext 1)) (alt (el 105 (A (99 (d 1))) (C (dtext 0))))) (text 120)) (dtext 1))",
        "(L (frag (dtext 0) (frag (dview 0 (alt (frag (text 97) (dtext 1))) (alt))) (show 1 (show 0 (dtext 1)))))",
        "(L (el 112 (A) (C (show 0 (dview 0 (alt (text 97)) (alt (text 98)))) (dview 0 (alt (show 0 (text 99))) (alt (show 1 (text 100)))))))",
    ];
    for f in fam {
        for (st, ws) in [("0,0", "0=1,1=1,0=2,1=2,0=3,1=0"), ("1,1", "1=2,0=0,0=1,1=3,1=3"), ("3,2", "0=3,0=4,1=5,0=6")] {
            l.push(format!("view run {f} {st} {ws}"));
        }
    }
    let n = if thorough { 150_000 } else { 4_000 };
    for _ in 0..n {
        let nsig = 1 + rng.below(3);
        let mut budget = 12;
        let k = 1 + rng.below(2);
        let vds: Vec<VD> = (0..k).map(|_| gen(&mut rng, 4, nsig, &mut budget)).collect();
        let store: Vec<String> = (0..nsig).map(|_| rng.below(4).to_string()).collect();
        let nw = 1 + rng.below(8);
        let ws: Vec<String> = (0..nw).map(|_| format!("{}={}", rng.below(nsig), rng.below(7))).collect();
        l.push(format!("view run (L{}) {} {}", vds.iter().map(|v| format!(" {}", sx(v))).collect::<String>(), store.join(","), ws.join(",")));
    }
    l
}

pub fn run(args: &Args) {
    let mut sink = Sink::new(&args.out, "view");
    let (mut lines, only) = crate::corpus_lines(args);
    sink.note("corpus_cases", lines.len());
    if !only { lines.extend(generate(args)); }
    for l in &lines {
        let (obs, verdict, nt) = exec(l);
        for k in ["dview", "show", "dtext", "(d ", "(b "] { if l.contains(k) { sink.count(&format!("has:{}", k.trim_matches(|c| c == '(' || c == ' '))); } }
        if l.matches("(dview").count() >= 2 { sink.count("nested-or-multiple-dview"); }
        if obs.contains("panic") { sink.count("result:panic"); }
        sink.case(l, &obs, verdict, nt);
    }
    sink.finish();
}
