//! E8 part 2 "view" (C05): views with dynamic text, dynamic sub-views, Show and dynamic attributes,
//! mounted with the real DOM back end on the in-process DOM and updated by signal writes.
use crate::domutil;
use crate::util::*;
use std::collections::HashMap;
use sycamore::prelude::*;
use wasm_bindgen::JsCast;
use web_sys::Node;

use crate::vd::*;

/// canonical serialisation; `names` = creation id -> canonical number (by first appearance); with
/// `names = None` identities are left out (shape only)
fn ser(node: &Node, names: &mut Option<&mut HashMap<u64, usize>>, out: &mut String) {
    let cid = |names: &mut Option<&mut HashMap<u64, usize>>| -> String {
        match names { Some(m) => { let n = m.len(); m.entry(domutil::id(node)).or_insert(n).to_string() } None => String::new() }
    };
    match node.node_type() {
        1 => {
            let e: &web_sys::Element = node.unchecked_ref();
            let c = cid(names);
            let mut attrs: Vec<(String, String)> = web_sys::verif::attributes(e).into_iter().map(|(n, v)| (enc(&n), enc(&v))).collect();
            attrs.sort();
            out.push_str(&format!("E{c}:{}[{}]{{", enc(&e.tag_name().to_lowercase()), attrs.iter().map(|(n, v)| format!("{n}={v}")).collect::<Vec<_>>().join(";")));
            let mut first = true;
            let mut ch = node.first_child();
            while let Some(x) = ch { if !first { out.push(','); } first = false; ser(&x, names, out); ch = x.next_sibling(); }
            out.push('}');
        }
        3 => { let c = cid(names); out.push_str(&format!("T{c}:{}", enc(&node.text_content().unwrap_or_default()))); }
        _ => { let c = cid(names); out.push_str(&format!("C{c}")); }
    }
}
fn ser_children(parent: &Node, mut names: Option<&mut HashMap<u64, usize>>) -> String {
    let mut out = String::new();
    let mut first = true;
    let mut ch = parent.first_child();
    while let Some(x) = ch { if !first { out.push(','); } first = false; ser(&x, &mut names, &mut out); ch = x.next_sibling(); }
    out
}

fn exec(line: &str) -> (String, Option<String>, bool) {
    let rest = line.strip_prefix("view run ").unwrap();
    let mut parts: Vec<&str> = rest.rsplitn(3, ' ').collect(); // writes, store, sexp
    parts.reverse();
    let Some(Sx::L(l)) = sx_parse(parts[0]) else { return ("bad-op".into(), None, false) };
    let vds: Vec<VD> = l[1..].iter().map(|s| rd(s).expect("bad view")).collect();
    let store0: Vec<u32> = if parts[1] == "-" { vec![] } else { parts[1].split(',').map(|x| x.parse().unwrap()).collect() };
    // writes made while the view is built (`setnow`: after the parts before it exist, before anything is mounted) belong
    // to the build: the state the page starts from; the reference render starts from that state without repeating them
    let store: Vec<u32> = store_after_build(&vds, &store0);
    let vds_ref: Vec<VD> = vds.iter().map(|v| if let VD::SetNow(..) = v { VD::Frag(vec![]) } else { v.clone() }).collect();
    let writes: Vec<(usize, u32)> = if parts[2] == "-" { vec![] } else { parts[2].split(',').map(|w| { let (i, v) = w.split_once('=').unwrap(); (i.parse().unwrap(), v.parse().unwrap()) }).collect() };

    domutil::reset_document();
    let container = domutil::container("main");
    let mut sigs: Vec<Signal<u32>> = vec![];
    let mut out = vec![];
    let mut verdict: Option<String> = None;
    let (c2, v2, st2) = (container.clone(), vds.clone(), store0.clone());
    let mut sig_out: Vec<Signal<u32>> = vec![];
    let r = catch(|| {
        let so = &mut sig_out;
        create_root(move || {
            let sigs: Vec<Signal<u32>> = st2.iter().map(|v| create_signal(*v)).collect();
            *so = sigs.clone();
            let view = View::from(v2.iter().map(|v| build(v, &sigs)).collect::<Vec<View>>());
            sycamore::web::render_in_scope(move || view, c2.unchecked_ref());
        })
    });
    let root = match r { Ok(r) => r, Err(m) => return ("panic".into(), Some(format!("[view-panic] mounting panicked: {m}")), false) };
    // known finding D26: a write before mounting that makes a region WITHOUT A PARENT (top level of the view, directly or
    // through fragments and other such regions) re-run, when that re-run matters: it changes what the region displays, or
    // the region has dynamic content (the re-run re-creates it, but the nodes that get mounted are the old ones)
    fn has_dynamic(v: &VD) -> bool {
        match v {
            VD::El(_, attrs, cs) => attrs.iter().any(|(_, a)| !matches!(a, AttrV::Static(_))) || cs.iter().any(has_dynamic),
            VD::Text(_) | VD::OnCleanup(..) | VD::SetNow(..) => false,
            VD::Frag(cs) | VD::NoHydrate(cs) | VD::NoSsr(cs) => cs.iter().any(has_dynamic),
            _ => true,
        }
    }
    fn unparented<'a>(v: &'a VD, out: &mut Vec<&'a VD>) {
        match v {
            VD::Frag(cs) | VD::NoHydrate(cs) => cs.iter().for_each(|c| unparented(c, out)),
            VD::DView(_, alts) | VD::DView0(_, alts) => { out.push(v); alts.iter().for_each(|a| a.iter().for_each(|c| unparented(c, out))); }
            VD::Show(_, cs) => { out.push(v); cs.iter().for_each(|c| unparented(c, out)); }
            _ => {}
        }
    }
    let mut regions = vec![];
    vds.iter().for_each(|v| unparented(v, &mut regions));
    let d26 = vds.iter().any(|v| if let VD::SetNow(g, x) = v {
        regions.iter().any(|t| match t {
            VD::DView(h, alts) if h == g => alts.is_empty() || (store0[*g] as usize) % alts.len() != (*x as usize) % alts.len() || alts.iter().any(|a| a.iter().any(has_dynamic)),
            VD::Show(h, cs) if h == g => store0[*g] % 2 != *x % 2 || cs.iter().any(has_dynamic),
            _ => false })
    } else { false });
    sigs.extend(sig_out);
    domutil::run_microtasks();
    let mut names: HashMap<u64, usize> = HashMap::new();
    let mut cur = store.clone();
    // oracle: a fresh render of the current state in a second container has the same shape
    let fresh_shape = |cur: &[u32]| -> Result<String, String> {
        let other = domutil::container("aside");
        let (o2, v3, c3) = (other.clone(), vds_ref.clone(), cur.to_vec());
        let r = catch(|| create_root(move || {
            let sigs: Vec<Signal<u32>> = c3.iter().map(|v| create_signal(*v)).collect();
            let view = View::from(v3.iter().map(|v| build(v, &sigs)).collect::<Vec<View>>());
            sycamore::web::render_in_scope(move || view, o2.unchecked_ref());
        }))?;
        let s = ser_children(&other, None);
        r.dispose();
        other.parent_node().map(|p| p.remove_child(&other));
        Ok(s)
    };
    let step_check = |out: &mut Vec<String>, verdict: &mut Option<String>, names: &mut HashMap<u64, usize>, cur: &[u32], what: &str| {
        out.push(ser_children(&container, Some(names)));
        if verdict.is_none() {
            let have = ser_children(&container, None);
            match fresh_shape(cur) {
                Ok(want) => if want != have { *verdict = Some(format!("[view-stale] after {what}: the document is `{have}` but a fresh render of the current state gives `{want}`")); }
                Err(m) => *verdict = Some(format!("[view-panic] fresh render panicked: {m}")),
            }
        }
    };
    step_check(&mut out, &mut verdict, &mut names, &cur, "the initial render");
    for (i, v) in &writes {
        if *i >= sigs.len() { break; }
        let s = sigs[*i];
        if let Err(m) = catch(|| s.set(*v)) {
            out.push("panic".into());
            verdict.get_or_insert(format!("[view-panic] writing signal {i} := {v} panicked: {m}"));
            break;
        }
        cur[*i] = *v;
        step_check(&mut out, &mut verdict, &mut names, &cur, &format!("signal {i} := {v}"));
    }
    let _ = catch(|| root.dispose());
    let verdict = verdict.map(|v| if d26 { format!("[view-write-before-mount] {v}") } else { v });
    // the model describes the intended behaviour, which known finding D26 departs from (also invisibly: the mounted
    // nodes of such a region are no longer the ones its effects own): these cases are judged by the oracle alone
    if d26 { return ("unmodelled: a parentless region re-ran before mounting (D26)".into(), verdict, !writes.is_empty()); }
    (out.join(" | "), verdict, !writes.is_empty())
}

pub fn generate(args: &Args) -> Vec<String> {
    let thorough = args.tier == "thorough";
    let mut rng = Rng::new(args.seed ^ 0x7777);
    let mut l = vec![];
    // hand-written families: nesting of dynamic regions in elements, fragments, other regions, Show
    let fam = [
        "(L (el 100 (A (99 (d 0)) (104 (b 1))) (C (text 104) (dtext 0) (dview 1 (alt (text 97)) (alt (el 98 (A) (C)) (dtext 0))) (show 1 (el 115 (A) (C))))))",
        "(L (dview 0 (alt (dview 1 (alt (text 97)) (alt (text 98) (dtext 0)))) (alt) (alt (text 99) (text 100))))",
        "(L (show 0 (dview 1 (alt (dtext 1)) (alt (el 105 (A (99 (d 1))) (C (dtext 0))))) (text 120)) (dtext 1))",
        "(L (frag (dtext 0) (frag (dview 0 (alt (frag (text 97) (dtext 1))) (alt))) (show 1 (show 0 (dtext 1)))))",
        "(L (el 112 (A) (C (show 0 (dview 0 (alt (text 97)) (alt (text 98)))) (dview 0 (alt (show 0 (text 99))) (alt (show 1 (text 100)))))))",
    ];
    // input-less dynamic regions (closures that read no signal) around reactive content; signal 2 is never written
    let fam0 = [
        "(L (dview0 2 (alt (dtext 0) (el 100 (A (99 (d 1))) (C (dtext 1))))))",
        "(L (el 117 (A) (C (dview0 2 (alt (el 108 (A) (C (dtext 0))) (el 108 (A (104 (b 1))) (C (text 98))))))))",
        "(L (dview0 2 (alt (dview 0 (alt (text 97)) (alt (dtext 1)))) (alt (text 120))) (dtext 0))",
        "(L (dview0 2 (alt (show 0 (dtext 1)) (dview0 2 (alt (dtext 0))))))",
        "(L (dview 1 (alt (dview0 2 (alt (dtext 0) (dtext 1)))) (alt (text 98))))",
    ];
    for f in fam0 {
        for (st, ws) in [("0,0,0", "0=1,1=1,0=2,1=2,0=3,1=0"), ("1,1,1", "1=2,0=0,0=1,1=3,1=3"), ("3,2,0", "0=3,0=4,1=5,0=6")] {
            l.push(format!("view run {f} {st} {ws}"));
        }
    }
    for f in fam {
        for (st, ws) in [("0,0", "0=1,1=1,0=2,1=2,0=3,1=0"), ("1,1", "1=2,0=0,0=1,1=3,1=3"), ("3,2", "0=3,0=4,1=5,0=6")] {
            l.push(format!("view run {f} {st} {ws}"));
        }
    }
    // writes made between the creation of a part of the view and its mounting (a component further down publishing
    // state): dynamic texts and attributes follow at once, dynamic regions INSIDE elements too; a top-level region
    // re-runs without a parent — when the write leaves its choice of content unchanged nothing is lost, and it must
    // stay subscribed (the other case is known finding D26, last family)
    let fam_sn = [
        ("(L (dview 0 (alt (text 97)) (alt (el 98 (A) (C)))) (setnow 0 2) (el 100 (A) (C (dtext 0))))", "0,0", "0=1,0=2,0=3"),
        ("(L (dview 0 (alt (text 97) (dtext 0)) (alt (el 98 (A) (C)))) (show 1 (text 99)) (setnow 0 12) (setnow 1 2))", "0,0", "1=1,0=1,0=4,1=0"),
        ("(L (el 100 (A (99 (d 0))) (C (dview 0 (alt (text 97)) (alt (el 98 (A) (C)))) (dtext 0))) (setnow 0 5))", "0,1", "0=2,0=3"),
        ("(L (frag (dview 1 (alt (dview 0 (alt (text 97)) (alt (text 98)))) (alt (text 99)))) (setnow 0 2) (setnow 1 2))", "0,0", "0=1,1=1,0=2,1=0"),
        ("(L (dview 0 (alt (text 97)) (alt (el 98 (A) (C)))) (setnow 0 1))", "0,0", "0=2,0=3"),
    ];
    for (f, st, ws) in fam_sn { l.push(format!("view run {f} {st} {ws}")); }
    // regions that are EMPTY (two markers and nothing else) when the part that holds them is created, filled later, and then
    // hidden and shown again by an enclosing Show / kept by an enclosing region: what was filled in must still be there
    let fam_empty = [
        ("(L (show 0 (dview 1 (alt) (alt (text 97)))))", "1,0", "1=1,0=0,0=1,1=0,0=2,0=3,1=3"),
        ("(L (el 100 (A) (C (show 0 (dview 1 (alt) (alt (el 98 (A) (C)) (dtext 1)))) (text 122))))", "1,0", "1=1,0=0,0=1,1=2,0=0,1=3,0=1"),
        ("(L (show 0 (show 1 (text 97))) (text 98))", "1,0", "1=1,0=0,0=1,1=0,0=2,1=1,0=3"),
        ("(L (show 0 (show 1 (dtext 0)) (dview 1 (alt) (alt (text 99)))))", "1,0", "1=1,0=0,0=3,1=2,0=2,1=1,0=5"),
        ("(L (el 112 (A) (C (show 0 (dview 1 (alt) (alt (show 0 (text 97))))))))", "1,0", "1=1,0=0,0=1,1=0,1=1"),
        ("(L (show 0 (frag (dview 1 (alt) (alt (text 97) (text 98))))))", "1,0", "1=1,0=0,0=1"),
        ("(L (show 0 (dstr 1) (dview 1 (alt) (alt (dstr 0)))))", "1,0", "1=1,0=0,0=1,1=2,0=2,0=3"),
    ];
    for (f, st, ws) in fam_empty { l.push(format!("view run {f} {st} {ws}")); }
    // pieces of view written with the `view!` MACRO (compiled into the harness; `(mx k g)`, each equivalent to a builder-made
    // view): what the macro emits must stay in step with the signals like everything else — alone, inside elements and
    // regions, next to builder-made parts
    for k in 0..MX_SITES {
        for (st, ws) in [("0,0", "0=1,0=2,0=3,0=7,0=4,1=1,0=5"), ("3,1", "0=0,0=6,1=0,0=9")] {
            l.push(format!("view run (L (mx {k} 0)) {st} {ws}"));
            l.push(format!("view run (L (el 100 (A) (C (text 97) (mx {k} 0) (dtext 1))) (mx {} 1)) {st} {ws}", (k + 1) % MX_SITES));
            l.push(format!("view run (L (dview 1 (alt (mx {k} 0)) (alt (text 98) (mx {} 0))) (show 0 (mx {k} 1))) {st} {ws}", (k + 3) % MX_SITES));
        }
    }
    let n = if thorough { 150_000 } else { 4_000 };
    for i in 0..n {
        let nsig = 1 + rng.below(3);
        let mut budget = 12;
        let k = 1 + rng.below(2);
        let mut vds: Vec<VD> = (0..k).map(|_| gen(&mut rng, 4, nsig, &mut budget)).collect();
        let store: Vec<String> = (0..nsig + 1).map(|_| rng.below(4).to_string()).collect();
        // one case in six: a write before mounting that changes no choice of content (same value, or + 12 = lcm of
        // the numbers of alternatives): every region re-runs once before it has a parent
        if i % 6 == 5 {
            let g = rng.below(nsig);
            let v: u32 = store[g].parse::<u32>().unwrap() + if rng.chance(1, 2) { 12 } else { 0 };
            let at = 1 + rng.below(vds.len());
            vds.insert(at, VD::SetNow(g, v));
        }
        let nw = 1 + rng.below(8);
        let ws: Vec<String> = (0..nw).map(|_| format!("{}={}", rng.below(nsig), rng.below(8))).collect();
        l.push(format!("view run (L{}) {} {}", vds.iter().map(|v| format!(" {}", sx(v))).collect::<String>(), store.join(","), ws.join(",")));
    }
    l
}

pub fn run(args: &Args) {
    let mut sink = Sink::new(&args.out, "view");
    let (mut lines, only) = crate::corpus_lines(args);
    sink.note("corpus_cases", lines.len());
    if !only { lines.extend(generate(args)); }
    for l in &lines {
        let (obs, verdict, nt) = exec(l);
        for k in ["dview", "show", "dtext", "(d ", "(b "] { if l.contains(k) { sink.count(&format!("has:{}", k.trim_matches(|c| c == '(' || c == ' '))); } }
        if l.matches("(dview").count() >= 2 { sink.count("nested-or-multiple-dview"); }
        if obs.contains("panic") { sink.count("result:panic"); }
        sink.case(l, &obs, verdict, nt);
    }
    sink.finish();
}
