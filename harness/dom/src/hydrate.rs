//! E8 part 3 "hydrate" (C09): server-rendered HTML (produced by harness/native with the real SSR back
//! end) is parsed into the in-process DOM and hydrated with the real `hydrate_in_scope`.
use crate::domutil;
use crate::util::*;
use crate::vd::*;
use std::collections::HashMap;
use sycamore::prelude::*;
use wasm_bindgen::JsCast;
use web_sys::Node;

/// visible tree: elements (with canonical identity) and text; comments dropped, adjacent text merged
fn visible(parent: &Node, names: &mut Option<&mut HashMap<u64, usize>>, out: &mut String) {
    let mut pending = String::new();
    let mut first = true;
    let mut flush = |pending: &mut String, out: &mut String, first: &mut bool| {
        if !pending.is_empty() { if !*first { out.push(','); } *first = false; out.push_str(&format!("T:{}", enc(pending))); pending.clear(); }
    };
    let mut ch = parent.first_child();
    while let Some(x) = ch {
        match x.node_type() {
            1 => {
                flush(&mut pending, out, &mut first);
                if !first { out.push(','); }
                first = false;
                let e: &web_sys::Element = x.unchecked_ref();
                let c = match names { Some(m) => { let n = m.len(); m.entry(domutil::id(&x)).or_insert(n).to_string() } None => String::new() };
                let mut attrs: Vec<(String, String)> = web_sys::verif::attributes(e).into_iter().filter(|(n, _)| n != "data-hk" && n != "data-hydrated").map(|(n, v)| (enc(&n), enc(&v))).collect();
                attrs.sort();
                out.push_str(&format!("E{c}:{}[{}]{{", enc(&e.tag_name().to_lowercase()), attrs.iter().map(|(n, v)| format!("{n}={v}")).collect::<Vec<_>>().join(";")));
                visible(&x, names, out);
                out.push('}');
            }
            3 => pending.push_str(&x.text_content().unwrap_or_default()),
            _ => {}
        }
        ch = x.next_sibling();
    }
    flush(&mut pending, out, &mut first);
}
fn vis(parent: &Node, names: Option<&mut HashMap<u64, usize>>) -> String {
    let mut out = String::new();
    let mut n = names;
    visible(parent, &mut n, &mut out);
    out
}
fn elements(parent: &Node, out: &mut Vec<Node>) {
    let mut ch = parent.first_child();
    while let Some(x) = ch { if x.node_type() == 1 { out.push(x.clone()); elements(&x, out); } ch = x.next_sibling(); }
}

fn sx_all(vds: &[VD]) -> String { vds.iter().map(sx).collect::<Vec<_>>().join(" ") }

fn exec(line: &str) -> (String, Option<String>, bool) {
    let rest = line.strip_prefix("hydrate run ").unwrap();
    let mut parts: Vec<&str> = rest.rsplitn(4, ' ').collect(); // ssr, writes, store, sexp
    parts.reverse();
    let Some(Sx::L(l)) = sx_parse(parts[0]) else { return ("bad-op".into(), None, false) };
    let vds: Vec<VD> = l[1..].iter().map(|s| rd(s).expect("bad view")).collect();
    let store0: Vec<u32> = if parts[1] == "-" { vec![] } else { parts[1].split(',').map(|x| x.parse().unwrap()).collect() };
    // (writes made while the view is built, `setnow`, are part of the build: the state the page starts from)
    let store: Vec<u32> = store_after_build(&vds, &store0);
    let writes: Vec<(usize, u32)> = if parts[2] == "-" { vec![] } else { parts[2].split(',').map(|w| { let (i, v) = w.split_once('=').unwrap(); (i.parse().unwrap(), v.parse().unwrap()) }).collect() };
    let ssr: String = if parts[3] == "e" { String::new() } else { parts[3].split('.').map(|n| char::from_u32(n.parse().unwrap()).unwrap()).collect() };

    // `NoSsr` replaces its server placeholder by client-rendered children after mount: by design the
    // document changes; such views are judged against a client render only (and are not modelled)
    let has_nossr = vds.iter().any(|v| sx(v).contains("(nossr"));
    domutil::reset_document();
    let container = domutil::container("main");
    container.unchecked_ref::<web_sys::Element>().set_inner_html(&ssr);
    let mut before_els = vec![];
    elements(&container, &mut before_els);
    let before_ids: Vec<u64> = before_els.iter().map(domutil::id).collect();
    let before_vis = vis(&container, None);
    domutil::clear_mutation_log();
    let _ = domutil::console_log();

    let mut out = vec![];
    let mut verdict: Option<String> = None;
    let (c2, v2, st2) = (container.clone(), vds.clone(), store0.clone());
    let mut sig_out: Vec<Signal<u32>> = vec![];
    let r = catch(|| {
        let so = &mut sig_out;
        create_root(move || {
            let sigs: Vec<Signal<u32>> = st2.iter().map(|v| create_signal(*v)).collect();
            *so = sigs.clone();
            sycamore::web::hydrate_in_scope(move || View::from(v2.iter().map(|v| build(v, &sigs)).collect::<Vec<View>>()), c2.unchecked_ref());
        })
    });
    let root = match r {
        Ok(r) => r,
        Err(m) => {
            let bwa = vds.iter().any(|v| if let VD::SetNow(g, _) = v { let t = sx_all(&vds); ["d", "b", "D", "B"].iter().any(|k| t.contains(&format!("({k} {g})"))) } else { false });
            let cls = if vds.iter().any(|v| sx(v).contains("(keyed ")) { "[hydrate-list] " } else if vds.iter().any(|v| sx(v).contains("(show ")) { "[hydrate-show] " } else if bwa { "[hydrate-build-write-attr] " } else { "" };
            return ("panic".into(), Some(format!("{cls}[hydrate-panic] hydrating the output of the same view panicked: {m}")), true);
        }
    };
    domutil::run_microtasks();
    let sigs = sig_out;
    // ---- adoption oracle
    let mut after_els = vec![];
    elements(&container, &mut after_els);
    let after_ids: Vec<u64> = after_els.iter().map(domutil::id).collect();
    if after_ids != before_ids && !has_nossr {
        verdict.get_or_insert(format!("[hydrate-adopt] the elements under the mount point changed identity or order during hydration: {before_ids:?} -> {after_ids:?}"));
    }
    for e in &before_els {
        let el: &web_sys::Element = e.unchecked_ref();
        if el.get_attribute("data-hk").is_some() && el.get_attribute("data-hydrated").is_none() && !has_nossr {
            verdict.get_or_insert(format!("[hydrate-adopt] server-rendered element <{}> data-hk={:?} was not adopted", el.tag_name(), el.get_attribute("data-hk")));
        }
    }
    for m in domutil::mutation_log() {
        match &m {
            domutil::Mutation::CreateElement { .. } if has_nossr => {}
            domutil::Mutation::CreateElement { .. } => { verdict.get_or_insert(format!("[hydrate-adopt] hydration created an element: {m:?}")); }
            domutil::Mutation::InsertBefore { child, .. } | domutil::Mutation::AppendChild { child, .. } | domutil::Mutation::RemoveChild { child, .. } => {
                if before_ids.contains(child) && !has_nossr { verdict.get_or_insert(format!("[hydrate-adopt] hydration moved a server-rendered element: {m:?}")); }
            }
            _ => {}
        }
    }
    let after_vis = vis(&container, None);
    if after_vis != before_vis && !has_nossr {
        verdict.get_or_insert(format!("[hydrate-visible] the visible tree changed during hydration: `{before_vis}` -> `{after_vis}`"));
    }
    // the document right after hydration, comments included (compared with Model/Hydrate.lean)
    fn full(parent: &Node, out: &mut String) {
        let mut first = true;
        let mut ch = parent.first_child();
        while let Some(x) = ch {
            if !first { out.push(','); }
            first = false;
            match x.node_type() {
                1 => {
                    let e: &web_sys::Element = x.unchecked_ref();
                    let adopted = e.get_attribute("data-hydrated").is_some();
                    let mut attrs: Vec<(String, String)> = web_sys::verif::attributes(e).into_iter().filter(|(n, _)| n != "data-hk" && n != "data-hydrated").map(|(n, v)| (enc(&n), enc(&v))).collect();
                    attrs.sort();
                    out.push_str(&format!("E{}:{}[{}]{{", if adopted { "*" } else { "" }, enc(&e.tag_name().to_lowercase()), attrs.iter().map(|(n, v)| format!("{n}={v}")).collect::<Vec<_>>().join(";")));
                    full(&x, out);
                    out.push('}');
                }
                3 => out.push_str(&format!("T:{}", enc(&x.text_content().unwrap_or_default()))),
                _ => out.push_str(&format!("C:{}", enc(&x.text_content().unwrap_or_default()))),
            }
            ch = x.next_sibling();
        }
    }
    let mut h = String::from("H=");
    full(&container, &mut h);
    out.push(h);
    let mut names: HashMap<u64, usize> = HashMap::new();
    out.push(vis(&container, Some(&mut names)));
    // ---- afterwards: behaves like a client-rendered view
    let mut cur = store.clone();
    let fresh = |cur: &[u32]| -> Result<String, String> {
        let other = domutil::container("aside");
        let (o2, v3, c3) = (other.clone(), vds.iter().map(|v| after_hydration(v, &store)).collect::<Vec<VD>>(), cur.to_vec());
        let r = catch(|| create_root(move || {
            let sigs: Vec<Signal<u32>> = c3.iter().map(|v| create_signal(*v)).collect();
            let view = View::from(v3.iter().map(|v| build(v, &sigs)).collect::<Vec<View>>());
            sycamore::web::render_in_scope(move || view, o2.unchecked_ref());
        }))?;
        domutil::run_microtasks(); // `on_mount` callbacks (NoSsr mounts its children there)
        let s = vis(&other, None);
        r.dispose();
        other.parent_node().map(|p| p.remove_child(&other));
        Ok(s)
    };
    if has_nossr && verdict.is_none() {
        // right after hydration (and the mount of the NoSsr children) the document shows what a client render shows
        let have = vis(&container, None);
        match fresh(&cur) {
            Ok(want) => if want != have { verdict = Some(format!("[hydrate-stale] after hydration of a view with NoSsr: visible tree `{have}`, a client render shows `{want}`")); }
            Err(m) => verdict = Some(format!("[hydrate-panic] client render panicked: {m}")),
        }
    }
    for (i, v) in &writes {
        if *i >= sigs.len() { break; }
        let s = sigs[*i];
        if let Err(m) = catch(|| s.set(*v)) {
            out.push("panic".into());
            verdict.get_or_insert(format!("[hydrate-panic] after hydration, writing signal {i} := {v} panicked: {m}"));
            break;
        }
        cur[*i] = *v;
        out.push(vis(&container, Some(&mut names)));
        // (a `NoHydrate` inside a region that is re-created later is mounted normally then: the frozen
        // reference does not apply; the Lean model covers those cases)
        if verdict.is_none() && !vds.iter().any(|v| nohydrate_in_dynamic(v, false)) {
            let have = vis(&container, None);
            match fresh(&cur) {
                Ok(want) => if want != have { verdict = Some(format!("[hydrate-stale] after hydration and signal {i} := {v}: visible tree `{have}`, a client render of the current state shows `{want}`")); }
                Err(m) => verdict = Some(format!("[hydrate-panic] client render panicked: {m}")),
            }
        }
    }
    let _ = catch(|| root.dispose());
    // known-finding class: hydration of `Show` (see DESIGN.md, D12)
    let has_show = vds.iter().any(|v| sx(v).contains("(show "));
    let has_list = vds.iter().any(|v| sx(v).contains("(keyed "));
    // known-finding class D25: a signal written while the page is built (`setnow`) that a dynamic ATTRIBUTE displays
    let build_write_attr = vds.iter().any(|v| if let VD::SetNow(g, _) = v { let t = sx_all(&vds); ["d", "b", "D", "B"].iter().any(|k| t.contains(&format!("({k} {g})"))) } else { false });
    let verdict = verdict.map(|v| if has_list { format!("[hydrate-list] {v}") } else if has_show { format!("[hydrate-show] {v}") } else if build_write_attr { format!("[hydrate-build-write-attr] {v}") } else { v });
    if has_nossr {
        // not modelled: judged by the oracle only
        return ("unmodelled: NoSsr".into(), verdict, true);
    }
    if vds.iter().any(|v| sx(v).contains("(prenh ")) {
        return ("unmodelled: prebuilt children in a NoHydrate frame".into(), verdict, true);
    }
    (out.join(" | "), verdict, true)
}

pub fn run(args: &Args) {
    let mut sink = Sink::new(&args.out, "hydrate");
    let (lines, _) = crate::corpus_lines(args);
    sink.note("cases_from_generator_and_corpus", lines.len());
    for l in &lines {
        if !l.starts_with("hydrate run ") { continue; }
        let (obs, verdict, nt) = exec(l);
        for k in ["dview", "show", "dtext", "(d ", "(b ", "keyed", "nohydrate", "dview0"] { if l.contains(k) { sink.count(&format!("has:{}", k.trim_matches(|c| c == '(' || c == ' '))); } }
        if obs.contains("panic") { sink.count("result:panic"); }
        // the SSR string is long: keep the case line as is (the model ignores the last field)
        sink.case(l, &obs, verdict, nt);
    }
    sink.finish();
}
