//! Native DOM harness for sycamore: runs sycamore's DOM / hydrate back ends against the
//! in-process DOM of the `web-sys` shim (see /verif/shim/README.md).
//!
//! Usage: `sycamore-verif-dom <selftest-dom|selftest-reconcile|selftest-hydrate|all>`

use sycamore::prelude::*;

#[path = "../../native/src/util.rs"]
mod util;
#[path = "../../common/vd.rs"]
mod vd;
mod engine;
mod view;
mod hydrate;

/// DOM utilities for the verification engines.
pub mod domutil {
    pub use web_sys::verif::{
        clear_mutation_log, console_log, dispatch, mutation_log, reset_document, run_microtasks,
        take_mutation_log, Mutation,
    };
    use web_sys::Node;

    /// Canonical serialisation of a node: its outer HTML plus a side list with the creation id of
    /// every serialised node in document order (the order in which their markup starts).
    #[derive(Debug, Clone, PartialEq, Eq)]
    pub struct Serialized {
        pub html: String,
        pub ids: Vec<u64>,
    }

    impl std::fmt::Display for Serialized {
        fn fmt(&self, f: &mut std::fmt::Formatter<'_>) -> std::fmt::Result {
            write!(f, "{} ids={:?}", self.html, self.ids)
        }
    }

    /// Canonical serialisation of `node` (see [`Serialized`]).
    pub fn serialize(node: &Node) -> Serialized {
        let (html, ids) = web_sys::verif::outer_html_with_ids(node);
        Serialized { html, ids }
    }

    /// Outer HTML only.
    pub fn html(node: &Node) -> String {
        serialize(node).html
    }

    /// Creation ids of the children of `node`.
    pub fn children_ids(node: &Node) -> Vec<u64> {
        web_sys::verif::children_ids(node)
    }

    /// Creation id of `node`.
    pub fn id(node: &Node) -> u64 {
        web_sys::verif::node_id(node)
    }

    /// Create `<tag>` and append it to `<body>`; returns it as a `Node`.
    pub fn container(tag: &str) -> Node {
        let doc = web_sys::window().unwrap().document().unwrap();
        let el = doc.create_element(tag).unwrap();
        doc.body().unwrap().append_child(&el).unwrap();
        el.into()
    }

    /// Pretty print the mutation log, one entry per line.
    pub fn format_log(log: &[Mutation]) -> String {
        log.iter()
            .map(|m| format!("    {m:?}"))
            .collect::<Vec<_>>()
            .join("\n")
    }
}

/* ---------------------------------------------------------------------------------------------
 * selftest-dom
 * ------------------------------------------------------------------------------------------- */

#[derive(Clone, Copy)]
struct DomState {
    count: Signal<i32>,
    class: Signal<String>,
    show: Signal<bool>,
    list: Signal<Vec<u32>>,
    clicks: Signal<u32>,
    mounted: Signal<bool>,
}

fn dom_app(s: DomState) -> View {
    // Goes through sycamore's `#[wasm_bindgen] extern "C" { fn queueMicrotask(..) }` import.
    on_mount(move || s.mounted.set(true));
    view! {
        div(id="app", class=s.class.get_clone()) {
            p { "count = " (s.count.get()) }
            (if s.show.get() {
                view! { span { "visible" } }
            } else {
                view! { em { "hidden" } }
            })
            button(on:click=move |_| s.clicks.set(s.clicks.get() + 1)) { "clicked " (s.clicks.get()) }
            ul {
                Keyed(
                    list=s.list,
                    view=|x| view! { li { "item " (x) } },
                    key=|x| *x,
                )
            }
        }
    }
}

fn selftest_dom() {
    println!("== selftest-dom ==");
    domutil::reset_document();
    let container = domutil::container("main");

    let mut state = None;
    let root = create_root(|| {
        let s = DomState {
            count: create_signal(0),
            class: create_signal("red".to_string()),
            show: create_signal(true),
            list: create_signal(vec![1, 2, 3]),
            clicks: create_signal(0),
            mounted: create_signal(false),
        };
        state = Some(s);
        sycamore::render_in_scope(move || dom_app(s), &container);
    });
    let s = state.unwrap();
    // `on_mount` callbacks are microtasks: nothing has run yet.
    assert!(!root.run_in(|| s.mounted.get_untracked()));
    let ran = domutil::run_microtasks();
    assert!(root.run_in(|| s.mounted.get_untracked()));
    let nodes_initial = root.run_in(sycamore_reactive::verif::node_count);
    println!("  microtasks run = {ran}; reactive nodes = {nodes_initial}");

    let before = domutil::serialize(&container);
    println!("initial : {before}");
    let app = container.first_child().unwrap();
    let ul = app.last_child().unwrap();
    let ul_before = domutil::children_ids(&ul);
    println!("  app children ids = {:?}", domutil::children_ids(&app));
    println!("  ul  children ids = {ul_before:?}");
    assert_eq!(
        before.html,
        "<main><div id=\"app\" class=\"red\"><p>count = <!---->0<!----></p><!----><span>visible</span><!---->\
         <button>clicked <!---->0<!----></button><ul><!----><li>item 1</li><li>item 2</li>\
         <li>item 3</li><!----></ul></div></main>"
    );

    domutil::clear_mutation_log();
    root.run_in(|| {
        s.count.set(42);
        s.class.set("blue".to_string());
        s.show.set(false);
        s.list.set(vec![3, 4, 1]);
    });
    // Fire the click handler registered through `on:click`.
    let button = app.child_nodes().get(4).unwrap();
    domutil::dispatch(web_sys::verif::as_event_target(&button), "click");

    let after = domutil::serialize(&container);
    println!("updated : {after}");
    println!("  app children ids = {:?}", domutil::children_ids(&app));
    let ul_after = domutil::children_ids(&ul);
    println!("  ul  children ids = {ul_after:?}");
    println!("  mutation log of the update:\n{}", domutil::format_log(&domutil::mutation_log()));
    assert_eq!(
        after.html,
        "<main><div id=\"app\" class=\"blue\"><p>count = <!---->42<!----></p><!----><em>hidden</em><!---->\
         <button>clicked <!---->1<!----></button><ul><!----><li>item 3</li><li>item 4</li>\
         <li>item 1</li><!----></ul></div></main>"
    );
    // Identities: the <li> for keys 3 and 1 are retained (moved), key 2 is gone, key 4 is new.
    let (li1, li3) = (ul_before[1], ul_before[3]);
    assert_eq!(ul_after[1], li3, "<li> of key 3 must be retained");
    assert_eq!(ul_after[3], li1, "<li> of key 1 must be retained");
    assert!(!ul_before.contains(&ul_after[2]), "<li> of key 4 must be new");
    assert_eq!((ul_after[0], ul_after[4]), (ul_before[0], ul_before[4]), "markers retained");
    // Everything outside of the dynamic parts keeps its identity.
    let keep: Vec<u64> = before.ids.iter().copied().filter(|id| after.ids.contains(id)).collect();
    println!("  retained node ids = {keep:?}");
    println!("  console = {:?}", domutil::console_log());
    let scope_snapshot = root.run_in(|| sycamore_reactive::verif::snapshot(use_global_scope()));
    println!(
        "  reactive nodes after update = {}; global scope snapshot (children, dependents, dependencies, dirty) = {:?}",
        root.run_in(sycamore_reactive::verif::node_count),
        scope_snapshot
    );
    root.dispose();
    println!("  reactive nodes after dispose = {}", root.run_in(sycamore_reactive::verif::node_count));
    println!("selftest-dom OK");
}

/* ---------------------------------------------------------------------------------------------
 * selftest-reconcile
 * ------------------------------------------------------------------------------------------- */

fn selftest_reconcile() {
    println!("== selftest-reconcile ==");
    domutil::reset_document();
    let doc = web_sys::window().unwrap().document().unwrap();
    let parent = domutil::container("div");
    let mk = |name: &str| -> web_sys::Node {
        let el = doc.create_element("i").unwrap();
        el.set_attribute("n", name).unwrap();
        el.into()
    };
    let (x, a1, a2, a3, y, n1) = (mk("x"), mk("a1"), mk("a2"), mk("a3"), mk("y"), mk("n1"));
    for n in [&x, &a1, &a2, &a3, &y] {
        parent.append_child(n).unwrap();
    }
    let name_of = |id: u64| {
        [("x", &x), ("a1", &a1), ("a2", &a2), ("a3", &a3), ("y", &y), ("n1", &n1)]
            .iter()
            .find(|(_, n)| domutil::id(n) == id)
            .map(|(s, _)| *s)
            .unwrap()
    };
    let show = |ids: &[u64]| ids.iter().map(|i| format!("{}#{i}", name_of(*i))).collect::<Vec<_>>().join(" ");

    let before = domutil::children_ids(&parent);
    println!("before : {}", show(&before));
    domutil::clear_mutation_log();

    let mut a = vec![a1.clone(), a2.clone(), a3.clone()];
    let b = vec![a3.clone(), n1.clone(), a1.clone()];
    sycamore::web::__verif_reconcile_fragments(&parent, &mut a, &b);

    let after = domutil::children_ids(&parent);
    println!("after  : {}", show(&after));
    println!("  mutation log:\n{}", domutil::format_log(&domutil::mutation_log()));
    let expected: Vec<u64> = [&x, &a3, &n1, &a1, &y].iter().map(|n| domutil::id(n)).collect();
    assert_eq!(after, expected, "children must be [x, a3, n1, a1, y]");
    assert!(a2.parent_node().is_none(), "a2 must be detached");
    println!("selftest-reconcile OK");
}

/* ---------------------------------------------------------------------------------------------
 * selftest-hydrate
 * ------------------------------------------------------------------------------------------- */

#[derive(Clone, Copy)]
struct HydrateState {
    count: Signal<i32>,
    class: Signal<String>,
    show: Signal<bool>,
    name: Signal<String>,
}

fn dyn_text(name: Signal<String>) -> View {
    View::from(move || name.get_clone())
}

/// The same view that produced [`SSR_HTML`] (there the signals had the initial values 7, "box",
/// true, "World").
fn hydrate_app(s: HydrateState) -> View {
    let HydrateState { count, class: cls, show, name } = s;
    view! {
        div(class=cls.get_clone(), id="app") {
            p { "Count: " (count.get()) "!" }
            h1 { "Hello " (dyn_text(name)) "." }
            (if show.get() {
                view! { span { "on" } }
            } else {
                view! { em { "off" } }
            })
            input(r#type="checkbox", checked=show.get())
            "a < b & c"
        }
    }
}

/// Output of `sycamore::render_to_string` (pinned tree, default SSR build) for `hydrate_app`.
const SSR_HTML: &str = r#"<div class="box" id="app" data-hk="0.0"><p data-hk="0.1">Count: <!--/-->7<!--/-->!</p><h1 data-hk="0.2">Hello <!--/--><!--t-->World<!--><!--/-->.</h1><!--/--><span data-hk="0.3">on</span><!--/--><input type="checkbox" checked data-hk="0.4">a &lt; b &amp; c</div>"#;

fn element_ids(node: &web_sys::Node) -> Vec<(String, u64)> {
    use wasm_bindgen::JsCast;
    let mut out = Vec::new();
    let list = node
        .unchecked_ref::<web_sys::Element>()
        .query_selector_all("*")
        .unwrap();
    for i in 0..list.length() {
        let n = list.get(i).unwrap();
        out.push((n.node_name().to_lowercase(), domutil::id(&n)));
    }
    out
}

fn selftest_hydrate() {
    use wasm_bindgen::JsCast;
    println!("== selftest-hydrate ==");
    domutil::reset_document();
    let container = domutil::container("main");
    container
        .unchecked_ref::<web_sys::Element>()
        .set_inner_html(SSR_HTML);
    let parsed = domutil::serialize(&container);
    println!("ssr     : {parsed}");
    // Round trip: the parser + serialiser reproduce the SSR string except for the spec-mandated
    // normalisations (boolean attribute `checked` -> `checked=""`, `<!-->` -> `<!---->`).
    assert_eq!(
        parsed.html,
        format!(
            "<main>{}</main>",
            SSR_HTML
                .replace(" checked ", " checked=\"\" ")
                .replace("<!-->", "<!---->")
        )
    );
    let elements_before = element_ids(&container);
    let h1 = container.first_child().unwrap().child_nodes().get(1).unwrap();
    println!("  elements (tag, id) = {elements_before:?}");
    println!("  h1 children before hydration = {:?}", domutil::children_ids(&h1));

    domutil::clear_mutation_log();
    let mut state = None;
    let root = create_root(|| {
        let s = HydrateState {
            count: create_signal(7),
            class: create_signal("box".to_string()),
            show: create_signal(true),
            name: create_signal("World".to_string()),
        };
        state = Some(s);
        sycamore::hydrate_in_scope(move || hydrate_app(s), &container);
    });
    let s = state.unwrap();
    let hydrated = domutil::serialize(&container);
    println!("hydrated: {hydrated}");
    println!("  mutation log of hydration:\n{}", domutil::format_log(&domutil::mutation_log()));
    let elements_after = element_ids(&container);
    assert_eq!(elements_before, elements_after, "hydration must reuse all elements");
    println!("  h1 children after hydration  = {:?}", domutil::children_ids(&h1));

    // The dynamic text node inside <h1> after hydration.
    let text = h1
        .child_nodes()
        .get(2)
        .filter(|n| n.node_type() == web_sys::Node::TEXT_NODE)
        .expect("dynamic text node");
    let text_id = domutil::id(&text);
    assert_eq!(text.text_content().as_deref(), Some("World"));

    domutil::clear_mutation_log();
    root.run_in(|| {
        s.name.set("Sycamore".to_string());
        s.count.set(8);
        s.class.set("card".to_string());
    });
    let updated = domutil::serialize(&container);
    println!("updated : {updated}");
    println!("  mutation log of the update:\n{}", domutil::format_log(&domutil::mutation_log()));
    assert_eq!(text.text_content().as_deref(), Some("Sycamore"));
    assert_eq!(domutil::id(&h1.child_nodes().get(2).unwrap()), text_id, "text node is mutated in place");
    assert!(domutil::mutation_log().contains(&domutil::Mutation::SetText {
        node: text_id,
        text: "Sycamore".to_string()
    }));
    assert_eq!(element_ids(&container), elements_before, "elements still retained");
    assert!(updated.html.contains("Count: <!--#-->8<!--#-->!"));
    assert!(updated.html.contains("class=\"card\""));

    // Switch the conditional view: <span> is replaced by a freshly created <em>.
    root.run_in(|| s.show.set(false));
    let switched = domutil::serialize(&container);
    println!("switched: {switched}");
    assert!(switched.html.contains("<em>off</em>"));
    assert!(!switched.html.contains(" checked"));
    println!("  console = {:?}", domutil::console_log());
    root.dispose();
    println!("selftest-hydrate OK");
}

/// `--cases-file F` (repeatable) / `--only-cases`, as in harness/native
pub fn corpus_lines(args: &util::Args) -> (Vec<String>, bool) {
    let mut lines = vec![];
    let mut i = 0;
    while i < args.extra.len() {
        if args.extra[i] == "--cases-file" {
            for l in std::fs::read_to_string(&args.extra[i + 1]).unwrap().lines() {
                if !l.trim().is_empty() && !l.starts_with('#') { lines.push(l.to_string()); }
            }
            i += 1;
        }
        i += 1;
    }
    (lines, args.extra.iter().any(|x| x == "--only-cases"))
}

fn main() {
    let arg = std::env::args().nth(1).unwrap_or_default();
    if arg == "dom" || arg == "view" || arg == "hydrate" {
        let mut a = std::env::args().skip(2);
        let mut args = util::Args { engine: arg.clone(), tier: "quick".into(), seed: 0, out: "out".into(), extra: vec![] };
        while let Some(x) = a.next() {
            match x.as_str() {
                "--tier" => args.tier = a.next().unwrap(),
                "--seed" => args.seed = a.next().unwrap().parse().unwrap(),
                "--out" => args.out = a.next().unwrap().into(),
                _ => args.extra.push(x),
            }
        }
        std::panic::set_hook(Box::new(|info| {
            if util::IN_CATCH.with(|c| c.get()) == 0 { eprintln!("harness bug (panic outside a case): {info}"); }
        }));
        util::start_watchdog(&args.out, &args.engine);
        match arg.as_str() {
            "dom" => engine::run(&args),
            "view" => view::run(&args),
            "hydrate" => hydrate::run(&args),
            _ => { eprintln!("engine not built yet"); std::process::exit(2) }
        }
        return;
    }
    main_selftests()
}

fn main_selftests() {

    let arg = std::env::args().nth(1).unwrap_or_default();
    match arg.as_str() {
        "selftest-dom" => selftest_dom(),
        "selftest-reconcile" => selftest_reconcile(),
        "selftest-hydrate" => selftest_hydrate(),
        "all" => {
            selftest_dom();
            selftest_reconcile();
            selftest_hydrate();
        }
        other => {
            eprintln!("unknown command {other:?}; expected selftest-dom | selftest-reconcile | selftest-hydrate | all");
            std::process::exit(2);
        }
    }
}
