//! E4 "isdyn" (C18): the view! codegen's static/dynamic classification of interpolated expressions.
use crate::util::*;
use sycamore_view_parser::codegen::Codegen;
use sycamore_view_parser::ir::{DynNode, Node, Prop, PropType, Root};
use syn::{Expr, Pat, Stmt};

// ---------- syn AST -> S-expression of the Lean model (lean/SycVerif/Model/IsDyn.lean)

fn is_view(m: &syn::Macro) -> bool {
    m.path.get_ident().is_some_and(|i| i == "view")
}
fn b(x: bool) -> &'static str {
    if x { "t" } else { "f" }
}
fn opt(e: Option<&Expr>) -> String {
    match e {
        None => "N".into(),
        Some(e) => format!("(S {})", ex(e)),
    }
}
fn list<'a>(es: impl Iterator<Item = &'a Expr>) -> String {
    let mut s = String::from("(L");
    for e in es {
        s.push(' ');
        s += &ex(e);
    }
    s.push(')');
    s
}
fn plist<'a>(ps: impl Iterator<Item = &'a Pat>) -> String {
    let mut s = String::from("(L");
    for p in ps {
        s.push(' ');
        s += &pt(p);
    }
    s.push(')');
    s
}
fn block(bl: &syn::Block) -> String {
    let mut s = String::from("(L");
    for st in &bl.stmts {
        s.push(' ');
        s += &stmt(st);
    }
    s.push(')');
    s
}
fn stmt(s: &Stmt) -> String {
    match s {
        Stmt::Expr(e, _) => format!("(expr {})", ex(e)),
        Stmt::Macro(m) => format!("(macro {})", b(is_view(&m.mac))),
        Stmt::Local(l) => format!(
            "(local {} {})",
            pt(&l.pat),
            match &l.init {
                None => "N".to_string(),
                Some(i) => format!("(I {} {})", ex(&i.expr), opt(i.diverge.as_ref().map(|(_, e)| &**e))),
            }
        ),
        Stmt::Item(_) => "(item)".into(),
    }
}
pub fn ex(e: &Expr) -> String {
    match e {
        Expr::Lit(_) => "(lit)".into(),
        Expr::Path(_) => "(path)".into(),
        Expr::Closure(c) => format!("(closure {})", ex(&c.body)),
        Expr::Field(f) => format!("(field {})", ex(&f.base)),
        Expr::Paren(p) => format!("(paren {})", ex(&p.expr)),
        Expr::Group(g) => format!("(group {})", ex(&g.expr)),
        Expr::Tuple(t) => format!("(tuple {})", list(t.elems.iter())),
        Expr::Array(a) => format!("(array {})", list(a.elems.iter())),
        Expr::Repeat(r) => format!("(repeat {} {})", ex(&r.expr), ex(&r.len)),
        Expr::Struct(s) => format!("(struct {} {})", list(s.fields.iter().map(|f| &f.expr)), opt(s.rest.as_deref())),
        Expr::Cast(c) => format!("(cast {})", ex(&c.expr)),
        Expr::Macro(m) => format!("(macro {})", b(is_view(&m.mac))),
        Expr::Block(bl) => format!("(block {})", block(&bl.block)),
        Expr::Const(c) => format!("(const {})", block(&c.block)),
        Expr::Loop(l) => format!("(loop {})", block(&l.body)),
        Expr::While(w) => format!("(while {} {})", ex(&w.cond), block(&w.body)),
        Expr::ForLoop(f) => format!("(forLoop {} {} {})", pt(&f.pat), ex(&f.expr), block(&f.body)),
        Expr::Break(br) => format!("(break {})", opt(br.expr.as_deref())),
        Expr::Continue(_) => "(continue)".into(),
        Expr::Let(l) => format!("(let {} {})", pt(&l.pat), ex(&l.expr)),
        Expr::Match(m) => {
            let mut s = format!("(match {} (A", ex(&m.expr));
            for a in &m.arms {
                s += &format!(" (arm {} {} {})", pt(&a.pat), opt(a.guard.as_ref().map(|(_, g)| &**g)), ex(&a.body));
            }
            s += "))";
            s
        }
        Expr::If(i) => format!("(if {} {} {})", ex(&i.cond), block(&i.then_branch), opt(i.else_branch.as_ref().map(|(_, e)| &**e))),
        Expr::Unary(u) => format!("(unary {})", ex(&u.expr)),
        Expr::Binary(bi) => format!("(binary {} {})", ex(&bi.left), ex(&bi.right)),
        Expr::Index(i) => format!("(index {} {})", ex(&i.expr), ex(&i.index)),
        Expr::Range(r) => format!("(range {} {})", opt(r.start.as_deref()), opt(r.end.as_deref())),
        Expr::Call(c) => format!("(call {} {})", ex(&c.func), list(c.args.iter())),
        Expr::MethodCall(c) => format!("(methodCall {} {})", ex(&c.receiver), list(c.args.iter())),
        Expr::Await(a) => format!("(await {})", ex(&a.base)),
        Expr::Try(t) => format!("(try {})", ex(&t.expr)),
        Expr::Assign(a) => format!("(assign {} {})", ex(&a.left), ex(&a.right)),
        Expr::Reference(r) => format!("(reference {})", ex(&r.expr)),
        Expr::RawAddr(r) => format!("(rawAddr {})", ex(&r.expr)),
        Expr::Return(r) => format!("(return {})", opt(r.expr.as_deref())),
        Expr::Yield(r) => format!("(yield {})", opt(r.expr.as_deref())),
        Expr::Async(a) => format!("(async {})", block(&a.block)),
        Expr::Unsafe(a) => format!("(unsafe {})", block(&a.block)),
        Expr::TryBlock(a) => format!("(tryBlock {})", block(&a.block)),
        Expr::Infer(_) => "(infer)".into(),
        _ => "(verbatim)".into(),
    }
}
fn pt(p: &Pat) -> String {
    match p {
        Pat::Wild(_) => "(wild)".into(),
        Pat::Lit(_) => "(lit)".into(),
        Pat::Path(_) => "(path)".into(),
        Pat::Rest(_) => "(rest)".into(),
        Pat::Const(c) => format!("(const {})", block(&c.block)),
        Pat::Type(t) => format!("(type {})", pt(&t.pat)),
        Pat::Paren(p) => format!("(paren {})", pt(&p.pat)),
        Pat::Or(o) => format!("(or {})", plist(o.cases.iter())),
        Pat::Tuple(t) => format!("(tuple {})", plist(t.elems.iter())),
        Pat::TupleStruct(t) => format!("(tupleStruct {})", plist(t.elems.iter())),
        Pat::Slice(t) => format!("(slice {})", plist(t.elems.iter())),
        Pat::Struct(s) => format!("(struct {})", plist(s.fields.iter().map(|f| &*f.pat))),
        Pat::Range(r) => format!("(range {} {})", opt(r.start.as_deref()), opt(r.end.as_deref())),
        Pat::Reference(r) => format!("(reference {} {})", b(r.mutability.is_some()), pt(&r.pat)),
        Pat::Ident(i) => format!(
            "(ident {} {} {})",
            b(i.by_ref.is_some()),
            b(i.mutability.is_some()),
            match &i.subpat {
                None => "N".to_string(),
                Some((_, p)) => format!("(S {})", pt(p)),
            }
        ),
        Pat::Macro(m) => format!("(macro {})", b(is_view(&m.mac))),
        _ => "(verbatim)".into(),
    }
}

// ---------- oracle: "contains an evaluation outside closures / const blocks / items / view! bodies"
// written with syn::visit, independently of the converter above and of the classifier.

struct Ev(bool);
impl<'ast> syn::visit::Visit<'ast> for Ev {
    fn visit_expr(&mut self, e: &'ast Expr) {
        match e {
            Expr::Call(_) | Expr::MethodCall(_) | Expr::Await(_) | Expr::Try(_) | Expr::Assign(_) => self.0 = true,
            Expr::Closure(_) | Expr::Const(_) => {} // opaque
            Expr::Macro(m) => {
                if !is_view(&m.mac) {
                    self.0 = true
                }
            }
            _ => syn::visit::visit_expr(self, e),
        }
    }
    fn visit_pat(&mut self, p: &'ast Pat) {
        match p {
            Pat::Macro(m) => {
                if !is_view(&m.mac) {
                    self.0 = true
                }
            }
            Pat::Const(_) => {}
            _ => syn::visit::visit_pat(self, p),
        }
    }
    fn visit_stmt_macro(&mut self, m: &'ast syn::StmtMacro) {
        if !is_view(&m.mac) {
            self.0 = true
        }
    }
    fn visit_item(&mut self, _: &'ast syn::Item) {} // opaque
    fn visit_type(&mut self, _: &'ast syn::Type) {} // types (array lengths, generic consts) are compile-time
    fn visit_generic_argument(&mut self, _: &'ast syn::GenericArgument) {}
    fn visit_attribute(&mut self, _: &'ast syn::Attribute) {}
}
fn contains_eval(e: &Expr) -> bool {
    let mut v = Ev(false);
    syn::visit::Visit::visit_expr(&mut v, e);
    v.0
}

// ---------- running the real codegen

fn squash(ts: proc_macro2::TokenStream) -> String {
    ts.to_string().split_whitespace().collect::<Vec<_>>().join(" ")
}

/// Returns the classification at each of six sites: direct child, direct attribute, and — through the
/// real `view!` parser — child, plain attribute, hyphenated attribute, `prop:` directive.
fn classify(src: &str, e: &Expr) -> Result<Vec<Option<bool>>, String> {
    catch(|| {
        let cg = Codegen {};
        let mut out = vec![];
        let child = squash(cg.node(&Node::Dyn(DynNode { value: e.clone() })));
        out.push(Some(child.contains("View :: from_dynamic (move ||")));
        let attr = squash(cg.attribute(&Prop {
            ty: PropType::Plain { ident: syn::Ident::new("class", proc_macro2::Span::call_site()) },
            value: e.clone(),
            span: proc_macro2::Span::call_site(),
        }));
        out.push(Some(attr.starts_with(". class (move ||")));
        match parse_src::<Root>(&format!("div(class={src}, data-x={src}, prop:value={src}, \"data-q\"={src}) {{ ({src}) }}")).ok_or(()) {
            Ok(root) => {
                let t = squash(cg.root(&root));
                out.push(Some(t.contains("children (:: std :: vec ! [:: sycamore :: rt :: View :: from_dynamic (move ||")));
                out.push(Some(t.contains(". class (move ||")));
                out.push(Some(t.contains(". attr (\"data-x\" , move ||")));
                out.push(Some(t.contains(". prop (\"value\" , move ||")));
                // every spelling of an attribute name: the quoted one too
                out.push(Some(t.contains(". attr (\"data-q\" , move ||")));
            }
            Err(_) => out.extend([None, None, None, None, None]),
        }
        // the interpolation as a child of elements of other kinds (raw-text and escapable-raw-text elements included): what an
        // interpolation is does not depend on the element around it
        // (thorough tier: for one source text in four — the code generator is run once per parent)
        let tags: &[&str] = if THOROUGH.with(|t| t.get()) && src.len() % 4 != 0 { &[] } else { &["style", "title", "textarea", "script", "option", "p"] };
        for tag in tags {
            match parse_src::<Root>(&format!("{tag} {{ ({src}) }}")) {
                Some(root) => out.push(Some(squash(cg.root(&root)).contains(":: sycamore :: rt :: View :: from_dynamic (move ||"))),
                None => out.push(None),
            }
        }
        out
    })
}

pub fn exec(line: &str) -> (String, Option<String>, bool) {
    // request: `isdyn classify <sexp>` followed by ` ;; <source text>` (the driver ignores nothing:
    // the source text travels in a side table, see `run`)
    let _ = line;
    unreachable!("isdyn cases are executed from source text in run()")
}

/// `__group!(…)` in a source text stands for the invisible-delimiter group (`Delimiter::None`) that rustc makes
/// of a `macro_rules!` fragment (`$x:expr`) when it forwards it to a proc-macro: no source text can spell one
fn degroup(ts: proc_macro2::TokenStream) -> proc_macro2::TokenStream {
    use proc_macro2::{Delimiter, Group, TokenTree};
    let toks: Vec<TokenTree> = ts.into_iter().collect();
    let mut out: Vec<TokenTree> = vec![];
    let mut i = 0;
    while i < toks.len() {
        if let (TokenTree::Ident(id), Some(TokenTree::Punct(p)), Some(TokenTree::Group(g))) = (&toks[i], toks.get(i + 1), toks.get(i + 2)) {
            if id == "__group" && p.as_char() == '!' && g.delimiter() == Delimiter::Parenthesis {
                out.push(TokenTree::Group(Group::new(Delimiter::None, degroup(g.stream()))));
                i += 3;
                continue;
            }
        }
        match &toks[i] {
            TokenTree::Group(g) => {
                let mut ng = Group::new(g.delimiter(), degroup(g.stream()));
                ng.set_span(g.span());
                out.push(TokenTree::Group(ng));
            }
            t => out.push(t.clone()),
        }
        i += 1;
    }
    out.into_iter().collect()
}
fn parse_src<T: syn::parse::Parse>(src: &str) -> Option<T> {
    let ts: proc_macro2::TokenStream = src.parse().ok()?;
    syn::parse2(degroup(ts)).ok()
}

fn exec_src(src: &str) -> Option<(String, String, Option<String>, bool)> {
    let e: Expr = parse_src(src)?;
    // the text must print back to something that parses to the same tree (guards the side table)
    let sexp = ex(&e);
    let ce = contains_eval(&e);
    let (obs, verdict) = match classify(src, &e) {
        Err(m) => ("panic".to_string(), Some(format!("[codegen-panic] codegen panicked on `{src}`: {m}"))),
        Ok(sites) => {
            let known: Vec<bool> = sites.iter().flatten().copied().collect();
            let all_dyn = known.iter().all(|x| *x);
            let all_static = known.iter().all(|x| !*x);
            let obs = if all_dyn { "dyn".to_string() } else if all_static { "static".to_string() } else { format!("mixed{:?}", sites) };
            let verdict = if ce && !all_dyn {
                Some(format!("[static-with-eval] `{src}` contains an evaluation outside closures but is emitted as a static value (sites child,attr,view-child,view-attr,view-hyphen,view-prop,view-quoted,child of style/title/textarea/script/option/p = {:?})", sites))
            } else {
                None
            };
            (obs, verdict)
        }
    };
    Some((format!("isdyn classify {sexp}"), obs, verdict, sexp.matches('(').count() > 1))
}

// ---------- generators (source text)

// macros with call-free bodies matter: `format!` & co. evaluate their arguments (Display on a signal is a
// tracked read; `{x}` captures live inside the string literal), whatever the tokens look like
const LEAVES: &[&str] = &["1", "\"s\"", "x", "a::b", "f()", "x.m()", "|y| f(y)", "move || g(1)", "view! { p { (f()) } }", "vec![f()]", "x.y", "self.0",
    "format!(\"{x}\")", "format!(\"{}\", x)", "println!(\"{}\", x)", "vec![x]", "std::format!(\"{x}\")", "matches!(x, 1)",
    // callees that LOOK like types or constructors are calls all the same (components are UpperCamelCase functions)
    "Label(x)", "Total()", "m::Widget(x, 1)", "Some(x)", "Color::Rgb(1, 2, x)", "Self::New(x)"];
const LEAVES_SMALL: &[&str] = &["1", "x", "f()", "|y| f(y)", "view! { (f()) }", "m!(f())", "format!(\"{x}\")", "m!(x)", "Label(x)"];
const PATS: &[&str] = &["_", "1", "x", "ref mut x", "mut x", "ref x", "x @ {P}", "A::B", "({P})", "{P} | {P}", "({P}, {P})", "({P}, ..)", "T({P})",
    "[{P}, ..]", "S { a: {P} }", "S { a, .. }", "1..=2", "&{P}", "&mut {P}", "m!()", "view!()", "const { 1 }", "-1", "None"];
const EXPRS: &[&str] = &[
    "{E}.f", "({E})", "({E}, {E})", "({E},)", "[{E}, {E}]", "[{E}; 3]", "[1; {E}]", "Foo { a: {E} }", "Foo { a: {E}, ..{E} }", "Foo { ..{E} }",
    "Foo { a: 1, ..{E} }", "{E} as u8", "{ {S} }", "{ {S} {S} }", "{ {S} {E} }", "const { {E} }", "loop { {S} }", "'a: loop { {S} }", "while {E} { {S} }",
    "while let {P} = {E} { {S} }", "for {P} in {E} { {S} }", "break", "break {E}", "break 'a {E}", "continue", "'a: { {S} }",
    "if let {P} = {E} { {S} }", "match {E} { {P} => {E}, }", "match {E} { {P} if {E} => {E}, _ => {E} }", "match {E} { {P} => { {S} } }",
    "if {E} { {S} }", "if {E} { {S} } else { {S} }", "if {E} { {E} } else if {E} { {E} } else { {E} }", "-{E}", "!{E}", "*{E}",
    "{E} + {E}", "{E} && {E}", "{E} += {E}", "{E} == {E}", "{E}[{E}]", "{E}..{E}", "..{E}", "{E}..", "..", "{E}..={E}",
    "{E}({E})", "Foo({E})", "a::Bar({E}, 1)", "{E}.m({E})", "{E}.await", "{E}?", "{E} = {E}", "&{E}", "&mut {E}", "&raw const {E}", "return {E}", "return",
    "async { {S} }", "async move { {E} }", "unsafe { {S} }", "|x| {E}", "move |x: u8| { {S} }", "m!({E})", "format!(\"{}\", {E})", "view! { p { ({E}) } }", "x::<{ N }>",
    "{E} as [u8; 3]", "#[a] {E}",
    // a fragment forwarded by a `macro_rules!` wrapper arrives as an invisible group (see `degroup`)
    "__group!({E})", "__group!({E}) + 1", "-__group!({E})",
];
const STMTS: &[&str] = &[
    "{E};", "{E}", "let {P} = {E};", "let {P}: T = {E};", "let {P};", "let {P} = {E} else { {S} };", "let Some({P}) = {E} else { return; };",
    "fn g() { f(); }", "const C: u8 = f();", "m! { x };", "view! { p {} };", "struct Z;", ";", "use a::b;",
];

fn fill(t: &str, rng: &mut Rng, depth: usize, leaves: &[&str]) -> String {
    let mut out = String::new();
    let mut rest = t;
    while let Some(i) = rest.find('{') {
        if rest[i..].starts_with("{E}") {
            out += &rest[..i];
            out += &gen_expr(rng, depth, leaves);
            rest = &rest[i + 3..];
        } else if rest[i..].starts_with("{P}") {
            out += &rest[..i];
            out += &gen_pat(rng, depth);
            rest = &rest[i + 3..];
        } else if rest[i..].starts_with("{S}") {
            out += &rest[..i];
            out += &gen_stmt(rng, depth, leaves);
            rest = &rest[i + 3..];
        } else {
            out += &rest[..=i];
            rest = &rest[i + 1..];
        }
    }
    out += rest;
    out
}
fn gen_expr(rng: &mut Rng, depth: usize, leaves: &[&str]) -> String {
    if depth == 0 || rng.chance(1, 5) {
        rng.pick(leaves).to_string()
    } else {
        { let t = *rng.pick(EXPRS); fill(t, rng, depth - 1, leaves) }
    }
}
fn gen_pat(rng: &mut Rng, depth: usize) -> String {
    let t = *rng.pick(PATS);
    if depth == 0 && t.contains("{P}") {
        return "x".into();
    }
    fill(t, rng, depth.saturating_sub(1), LEAVES)
}
fn gen_stmt(rng: &mut Rng, depth: usize, leaves: &[&str]) -> String {
    { let t = *rng.pick(STMTS); fill(t, rng, depth.saturating_sub(1), leaves) }
}

/// every template with every combination of the given fillers in its holes; when a template has
/// more than `budget` combinations, `budget` of them are drawn with the seeded PRNG instead
fn exhaustive(templates: &[&str], e_fill: &[String], p_fill: &[String], s_fill: &[String], budget: usize, rng: &mut Rng, out: &mut Vec<String>) {
    for t in templates {
        // split into literal pieces and hole kinds
        let mut pieces: Vec<String> = vec![String::new()];
        let mut holes: Vec<&[String]> = vec![];
        let mut rest = *t;
        while let Some(i) = rest.find('{') {
            let f: Option<&[String]> = if rest[i..].starts_with("{E}") {
                Some(e_fill)
            } else if rest[i..].starts_with("{P}") {
                Some(p_fill)
            } else if rest[i..].starts_with("{S}") {
                Some(s_fill)
            } else {
                None
            };
            match f {
                None => {
                    pieces.last_mut().unwrap().push_str(&rest[..=i]);
                    rest = &rest[i + 1..];
                }
                Some(f) => {
                    pieces.last_mut().unwrap().push_str(&rest[..i]);
                    pieces.push(String::new());
                    holes.push(f);
                    rest = &rest[i + 3..];
                }
            }
        }
        pieces.last_mut().unwrap().push_str(rest);
        if holes.iter().any(|h| h.is_empty()) {
            continue;
        }
        let total: usize = holes.iter().map(|h| h.len()).fold(1usize, |a, b| a.saturating_mul(b));
        let build = |idx: &[usize]| {
            let mut s = pieces[0].clone();
            for (k, h) in holes.iter().enumerate() {
                s += &h[idx[k]];
                s += &pieces[k + 1];
            }
            s
        };
        if total <= budget {
            let mut idx = vec![0usize; holes.len()];
            loop {
                out.push(build(&idx));
                let mut k = holes.len();
                loop {
                    if k == 0 {
                        break;
                    }
                    k -= 1;
                    idx[k] += 1;
                    if idx[k] < holes[k].len() {
                        break;
                    }
                    idx[k] = 0;
                    if k == 0 {
                        k = usize::MAX;
                        break;
                    }
                }
                if k == usize::MAX || holes.is_empty() {
                    break;
                }
            }
        } else {
            for _ in 0..budget {
                let idx: Vec<usize> = holes.iter().map(|h| rng.below(h.len())).collect();
                out.push(build(&idx));
            }
        }
    }
}

thread_local! { static THOROUGH: std::cell::Cell<bool> = const { std::cell::Cell::new(false) }; }

pub fn generate(args: &Args) -> Vec<String> {
    let thorough = args.tier == "thorough";
    THOROUGH.with(|t| t.set(thorough));
    let mut rng = Rng::new(args.seed);
    let budget = if thorough { 40_000 } else { 1_500 };
    let mut srcs: Vec<String> = vec![];
    let v = |xs: &[&str]| xs.iter().map(|s| s.to_string()).collect::<Vec<String>>();
    // depth 0 and 1: every template over every leaf (complete when within the per-template budget)
    let leaves = v(if thorough { LEAVES } else { LEAVES_SMALL });
    let pats0: Vec<String> = PATS.iter().filter(|p| !p.contains("{P}")).map(|s| s.to_string()).collect();
    srcs.extend(leaves.iter().cloned());
    let mut stmts0 = vec![];
    exhaustive(STMTS, &leaves[..4], &pats0[..6], &v(&["f();"]), 400, &mut rng, &mut stmts0);
    let mut pats1 = vec![];
    exhaustive(PATS, &[], &pats0, &[], 200, &mut rng, &mut pats1);
    exhaustive(EXPRS, &leaves, &pats1, &stmts0, budget, &mut rng, &mut srcs);
    // depth 2: every template over depth-1 expressions built from a reduced leaf set
    let mut d1s = vec![];
    exhaustive(EXPRS, &v(&["1", "x", "f()", "|y| f(y)"]), &v(&["x", "m!()", "ref mut x"]), &v(&["f();", "let x = 1;", "let m!(): T = 1;"]), 300, &mut rng, &mut d1s);
    exhaustive(EXPRS, &d1s, &v(&["x", "&m!()", "(a, m!())"]), &v(&["f();", "let x: T = 1;", "x"]), budget, &mut rng, &mut srcs);
    // random deep expressions
    let n = if thorough { 300_000 } else { 20_000 };
    for _ in 0..n {
        let d = 2 + rng.below(5);
        srcs.push(gen_expr(&mut rng, d, LEAVES));
    }
    srcs
}

// ---------- the `view!` proc-macro itself, applied at compile time (the classifier above drives the code generator
// directly; what the macro ENTRY POINT does with an invocation is only visible through an expansion): a handful of
// invocations around one interpolation, rendered on the server in hydration mode, where a reactive closure leaves
// markers (`<!--/-->…<!--/-->`, or `<!--t-->…<!-->` for a String) and a static value leaves none
fn macro_sites() -> Vec<(&'static str, &'static str, fn() -> String)> {
    use sycamore::prelude::*;
    fn twice(x: i32) -> i32 { x * 2 }
    // a wrapper that forwards an `expr` fragment: the proc-macro receives it as an invisible group
    macro_rules! field { ($label:expr, $value:expr) => { view! { p { ($label) ": " ($value) } } }; }
    macro_rules! plus_one { ($value:expr) => { view! { ($value + 1) } }; }
    vec![
        ("a macro_rules wrapper forwards the interpolated expression", "__group!(count.get())", || sycamore::web::render_to_string(|| { let count = create_signal(7); field!("count", count.get()) })),
        ("a macro_rules wrapper forwards an operand", "__group!(count.get()) + 1", || sycamore::web::render_to_string(|| { let count = create_signal(7); plus_one!(count.get()) })),
        ("a macro_rules wrapper forwards a literal", "__group!(7)", || sycamore::web::render_to_string(|| field!("seven", 7))),
        ("the whole invocation is one interpolation", "count.get()", || sycamore::web::render_to_string(|| { let count = create_signal(7); view! { (count.get()) } })),
        ("one interpolation, a function call", "twice(n)", || sycamore::web::render_to_string(|| { let n = 3; view! { (twice(n)) } })),
        ("one interpolation, a macro", "format!(\"{}\", n)", || sycamore::web::render_to_string(|| { let n = 3; view! { (format!("{}", n)) } })),
        ("interpolation followed by text", "count.get()", || sycamore::web::render_to_string(|| { let count = create_signal(7); view! { (count.get()) "!" } })),
        ("interpolation inside an element", "count.get()", || sycamore::web::render_to_string(|| { let count = create_signal(7); view! { p { (count.get()) } } })),
        ("two interpolations", "count.get()", || sycamore::web::render_to_string(|| { let count = create_signal(7); view! { (count.get()) (count.get()) } })),
        ("one interpolation, a literal", "7", || sycamore::web::render_to_string(|| view! { (7) })),
        ("one interpolation, a path", "n", || sycamore::web::render_to_string(|| { let n = 7; view! { (n) } })),
    ]
}

pub fn run(args: &Args) {
    let mut sink = Sink::new(&args.out, "isdyn");
    // corpus / replay files for this engine hold SOURCE TEXT lines prefixed with `isdyn src `
    let (corpus, only) = crate::corpus_lines(args);
    let mut srcs: Vec<String> = corpus.iter().filter_map(|l| l.strip_prefix("isdyn src ").map(|s| s.to_string())).collect();
    sink.note("corpus_cases", srcs.len());
    if !only {
        srcs.extend(generate(args));
    }
    let mut unparsable = 0u64;
    let mut side = String::new();
    for s in &srcs {
        match exec_src(s) {
            None => unparsable += 1,
            Some((case, obs, verdict, nt)) => {
                let root = case.split(|c| c == '(' || c == ' ' || c == ')').nth(3).unwrap_or("?").to_string();
                sink.count(&format!("root:{root}"));
                sink.count(&format!("result:{}", if obs.starts_with("mixed") { "mixed" } else { &obs }));
                side += s;
                side.push('\n');
                sink.case(&case, &obs, verdict, nt);
            }
        }
    }
    if !only {
        for (site, src, render) in macro_sites() {
            let e: Expr = parse_src(src).expect("macro site source");
            let ce = contains_eval(&e);
            let (obs, verdict) = match catch(render) {
                Ok(html) => {
                    let dynamic = html.contains("<!--/-->") || html.contains("<!--t-->");
                    (if dynamic { "dyn" } else { "static" }.to_string(),
                     if ce && !dynamic { Some(format!("[static-with-eval] view! expansion ({site}): `{src}` contains an evaluation outside closures but the expansion holds no reactive closure (server output `{html}`)")) } else { None })
                }
                Err(m) => ("panic".into(), Some(format!("[codegen-panic] view! expansion ({site}) panicked when rendered: {m}"))),
            };
            side += src;
            side.push('\n');
            sink.count("macro-expansion-site");
            sink.case(&format!("isdyn classify {}", ex(&e)), &obs, verdict, true);
        }
    }
    sink.note("generated_sources_rejected_by_syn", unparsable);
    std::fs::write(args.out.join("isdyn.src"), side).unwrap();
    sink.finish();
}
