//! Shared helpers: PRNG, output files, stats.
use std::collections::{BTreeMap, HashSet};
use std::fs::File;
use std::io::{BufWriter, Write};
use std::path::PathBuf;

/// SplitMix64: every random choice of a run derives from one state.
pub struct Rng(pub u64);
impl Rng {
    pub fn new(seed: u64) -> Self {
        Rng(seed.wrapping_mul(0x9E3779B97F4A7C15) ^ 0xD1B54A32D192ED03)
    }
    pub fn next(&mut self) -> u64 {
        self.0 = self.0.wrapping_add(0x9E3779B97F4A7C15);
        let mut z = self.0;
        z = (z ^ (z >> 30)).wrapping_mul(0xBF58476D1CE4E5B9);
        z = (z ^ (z >> 27)).wrapping_mul(0x94D049BB133111EB);
        z ^ (z >> 31)
    }
    pub fn below(&mut self, n: usize) -> usize {
        if n == 0 { 0 } else { (self.next() % n as u64) as usize }
    }
    pub fn range(&mut self, lo: i64, hi: i64) -> i64 {
        lo + (self.next() % ((hi - lo + 1) as u64)) as i64
    }
    pub fn chance(&mut self, num: u64, den: u64) -> bool {
        self.next() % den < num
    }
    pub fn pick<'a, T>(&mut self, xs: &'a [T]) -> &'a T {
        &xs[self.below(xs.len())]
    }
}

pub struct Args {
    pub engine: String,
    pub tier: String,
    pub seed: u64,
    pub out: PathBuf,
    pub extra: Vec<String>,
}

// ---- watchdog: an implementation that never comes back from a case (a future that is never woken, a
// stream that never ends, a loop) must not hang the check: after `VERIF_CASE_TIMEOUT` seconds (default 120)
// without progress the engine writes `<out>/<engine>.hang` (the case it is in) and exits with code 3
static PROGRESS: std::sync::Mutex<Option<(String, std::time::Instant, bool)>> = std::sync::Mutex::new(None);

/// the engine is about to run `case`
pub fn begin_case(case: &str) {
    *PROGRESS.lock().unwrap() = Some((case.to_string(), std::time::Instant::now(), true));
}
/// the same for engines whose cases can take the whole process down (a panic inside a destructor during an unwind
/// aborts): the case is also left in `<out>/<engine>.current`, so that the check can name it
pub fn begin_case_logged(case: &str, out: &PathBuf, engine: &str) {
    begin_case(case);
    let _ = std::fs::write(out.join(format!("{engine}.current")), case);
}
fn end_case(case: &str) {
    *PROGRESS.lock().unwrap() = Some((case.to_string(), std::time::Instant::now(), false));
}
pub fn start_watchdog(out: &PathBuf, engine: &str) {
    let limit: u64 = std::env::var("VERIF_CASE_TIMEOUT").ok().and_then(|v| v.parse().ok()).unwrap_or(120);
    let (out, engine) = (out.clone(), engine.to_string());
    end_case("(start of the engine)");
    std::thread::spawn(move || loop {
        std::thread::sleep(std::time::Duration::from_millis(500));
        let g = PROGRESS.lock().unwrap();
        if let Some((case, at, running)) = &*g {
            if at.elapsed().as_secs() >= limit {
                let _ = std::fs::create_dir_all(&out);
                let what = if *running { format!("in\t{case}") } else { format!("after\t{case}") };
                let _ = std::fs::write(out.join(format!("{engine}.hang")), format!("{limit}\t{what}\n"));
                std::process::exit(3);
            }
        }
    });
}

/// One engine run writes `<out>/<name>.cases|impl|oracle|stats.json`.
/// `cases`: protocol lines for the Lean driver; `impl`: one observation line per case line;
/// `oracle`: one line per case, `ok` or `FAIL <why>` (implementation judged against the spec alone).
pub struct Sink {
    pub name: String,
    dir: PathBuf,
    cases: BufWriter<File>,
    imp: BufWriter<File>,
    oracle: BufWriter<File>,
    pub n: u64,
    pub fails: u64,
    seen: HashSet<u64>,
    pub distinct_nontrivial: u64,
    pub dist: BTreeMap<String, u64>,
    pub samples: Vec<String>,
    pub notes: BTreeMap<String, String>,
}

fn fnv(s: &str) -> u64 {
    let mut h = 0xcbf29ce484222325u64;
    for b in s.bytes() {
        h ^= b as u64;
        h = h.wrapping_mul(0x100000001b3);
    }
    h
}

impl Sink {
    pub fn new(dir: &PathBuf, name: &str) -> Self {
        std::fs::create_dir_all(dir).unwrap();
        let f = |ext: &str| BufWriter::new(File::create(dir.join(format!("{name}.{ext}"))).unwrap());
        Sink {
            name: name.to_string(),
            dir: dir.clone(),
            cases: f("cases"),
            imp: f("impl"),
            oracle: f("oracle"),
            n: 0,
            fails: 0,
            seen: HashSet::new(),
            distinct_nontrivial: 0,
            dist: BTreeMap::new(),
            samples: Vec::new(),
            notes: BTreeMap::new(),
        }
    }
    /// Record one case. `case` is the driver request line, `obs` the implementation's canonical
    /// observation, `verdict` the implementation-side oracle (`None` = ok).
    pub fn case(&mut self, case: &str, obs: &str, verdict: Option<String>, nontrivial: bool) {
        debug_assert!(!case.contains('\n') && !obs.contains('\n'));
        end_case(case);
        writeln!(self.cases, "{case}").unwrap();
        writeln!(self.imp, "{obs}").unwrap();
        match &verdict {
            None => writeln!(self.oracle, "ok").unwrap(),
            Some(w) => {
                self.fails += 1;
                writeln!(self.oracle, "FAIL {}", w.replace('\n', " ")).unwrap()
            }
        }
        self.n += 1;
        if nontrivial && self.seen.insert(fnv(case)) {
            self.distinct_nontrivial += 1;
            let k = self.distinct_nontrivial;
            if k <= 3 || (k.is_power_of_two() && self.samples.len() < 12) {
                self.samples.push(format!("{case}  =>  {obs}"));
            }
        }
    }
    pub fn count(&mut self, key: &str) {
        *self.dist.entry(key.to_string()).or_insert(0) += 1;
    }
    pub fn note(&mut self, key: &str, v: impl ToString) {
        self.notes.insert(key.to_string(), v.to_string());
    }
    pub fn finish(mut self) {
        self.cases.flush().unwrap();
        self.imp.flush().unwrap();
        self.oracle.flush().unwrap();
        let mut s = String::from("{");
        s += &format!("\"engine\":{:?},\"evaluations\":{},\"oracle_failures\":{},\"distinct_nontrivial\":{},",
            self.name, self.n, self.fails, self.distinct_nontrivial);
        s += "\"distribution\":{";
        s += &self.dist.iter().map(|(k, v)| format!("{k:?}:{v}")).collect::<Vec<_>>().join(",");
        s += "},\"notes\":{";
        s += &self.notes.iter().map(|(k, v)| format!("{k:?}:{v:?}")).collect::<Vec<_>>().join(",");
        s += "},\"samples\":[";
        s += &self.samples.iter().map(|x| format!("{x:?}")).collect::<Vec<_>>().join(",");
        s += "]}";
        std::fs::write(self.dir.join(format!("{}.stats.json", self.name)), s).unwrap();
    }
}

/// Run `f` catching panics; the panic message is returned on failure. The default panic hook is
/// silenced by `main`.
thread_local! { pub static IN_CATCH: std::cell::Cell<u32> = const { std::cell::Cell::new(0) }; }

pub fn catch<T>(f: impl FnOnce() -> T) -> Result<T, String> {
    IN_CATCH.with(|c| c.set(c.get() + 1));
    let r = std::panic::catch_unwind(std::panic::AssertUnwindSafe(f));
    IN_CATCH.with(|c| c.set(c.get() - 1));
    match r {
        Ok(v) => Ok(v),
        Err(e) => Err(if let Some(s) = e.downcast_ref::<&str>() {
            s.to_string()
        } else if let Some(s) = e.downcast_ref::<String>() {
            s.clone()
        } else {
            "non-string panic".to_string()
        }),
    }
}

/// code points `a.b.c`, empty string = `e`
pub fn enc(s: &str) -> String {
    if s.is_empty() {
        "e".into()
    } else {
        s.chars().map(|c| (c as u32).to_string()).collect::<Vec<_>>().join(".")
    }
}
pub fn enc_list<S: AsRef<str>>(l: &[S]) -> String {
    if l.is_empty() {
        "-".into()
    } else {
        l.iter().map(|s| enc(s.as_ref())).collect::<Vec<_>>().join(",")
    }
}
