//! E5 "num" (C19): Lerp::lerp for integers/floats/arrays and the easing functions.
use crate::util::*;
use sycamore::easing;
use sycamore::motion::Lerp;

const M: u64 = 18446744073709551557;
fn digest(acc: u64, v: u64) -> u64 {
    ((acc as u128 * 31 + v as u128) % M as u128) as u64
}

type Ease = fn(f32) -> f32;
pub fn ease_table() -> Vec<(&'static str, Ease)> {
    macro_rules! t { ($($n:ident),*) => { vec![$((stringify!($n), easing::$n as Ease)),*] } }
    t!(linear, quad_in, quad_out, quad_inout, cubic_in, cubic_out, cubic_inout, quart_in, quart_out,
       quart_inout, quint_in, quint_out, quint_inout, circ_in, circ_out, circ_inout, expo_in, expo_out,
       expo_inout, sine_in, sine_out, sine_inout, bounce_in, bounce_out, bounce_inout)
}

macro_rules! int_lerp {
    ($ty:ty, $a:expr, $b:expr, $t:expr) => {{
        let (a, b) = ($a as $ty, $b as $ty);
        catch(move || a.lerp(&b, $t) as i128)
    }};
}

/// run the real lerp; Err = panic message
fn lerp_int(ty: &str, a: i128, b: i128, t: f32) -> Result<i128, String> {
    match ty {
        "i8" => int_lerp!(i8, a, b, t),
        "u8" => int_lerp!(u8, a, b, t),
        "i16" => int_lerp!(i16, a, b, t),
        "u16" => int_lerp!(u16, a, b, t),
        "i32" => int_lerp!(i32, a, b, t),
        "u32" => int_lerp!(u32, a, b, t),
        "i64" => int_lerp!(i64, a, b, t),
        "u64" => int_lerp!(u64, a, b, t),
        "isize" => int_lerp!(isize, a, b, t),
        "usize" => int_lerp!(usize, a, b, t),
        "i128" => int_lerp!(i128, a, b, t),
        "u128" => {
            let (a, b) = (a as u128, b as u128);
            catch(move || a.lerp(&b, t) as i128)
        }
        _ => Err("bad type".into()),
    }
}

fn range(ty: &str) -> (i128, i128) {
    match ty {
        "i8" => (i8::MIN as i128, i8::MAX as i128),
        "u8" => (0, u8::MAX as i128),
        "i16" => (i16::MIN as i128, i16::MAX as i128),
        "u16" => (0, u16::MAX as i128),
        "i32" => (i32::MIN as i128, i32::MAX as i128),
        "u32" => (0, u32::MAX as i128),
        "i64" | "isize" => (i64::MIN as i128, i64::MAX as i128),
        "u64" | "usize" => (0, u64::MAX as i128),
        "i128" => (i128::MIN, i128::MAX),
        _ => (0, i128::MAX),
    }
}

/// the property's own claims, judged on the real result
fn lerp_oracle(a: i128, b: i128, t: f32, r: &Result<i128, String>) -> Option<String> {
    match r {
        Err(m) => Some(format!("[lerp-panic] lerp({a}, {b}, {t}) panicked: {m}")),
        Ok(v) => {
            let exact = a.unsigned_abs() <= 1 << 23 && b.unsigned_abs() <= 1 << 23;
            if !exact || !(0.0..=1.0).contains(&t) {
                return None;
            }
            if t == 0.0 && *v != a {
                return Some(format!("[lerp-endpoint] lerp({a}, {b}, 0) = {v}"));
            }
            if t == 1.0 && *v != b {
                return Some(format!("[lerp-endpoint] lerp({a}, {b}, 1) = {v}"));
            }
            if *v < a.min(b) || *v > a.max(b) {
                return Some(format!("[lerp-range] lerp({a}, {b}, {t}) = {v} is outside [{}, {}]", a.min(b), a.max(b)));
            }
            None
        }
    }
}

fn ease_oracle(name: &str, t: f32, v: f32) -> Option<String> {
    if !v.is_finite() {
        return Some(format!("[ease-nonfinite] {name}({t:e}) = {v}"));
    }
    if t == 0.0 && v.abs() > 1e-5 {
        return Some(format!("[ease-endpoint] {name}(0) = {v}"));
    }
    if t == 1.0 && (v - 1.0).abs() > 1e-5 {
        return Some(format!("[ease-endpoint] {name}(1) = {v}"));
    }
    None
}

pub fn exec(line: &str) -> (String, Option<String>, bool) {
    let t: Vec<&str> = line.split(' ').collect();
    match t[1] {
        "lerp" => {
            let (ty, a, b) = (t[2], t[3].parse::<i128>().unwrap(), t[4].parse::<i128>().unwrap());
            let s = f32::from_bits(t[5].parse().unwrap());
            let r = lerp_int(ty, a, b, s);
            let v = lerp_oracle(a, b, s, &r);
            (match &r { Ok(v) => v.to_string(), Err(_) => "panic".into() }, v, a != b && s > 0.0 && s < 1.0)
        }
        "lerparr" => {
            let p = |s: &str| s.split(',').map(|x| x.parse::<i128>().unwrap()).collect::<Vec<_>>();
            let (ty, a, b) = (t[2], p(t[3]), p(t[4]));
            let s = f32::from_bits(t[5].parse().unwrap());
            assert!(ty == "i32" && a.len() == 3);
            let (aa, bb) = ([a[0] as i32, a[1] as i32, a[2] as i32], [b[0] as i32, b[1] as i32, b[2] as i32]);
            let r = catch(move || aa.lerp(&bb, s));
            match r {
                Ok(v) => {
                    let mut verdict = None;
                    for i in 0..3 {
                        verdict = verdict.or(lerp_oracle(a[i], b[i], s, &Ok(v[i] as i128)));
                    }
                    (v.iter().map(|x| x.to_string()).collect::<Vec<_>>().join(","), verdict, true)
                }
                Err(m) => ("panic".into(), Some(format!("[lerp-panic] array lerp panicked: {m}")), true),
            }
        }
        "flerp" => {
            // float impls: never panic for ANY pair of values (NaN, infinities included); the value is compared with the model
            let s = f32::from_bits(t[5].parse().unwrap());
            let r = if t[2] == "f32" {
                let (a, b) = (f32::from_bits(t[3].parse().unwrap()), f32::from_bits(t[4].parse().unwrap()));
                catch(move || a.lerp(&b, s)).map(|v| if v.is_nan() { "nan".to_string() } else { v.to_bits().to_string() })
            } else {
                let (a, b) = (f64::from_bits(t[3].parse().unwrap()), f64::from_bits(t[4].parse().unwrap()));
                catch(move || a.lerp(&b, s)).map(|v| if v.is_nan() { "nan".to_string() } else { v.to_bits().to_string() })
            };
            match r {
                Ok(v) => (v, None, true),
                Err(m) => ("panic".into(), Some(format!("[lerp-panic] {} lerp(bits {}, bits {}, {s}) panicked: {m}", t[2], t[3], t[4])), true),
            }
        }
        "flerparr" => {
            let p = |s: &str| s.split(',').map(|x| f32::from_bits(x.parse::<u32>().unwrap())).collect::<Vec<_>>();
            let (a, b) = (p(t[2]), p(t[3]));
            let s = f32::from_bits(t[4].parse().unwrap());
            let (aa, bb) = ([a[0], a[1], a[2]], [b[0], b[1], b[2]]);
            match catch(move || aa.lerp(&bb, s)) {
                Ok(v) => (v.iter().map(|x| if x.is_nan() { "nan".to_string() } else { x.to_bits().to_string() }).collect::<Vec<_>>().join(","), None, true),
                Err(m) => ("panic".into(), Some(format!("[lerp-panic] [f32; 3] lerp({a:?}, {b:?}, {s}) panicked: {m}")), true),
            }
        }
        "lerpgrid" => {
            let (ty, a, k) = (t[2], t[3].parse::<i128>().unwrap(), t[4].parse::<u32>().unwrap());
            let (lo, hi) = range(ty);
            let mut acc = 0u64;
            let mut verdict = None;
            let mut panics = 0;
            for b in lo..=hi {
                for j in 0..=k {
                    let s = j as f32 / k as f32;
                    let r = lerp_int(ty, a, b, s);
                    if verdict.is_none() {
                        verdict = lerp_oracle(a, b, s, &r);
                    }
                    match r {
                        Ok(v) => acc = digest(acc, (v - lo) as u64),
                        Err(_) => panics += 1,
                    }
                }
            }
            (if panics > 0 { format!("panics={panics}") } else { acc.to_string() }, verdict, true)
        }
        "ease" => {
            let name = t[2];
            let f = ease_table().into_iter().find(|(n, _)| *n == name).unwrap().1;
            let x = f32::from_bits(t[3].parse().unwrap());
            match catch(|| f(x)) {
                Ok(v) => (v.to_bits().to_string(), ease_oracle(name, x, v), x > 0.0 && x < 1.0),
                Err(m) => ("panic".into(), Some(format!("[ease-panic] {name}({x}) panicked: {m}")), true),
            }
        }
        "easegrid" | "easerange" => {
            let name = t[2];
            let f = ease_table().into_iter().find(|(n, _)| *n == name).unwrap().1;
            let mut acc = 0u64;
            let mut nonfinite = 0u64;
            let mut verdict = None;
            let mut step = |x: f32| {
                let v = f(x);
                if verdict.is_none() {
                    verdict = ease_oracle(name, x, v);
                }
                if !v.is_finite() {
                    nonfinite += 1;
                }
                acc = digest(acc, v.to_bits() as u64);
            };
            if t[1] == "easegrid" {
                let n: u32 = t[3].parse().unwrap();
                for i in 0..=n {
                    step(i as f32 / n as f32);
                }
            } else {
                let (from, count, st): (u64, u64, u64) = (t[3].parse().unwrap(), t[4].parse().unwrap(), t[5].parse().unwrap());
                for i in 0..count {
                    step(f32::from_bits((from + i * st) as u32));
                }
            }
            (format!("{acc} nonfinite={nonfinite}"), verdict, true)
        }
        _ => ("bad-op".into(), None, false),
    }
}

/// Implementation-only sweeps (no model counterpart): every f32 in [0,1] for every easing function
/// (thorough), wide integer types, floats. Returns failures.
fn impl_only(args: &Args, sink: &mut Sink) {
    let thorough = args.tier == "thorough";
    let mut rng = Rng::new(args.seed ^ 0x5151);
    // wide types: no panic anywhere, exact claims when |a|,|b| <= 2^23
    let tys = ["i16", "u16", "i32", "u32", "i64", "u64", "isize", "usize", "i128", "u128"];
    let n = if thorough { 2_000_000 } else { 200_000 };
    let mut fails: Vec<String> = vec![];
    let mut count = 0u64;
    for i in 0..n {
        let ty = tys[i % tys.len()];
        let (lo, hi) = range(ty);
        let pickv = |rng: &mut Rng| -> i128 {
            match rng.below(6) {
                0 => lo,
                1 => hi,
                2 => (rng.range(-(1 << 23), 1 << 23) as i128).clamp(lo, hi),
                3 => [0i128, 1, -1, 1 << 23, -(1 << 23), (1 << 23) + 1, 1 << 24, (1 << 24) + 1][rng.below(8)].clamp(lo, hi),
                4 => ((rng.next() as i128) << 64 | rng.next() as i128).clamp(lo, hi),
                _ => (rng.next() as i64 as i128).clamp(lo, hi),
            }
        };
        let (a, b) = (pickv(&mut rng), pickv(&mut rng));
        let s = match rng.below(5) {
            0 => 0.0,
            1 => 1.0,
            2 => 0.5,
            _ => (rng.next() >> 40) as f32 / (1u64 << 24) as f32,
        };
        let r = lerp_int(ty, a, b, s);
        count += 1;
        if let Some(f) = lerp_oracle(a, b, s, &r) {
            if fails.len() < 20 {
                fails.push(format!("{ty}: {f}"));
            }
        }
    }
    // floats: never panic, endpoints for finite inputs
    for _ in 0..n / 10 {
        let a = f32::from_bits(rng.next() as u32);
        let b = f32::from_bits(rng.next() as u32);
        let s = (rng.next() >> 40) as f32 / (1u64 << 24) as f32;
        count += 1;
        if let Err(m) = catch(|| (a.lerp(&b, s), (a as f64).lerp(&(b as f64), s))) {
            fails.push(format!("[lerp-panic] float lerp({a}, {b}, {s}) panicked: {m}"));
        }
    }
    sink.note("impl_only_lerp_cases", count);
    // easing: every f32 in [0,1] (thorough) or 2^20+1 grid + 2^22 random bit patterns (quick)
    let table = ease_table();
    let total = 0x3F80_0000u32 as u64 + 1;
    let mut evals = 0u64;
    let results: Vec<(String, u64, Option<String>)> = std::thread::scope(|sc| {
        let hs: Vec<_> = table
            .iter()
            .map(|(name, f)| {
                let (name, f) = (*name, *f);
                sc.spawn(move || {
                    let mut first = None;
                    let mut n = 0u64;
                    let mut chk = |x: f32| {
                        let v = f(x);
                        n += 1;
                        if first.is_none() {
                            first = ease_oracle(name, x, v);
                        }
                    };
                    if thorough {
                        for bits in 0..total {
                            chk(f32::from_bits(bits as u32));
                        }
                    } else {
                        for i in 0..=(1u32 << 20) {
                            chk(i as f32 / (1u32 << 20) as f32);
                        }
                        let mut s = 0x9E3779B97F4A7C15u64;
                        for _ in 0..(1u32 << 22) {
                            s = s.wrapping_mul(6364136223846793005).wrapping_add(1442695040888963407);
                            chk(f32::from_bits(((s >> 33) % total) as u32));
                        }
                    }
                    (name.to_string(), n, first)
                })
            })
            .collect();
        hs.into_iter().map(|h| h.join().unwrap()).collect()
    });
    for (_, n, f) in results {
        evals += n;
        if let Some(f) = f {
            fails.push(f);
        }
    }
    sink.note("impl_only_easing_evals", evals);
    sink.note("impl_only_easing_exhaustive_f32_unit_interval", thorough);
    for (i, f) in fails.iter().enumerate() {
        // impl-only failures are recorded as pseudo-cases so that the orchestrator reports them
        sink.case(&format!("num noop {i}"), "bad-op", Some(f.clone()), false);
    }
}

pub fn generate(args: &Args) -> Vec<String> {
    let thorough = args.tier == "thorough";
    let mut rng = Rng::new(args.seed);
    let mut l = vec![];
    let scalars: Vec<f32> = vec![0.0, 1.0, 0.5, 0.25, 1.0 / 3.0, 1.0 / 256.0, 255.0 / 256.0, 0.999_999_94, f32::MIN_POSITIVE];
    // (1) exhaustive 8-bit pairs × scalars (per-case lines, so a divergence is pinpointed)
    let ns = if thorough { scalars.len() } else { 4 };
    for ty in ["u8", "i8"] {
        let (lo, hi) = range(ty);
        for a in lo..=hi {
            for b in lo..=hi {
                for s in &scalars[..ns] {
                    l.push(format!("num lerp {ty} {a} {b} {}", s.to_bits()));
                }
            }
        }
    }
    // (2) 8-bit grids: all targets × scalars j/k as a digest
    for ty in ["u8", "i8"] {
        let (lo, hi) = range(ty);
        let k = if thorough { 256 } else { 16 };
        for a in lo..=hi {
            l.push(format!("num lerpgrid {ty} {a} {k}"));
        }
    }
    // (3) wider types, boundary and random (model covers ≤ 64 bit)
    let n = if thorough { 400_000 } else { 60_000 };
    let tys = ["i16", "u16", "i32", "u32", "i64", "u64"];
    for i in 0..n {
        let ty = tys[i % tys.len()];
        let (lo, hi) = range(ty);
        let pickv = |rng: &mut Rng| -> i128 {
            match rng.below(5) {
                0 => [lo, hi, 0, 1, -1, 1 << 23, -(1 << 23), (1 << 24) + 1, hi - 1, lo + 1][rng.below(10)].clamp(lo, hi),
                1 | 2 => (rng.range(-(1 << 23), 1 << 23) as i128).clamp(lo, hi),
                _ => (rng.next() as i64 as i128).clamp(lo, hi),
            }
        };
        let (a, b) = (pickv(&mut rng), pickv(&mut rng));
        let s = match rng.below(4) {
            0 => *rng.pick(&scalars),
            _ => (rng.next() >> 40) as f32 / (1u64 << 24) as f32,
        };
        l.push(format!("num lerp {ty} {a} {b} {}", s.to_bits()));
    }
    // (3b) equal or nearly equal values of large magnitude (up to the 2^23 bound): the interpolated value
    // has nowhere to go, so any formula that is not exact at `a == b` shows here
    for i in 0..n / 3 {
        let ty = ["i32", "u32", "i64", "u64", "i16", "u16"][i % 6];
        let (lo, hi) = range(ty);
        let top: i64 = if ty.ends_with("16") { hi as i64 } else { 1 << 23 };
        let a = (top - rng.range(0, top / 2)) * if lo < 0 && rng.chance(1, 2) { -1 } else { 1 };
        let b = (a + rng.range(-3, 3)).clamp((lo as i64).max(-(1 << 23)), (hi as i128).min(1 << 23) as i64);
        // scalars: decimal fractions and arbitrary f32 bit patterns of [0,1) (1 - t is then inexact in f32)
        let s = match rng.below(4) {
            0 => *rng.pick(&[0.1f32, 0.2, 0.252, 0.3, 0.7, 0.9, 0.999, 1.0 / 3.0, 0.6]),
            1 => *rng.pick(&scalars),
            _ => f32::from_bits((rng.next() % 0x3F80_0000) as u32),
        };
        l.push(format!("num lerp {ty} {a} {b} {}", s.to_bits()));
    }
    // (3b') the edge of the exact range itself: every pair within distance 3 of ±2^23 (and of ±2^22, ±2^24), every scalar
    for ty in ["i32", "u32", "i64", "u64"] {
        let (lo, hi) = range(ty);
        for edge in [1i128 << 23, -(1i128 << 23), 1 << 22, -(1i128 << 22), 1 << 24] {
            for da in -3i128..=3 {
                for db in -3i128..=3 {
                    let (a, b) = (edge + da, edge + db);
                    if a < lo || a > hi || b < lo || b > hi { continue; }
                    for s in &scalars { l.push(format!("num lerp {ty} {a} {b} {}", s.to_bits())); }
                }
            }
        }
    }
    for _ in 0..n / 10 {
        let v: Vec<i64> = (0..6).map(|_| rng.range(-(1 << 23), 1 << 23)).collect();
        let s = (rng.next() >> 40) as f32 / (1u64 << 24) as f32;
        l.push(format!("num lerparr i32 {},{},{} {},{},{} {}", v[0], v[1], v[2], v[3], v[4], v[5], s.to_bits()));
    }
    // (3c) float impls: the full cross product of special values (NaNs of both signs, infinities, zeros, extremes,
    // subnormals) with the special scalars, then random bit patterns
    let sp32: Vec<f32> = vec![f32::NAN, -f32::NAN, f32::from_bits(0x7F80_0001), f32::INFINITY, f32::NEG_INFINITY, 0.0, -0.0, 1.0, -1.0, f32::MAX, f32::MIN,
        f32::MIN_POSITIVE, -f32::MIN_POSITIVE, f32::from_bits(1), f32::from_bits(0x8000_0001), 16_777_216.0, -16_777_217.0, 0.1, 1e30, -1e30];
    for a in &sp32 {
        for b in &sp32 {
            for s in [0.0f32, 1.0, 0.5, 1.0 / 3.0, f32::MIN_POSITIVE, 0.999_999_94] {
                l.push(format!("num flerp f32 {} {} {}", a.to_bits(), b.to_bits(), s.to_bits()));
                l.push(format!("num flerp f64 {} {} {}", (*a as f64).to_bits(), (*b as f64).to_bits(), s.to_bits()));
            }
        }
    }
    for (a, b) in [(f64::MAX, f64::MIN), (f64::MIN_POSITIVE, -f64::MIN_POSITIVE), (f64::from_bits(1), f64::MAX), (1e308, -1e308), (f64::NAN, f64::NAN), (-f64::NAN, f64::INFINITY)] {
        for s in [0.0f32, 1.0, 0.5, 1.0 / 3.0] {
            l.push(format!("num flerp f64 {} {} {}", a.to_bits(), b.to_bits(), s.to_bits()));
        }
    }
    for i in 0..n / 6 {
        let s = match rng.below(4) {
            0 => *rng.pick(&scalars),
            _ => (rng.next() >> 40) as f32 / (1u64 << 24) as f32,
        };
        let mut v32 = |rng: &mut Rng| if rng.chance(1, 4) { *rng.pick(&sp32) } else { f32::from_bits(rng.next() as u32) };
        match i % 3 {
            0 => l.push(format!("num flerp f32 {} {} {}", v32(&mut rng).to_bits(), v32(&mut rng).to_bits(), s.to_bits())),
            1 => {
                let mut v64 = |rng: &mut Rng| if rng.chance(1, 4) { *rng.pick(&sp32) as f64 } else { f64::from_bits(rng.next()) };
                l.push(format!("num flerp f64 {} {} {}", v64(&mut rng).to_bits(), v64(&mut rng).to_bits(), s.to_bits()))
            }
            _ => {
                let v: Vec<u32> = (0..6).map(|_| v32(&mut rng).to_bits()).collect();
                // the same slot special on both sides in a third of the arrays
                let w = if rng.chance(1, 3) { let k = rng.below(3); let mut w = v.clone(); w[3 + k] = w[k]; w } else { v };
                l.push(format!("num flerparr {},{},{} {},{},{} {}", w[0], w[1], w[2], w[3], w[4], w[5], s.to_bits()))
            }
        }
    }
    // (4) easing: endpoints and special points individually, grids as digests
    for (name, _) in ease_table() {
        for x in [0.0f32, 1.0, 0.5, f32::EPSILON, 1.0 - f32::EPSILON, 1.0 / 2.75, 2.0 / 2.75, 2.5 / 2.75, f32::MIN_POSITIVE, 1e-30] {
            l.push(format!("num ease {name} {}", x.to_bits()));
        }
        for _ in 0..200 {
            let x = (rng.next() >> 40) as f32 / (1u64 << 24) as f32;
            l.push(format!("num ease {name} {}", x.to_bits()));
        }
        l.push(format!("num easegrid {name} {}", if thorough { 1 << 20 } else { 1 << 16 }));
        if thorough {
            // every 64th bit pattern of [0,1], in 8 chunks
            let total = (0x3F80_0000u64 + 1) / 64;
            for c in 0..8 {
                l.push(format!("num easerange {name} {} {} 64", c * (total / 8) * 64, total / 8));
            }
        }
    }
    l
}

pub fn run(args: &Args) {
    let mut sink = Sink::new(&args.out, "num");
    let (mut lines, only) = crate::corpus_lines(args);
    sink.note("corpus_cases", lines.len());
    if !only {
        lines.extend(generate(args));
    }
    for l in &lines {
        let (obs, verdict, nt) = exec(l);
        let mut it = l.split(' ');
        let (op, ty) = (it.nth(1).unwrap_or("?"), it.next().unwrap_or("?"));
        sink.count(&format!("op:{op}"));
        if op.starts_with("lerp") || op == "flerp" {
            sink.count(&format!("type:{ty}"));
        }
        if obs.starts_with("panic") {
            sink.count("result:panic");
        }
        sink.case(l, &obs, verdict, nt);
    }
    if !only {
        impl_only(args, &mut sink);
    }
    sink.finish();
}
