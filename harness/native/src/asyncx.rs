//! E7 "async" (C13, C14, C15): suspense boundaries, scoped tasks and resources on a real tokio
//! current-thread executor. Every await point is a oneshot the harness completes; `drain` = yield to the
//! LocalSet until nothing moves.
use crate::util::*;
use futures::channel::oneshot;
use std::cell::RefCell;
use std::rc::Rc;
use sycamore::rt::{create_isomorphic_resource, create_suspense_scope, create_suspense_task, SuspenseScope};
use sycamore_reactive::*;

thread_local! {
    pub static ACTIVE: std::cell::Cell<bool> = const { std::cell::Cell::new(false) };
    pub static PANIC_LOG: RefCell<Vec<String>> = const { RefCell::new(Vec::new()) };
}

#[derive(Clone, Debug)]
enum Item {
    S(Vec<Item>),
    B(Vec<Item>),
    T(usize),
    /// a task with n await points whose body, when it first resumes, disposes the scope it was spawned in (a task that
    /// navigates away, or sets the signal that replaces the view it belongs to): it is aborted WHILE it is being polled
    X(usize),
    /// the shared loading resource number n is read here (under the ambient boundary)
    U(usize),
    /// resource number n is created here (in the current scope, under the ambient boundary)
    R(usize),
    /// a signal created in the current scope (state of an earlier sibling, see `W`); invisible to the model
    G,
    /// a watcher in the current scope: an effect subscribed to the ambient boundary's loading state that reads, whenever
    /// the boundary is not loading, the most recent `G` signal; invisible to the model
    W,
}

thread_local! { static LAST_G: RefCell<Option<Signal<u32>>> = const { RefCell::new(None) }; }

fn parse_items(s: &str) -> Option<Vec<Item>> {
    let toks: Vec<String> = s.replace('(', " ( ").replace(')', " ) ").split_whitespace().map(|x| x.to_string()).collect();
    fn go(t: &[String], i: &mut usize) -> Option<Item> {
        if t.get(*i)? != "(" { return None; }
        *i += 1;
        let head = t.get(*i)?.clone();
        *i += 1;
        let r = match head.as_str() {
            "t" => { let n = t.get(*i)?.parse().ok()?; *i += 1; Item::T(n) }
            "x" => { let n = t.get(*i)?.parse().ok()?; *i += 1; Item::X(n) }
            "u" => { let n = t.get(*i)?.parse().ok()?; *i += 1; Item::U(n) }
            "R" => { let n = t.get(*i)?.parse().ok()?; *i += 1; Item::R(n) }
            "G" => Item::G,
            "W" => Item::W,
            "s" | "b" | "L" => {
                let mut v = vec![];
                while t.get(*i)? != ")" { v.push(go(t, i)?); }
                if head == "b" { Item::B(v) } else { Item::S(v) }
            }
            _ => return None,
        };
        if t.get(*i)? != ")" { return None; }
        *i += 1;
        Some(r)
    }
    let mut i = 0;
    match go(&toks, &mut i)? { Item::S(v) if i == toks.len() => Some(v), _ => None }
}
fn show_items(v: &[Item]) -> String {
    v.iter().map(|i| match i {
        Item::S(c) => format!("(s{})", if c.is_empty() { String::new() } else { format!(" {}", show_items(c)) }),
        Item::B(c) => format!("(b{})", if c.is_empty() { String::new() } else { format!(" {}", show_items(c)) }),
        Item::T(n) => format!("(t {n})"),
        Item::X(n) => format!("(x {n})"),
        Item::U(n) => format!("(u {n})"),
        Item::R(n) => format!("(R {n})"),
        Item::G => "(G)".into(),
        Item::W => "(W)".into(),
    }).collect::<Vec<_>>().join(" ")
}

#[derive(Default)]
struct World {
    scopes: Vec<NodeHandle>,                              // by creation order; 0 = root scope
    scope_parent: Vec<Option<usize>>,
    loading: Vec<(ReadSignal<bool>, usize, Option<usize>)>, // per boundary: selector, inner scope, parent boundary
    task_tx: Vec<Vec<oneshot::Sender<()>>>,               // per task: senders still to fire (reversed)
    task_scope: Vec<usize>,
    task_boundary: Vec<Option<usize>>,
    task_left: Vec<usize>,
    task_cancelled: Vec<bool>,
    polls: Vec<(usize, usize)>,
    dead_scopes: Vec<bool>,
    polls_after_dispose: Vec<(usize, usize)>,
    /// shared resources (created in the root scope before the items): the sender that lets the fetch finish
    res: std::collections::BTreeMap<usize, (sycamore::web::Resource<u32>, Option<oneshot::Sender<()>>)>,
    /// the scope each resource was created in
    res_owner: std::collections::BTreeMap<usize, usize>,
    /// per task-like item: the resource it stands for (reads of a shared resource are counted as tasks)
    task_res: Vec<Option<usize>>,
    /// per boundary: a waiter spawned in the boundary's scope has come back from `until_finished()`
    until: Vec<Rc<std::cell::Cell<bool>>>,
}

fn build(w: &Rc<RefCell<World>>, items: &[Item], cur: usize, ctx: Option<usize>) {
    for it in items {
        match it {
            Item::S(cs) => {
                let id = { let mut ww = w.borrow_mut(); ww.scopes.len() };
                let _ = create_child_scope(|| {
                    { let mut ww = w.borrow_mut(); ww.scopes.push(use_current_scope()); ww.scope_parent.push(Some(cur)); ww.dead_scopes.push(false); }
                    build(w, cs, id, ctx);
                });
            }
            Item::B(cs) => {
                let inner = { let ww = w.borrow(); ww.scopes.len() };
                let b = { let ww = w.borrow(); ww.loading.len() };
                let _ = create_suspense_scope(|| {
                    let me = try_use_context::<SuspenseScope>().expect("suspense scope in context");
                    { let mut ww = w.borrow_mut(); ww.scopes.push(use_current_scope()); ww.scope_parent.push(Some(cur)); ww.dead_scopes.push(false);
                      let sel = me.is_loading(); ww.loading.push((sel, inner, ctx));
                      let done = Rc::new(std::cell::Cell::new(false)); ww.until.push(done.clone());
                      // (scoped: the waiter goes with the boundary's scope)
                      sycamore_futures::spawn_local_scoped(async move { me.until_finished().await; done.set(true); }); }
                    build(w, cs, inner, Some(b));
                });
            }
            Item::T(n) | Item::X(n) => {
                let suicidal = matches!(it, Item::X(_));
                let t = { let ww = w.borrow(); ww.task_tx.len() };
                let mut txs = vec![];
                let mut rxs = vec![];
                for _ in 0..*n { let (tx, rx) = oneshot::channel::<()>(); txs.push(tx); rxs.push(rx); }
                txs.reverse();
                { let mut ww = w.borrow_mut(); ww.task_tx.push(txs); ww.task_scope.push(cur); ww.task_boundary.push(ctx); ww.task_left.push(*n); ww.task_cancelled.push(false); ww.task_res.push(None); }
                let w2 = w.clone();
                let n = *n;
                // the number of the poll in progress: a body that disposes its own scope and runs on to await points that
                // are ready already is still inside the SAME poll (it is not "polled after the disposal")
                let poll_no = Rc::new(std::cell::Cell::new(0usize));
                let pn = poll_no.clone();
                let body = async move {
                    let mut suicide_poll: Option<usize> = None;
                    for (i, rx) in rxs.into_iter().enumerate() {
                        let _ = rx.await;
                        let mut ww = w2.borrow_mut();
                        let left = n - 1 - i;
                        ww.polls.push((t, left));
                        let sc = ww.task_scope[t];
                        if ww.dead_scopes[sc] && suicide_poll != Some(pn.get()) { ww.polls_after_dispose.push((t, left)); }
                        if suicidal && sc != 0 && !ww.dead_scopes[sc] {
                            for s in 0..ww.scopes.len() { if in_subtree(&ww, sc, s) { ww.dead_scopes[s] = true; } }
                            for t2 in 0..ww.task_scope.len() { let s2 = ww.task_scope[t2]; if ww.dead_scopes[s2] && ww.task_left[t2] > 0 { ww.task_cancelled[t2] = true; } }
                            let h = ww.scopes[sc];
                            suicide_poll = Some(pn.get());
                            drop(ww);
                            h.dispose();
                        }
                    }
                };
                let mut body = Box::pin(body);
                create_suspense_task(std::future::poll_fn(move |cx| { poll_no.set(poll_no.get() + 1); std::future::Future::poll(body.as_mut(), cx) }));
            }
            Item::U(n) => {
                let r = w.borrow().res[n].0;
                // any access through `Deref` registers the ambient boundary (a guard while loading)
                let _ = r.get_clone_untracked();
                let mut ww = w.borrow_mut();
                // the guard is held by the resource: it lives in the scope that owns the resource
                let owner = ww.res_owner.get(n).copied().unwrap_or(0);
                ww.task_tx.push(vec![]); ww.task_scope.push(owner); ww.task_boundary.push(ctx); ww.task_left.push(1); ww.task_cancelled.push(false); ww.task_res.push(Some(*n));
            }
            Item::G => { let g = create_signal(0u32); LAST_G.with(|l| *l.borrow_mut() = Some(g)); }
            Item::W => {
                let g = LAST_G.with(|l| *l.borrow());
                if let Some(sc) = try_use_context::<SuspenseScope>() {
                    let loading = sc.is_loading();
                    create_effect(move || { if !loading.get() { if let Some(g) = g { let _ = g.get_untracked(); } } });
                }
            }
            Item::R(n) => {
                let (tx, rx) = oneshot::channel::<()>();
                let mut rx = Some(rx);
                let r = create_isomorphic_resource(move || { let rx = rx.take(); async move { if let Some(rx) = rx { let _ = rx.await; } 42u32 } });
                let mut ww = w.borrow_mut();
                ww.res.insert(*n, (r, Some(tx)));
                ww.res_owner.insert(*n, cur);
                // its fetch is a suspense task of the current scope under the ambient boundary
                ww.task_tx.push(vec![]); ww.task_scope.push(cur); ww.task_boundary.push(ctx); ww.task_left.push(1); ww.task_cancelled.push(false); ww.task_res.push(Some(*n));
            }
        }
    }
}

fn max_res(items: &[Item]) -> usize {
    items.iter().map(|i| match i { Item::S(c) | Item::B(c) => max_res(c), Item::U(n) | Item::R(n) => n + 1, Item::T(_) | Item::X(_) | Item::G | Item::W => 0 }).max().unwrap_or(0)
}
fn declared(items: &[Item], out: &mut Vec<usize>) {
    for i in items { match i { Item::S(c) | Item::B(c) => declared(c, out), Item::R(n) => out.push(*n), _ => {} } }
}

async fn drain() {
    for _ in 0..40 { tokio::task::yield_now().await; }
}

fn observe(w: &World, from: usize) -> String {
    let ls: String = w.loading.iter().map(|(sel, _, _)| if sel.is_alive() { match catch(|| sel.get_untracked()) { Ok(true) => '1', Ok(false) => '0', Err(_) => '!' } } else { 'x' }).collect();
    // which task is polled first within one executor turn is a scheduling detail: listed by task
    let mut polled: Vec<(usize, usize)> = w.polls[from..].to_vec();
    polled.sort_by(|a, b| a.0.cmp(&b.0).then(b.1.cmp(&a.1)));
    let ps = polled.iter().map(|(t, l)| format!("{t}.{l}")).collect::<Vec<_>>().join(",");
    let g = match catch(sycamore::rt::use_is_loading_global) { Ok(true) => "1", Ok(false) => "0", Err(_) => "!" };
    let us: String = w.until.iter().map(|u| if u.get() { '1' } else { '0' }).collect();
    format!("L={ls} G={g} P=[{ps}] U={us}")
}

/// per boundary: is an unfinished, uncancelled task registered at it or at an enclosing boundary (None: its scope is gone)
fn boundary_wants(ww: &World) -> Vec<Option<bool>> {
    (0..ww.loading.len()).map(|b| {
        if ww.dead_scopes[ww.loading[b].1] { return None; }
        let mut chain = vec![b];
        let mut p = ww.loading[b].2;
        while let Some(x) = p { chain.push(x); p = ww.loading[x].2; }
        Some((0..ww.task_left.len()).any(|t| ww.task_left[t] > 0 && !ww.task_cancelled[t] && ww.task_boundary[t].map(|tb| chain.contains(&tb)).unwrap_or(false)))
    }).collect()
}

fn in_subtree(w: &World, anc: usize, mut s: usize) -> bool {
    loop {
        if s == anc { return true; }
        match w.scope_parent[s] { Some(p) => s = p, None => return false }
    }
}

fn run_suspense(items: &[Item], events: &[String]) -> (String, Option<String>) {
    PANIC_LOG.with(|p| p.borrow_mut().clear());
    let rt = tokio::runtime::Builder::new_current_thread().build().unwrap();
    let local = tokio::task::LocalSet::new();
    let mut out = vec![];
    let mut verdict: Option<String> = None;
    local.block_on(&rt, async {
        let w: Rc<RefCell<World>> = Rc::new(RefCell::new(World::default()));
        let root = create_root(|| {});
        root.run_in(|| {
            { let mut ww = w.borrow_mut(); ww.scopes.push(use_current_scope()); ww.scope_parent.push(None); ww.dead_scopes.push(false); }
            let mut decl = vec![];
            declared(items, &mut decl);
            for n in 0..max_res(items) {
                if decl.contains(&n) { continue; } // created by an `(R n)` item, in its own scope
                let (tx, rx) = oneshot::channel::<()>();
                let mut rx = Some(rx);
                let r = create_isomorphic_resource(move || { let rx = rx.take(); async move { if let Some(rx) = rx { let _ = rx.await; } 42u32 } });
                w.borrow_mut().res.insert(n, (r, Some(tx)));
            }
            build(&w, items, 0, None);
        });
        // `n` as first event: no executor turn between the creation and the first group of events (tasks
        // have not been polled yet); `a+b`: the events of a group happen back to back, one executor turn after
        let (no_initial_drain, events): (bool, &[String]) = if events.first().map(|e| e == "n").unwrap_or(false) { (true, &events[1..]) } else { (false, events) };
        if !no_initial_drain { drain().await; }
        out.push(root.run_in(|| observe(&w.borrow(), 0)));
        // per boundary: has there been a moment (at an observation point after an executor turn) at which it was not loading
        let mut ever_idle: Vec<bool> = boundary_wants(&w.borrow()).iter().map(|x| !no_initial_drain && *x == Some(false)).collect();
        'groups: for e in events {
            let from = w.borrow().polls.len();
            let mut r: Result<(), String> = Ok(());
            for e1 in e.split('+') {
            let (kind, n): (char, usize) = (e1.chars().next().unwrap(), e1[1..].parse().unwrap());
            r = catch(|| root.run_in(|| match kind {
                'r' => {
                    let tx = { let mut ww = w.borrow_mut(); ww.res.get_mut(&n).and_then(|r| r.1.take()) };
                    if let Some(tx) = tx {
                        let _ = tx.send(());
                        let mut ww = w.borrow_mut();
                        for t in 0..ww.task_res.len() { if ww.task_res[t] == Some(n) { ww.task_left[t] = 0; } }
                    }
                }
                'c' => {
                    let tx = { let mut ww = w.borrow_mut(); if n < ww.task_tx.len() { ww.task_tx[n].pop() } else { None } };
                    if let Some(tx) = tx { let _ = tx.send(()); let mut ww = w.borrow_mut(); if !ww.task_cancelled[n] { ww.task_left[n] -= 1; } }
                }
                _ => {
                    let h = w.borrow().scopes.get(n).copied();
                    if let Some(h) = h {
                        {
                            let mut ww = w.borrow_mut();
                            for s in 0..ww.scopes.len() { if in_subtree(&ww, n, s) { ww.dead_scopes[s] = true; } }
                            for t in 0..ww.task_scope.len() { let sc = ww.task_scope[t]; if ww.dead_scopes[sc] && ww.task_left[t] > 0 { ww.task_cancelled[t] = true; } }
                        }
                        h.dispose();
                    }
                }
            }));
            if r.is_err() { break; }
            }
            if let Err(m) = r {
                out.push("panic".into());
                verdict.get_or_insert(format!("[async-panic] event {e} panicked: {m}"));
                break 'groups;
            }
            drain().await;
            let panics: Vec<String> = PANIC_LOG.with(|p| p.borrow_mut().drain(..).collect());
            if !panics.is_empty() {
                out.push("panic".into());
                verdict.get_or_insert(format!("[async-panic] after event {e} a task panicked inside the executor: {}", panics[0]));
                break;
            }
            let ww = w.borrow();
            out.push(root.run_in(|| observe(&ww, from)));
            if verdict.is_none() {
                // oracle: a boundary is loading iff an unfinished, uncancelled task is registered at it or at an enclosing boundary
                for (b, (sel, inner, _)) in ww.loading.iter().enumerate() {
                    if ww.dead_scopes[*inner] { continue; }
                    let mut chain = vec![b];
                    let mut p = ww.loading[b].2;
                    while let Some(x) = p { chain.push(x); p = ww.loading[x].2; }
                    let want = (0..ww.task_left.len()).any(|t| ww.task_left[t] > 0 && !ww.task_cancelled[t] && ww.task_boundary[t].map(|tb| chain.contains(&tb)).unwrap_or(false));
                    let got = catch(|| sel.get_untracked()).unwrap_or(!want);
                    if got != want {
                        verdict = Some(format!("[suspense-loading] after event {e}: boundary {b} reports loading={got} but {}", if want { "an unfinished task is registered under it or an enclosing boundary" } else { "no unfinished task is registered under it or an enclosing boundary" }));
                        break;
                    }
                }
                // oracle: `until_finished()` of a boundary comes back exactly once the boundary has stopped loading (own
                // tasks AND enclosing boundaries) — not before, and then at once
                if verdict.is_none() {
                    for (b, want) in boundary_wants(&ww).iter().enumerate() {
                        let Some(want) = want else { continue };
                        if !*want { ever_idle[b] = true; }
                        let back = ww.until[b].get();
                        if back && !ever_idle[b] {
                            verdict = Some(format!("[suspense-loading] after event {e}: until_finished() of boundary {b} has come back although an unfinished task has been registered under it or an enclosing boundary all the time"));
                            break;
                        }
                        if !back && ever_idle[b] {
                            verdict = Some(format!("[suspense-loading] after event {e}: boundary {b} stopped loading but a waiter on until_finished() has not come back"));
                            break;
                        }
                    }
                }
                // oracle: use_is_loading_global is true iff an unfinished, uncancelled task is registered at a
                // boundary whose counter is still alive (it lives in the scope that created the boundary)
                if verdict.is_none() {
                    let want_g = (0..ww.task_left.len()).any(|t| ww.task_left[t] > 0 && !ww.task_cancelled[t] && ww.task_boundary[t].map(|b| {
                        let inner = ww.loading[b].1;
                        ww.scope_parent[inner].map(|p| !ww.dead_scopes[p]).unwrap_or(true)
                    }).unwrap_or(false));
                    if let Ok(got_g) = catch(|| root.run_in(sycamore::rt::use_is_loading_global)) {
                        if got_g != want_g {
                            verdict = Some(format!("[suspense-loading] after event {e}: use_is_loading_global() = {got_g} but {}", if want_g { "an unfinished task is registered under a live boundary" } else { "no unfinished task is registered under a live boundary" }));
                        }
                    }
                }
                if let Some((t, l)) = ww.polls_after_dispose.first() {
                    verdict.get_or_insert(format!("[poll-after-dispose] the body of task {t} resumed (await point {l} left) after its scope was disposed"));
                }
            }
        }
        // leave the root alone (leaks one Root per case, as create_root does)
    });
    (out.join(" | "), verdict)
}

fn run_resource(dep0: u32, fb: Option<u32>, events: &[String]) -> (String, Option<String>) {
    run_resource_opt(dep0, fb, false, events)
}

thread_local! { static OBSERVE_READERS: std::cell::Cell<bool> = const { std::cell::Cell::new(false) }; }
// mode `resourcerdfx`: a subscriber of the value (outside the owner scope) that DISPOSES the scope owning the resource as soon
// as a value is delivered, i.e. inside the executor step in which the fetch completes
thread_local! { static DISPOSE_ON_VALUE: std::cell::Cell<bool> = const { std::cell::Cell::new(false) }; }
// mode `resourcerdw`: the observer of every reader boundary WRITES the dependency (to this value, once it differs) when its
// boundary resolves ("panel shown, move on to the next item"): the write must find the delivered value published
// mode `resourceself`: the fetch future itself, as its last step (after its await point), moves the dependency on to this
// value (once it differs): the fetch is superseded WHILE IT IS FINISHING, too late for the abort to stop it
thread_local! { static SELF_WRITE: std::cell::Cell<Option<u32>> = const { std::cell::Cell::new(None) }; }
// mode `resourcebo`: the resource is created under a suspense boundary of its own, and an observer of THAT boundary moves an odd
// dependency value on to the next one whenever the boundary starts loading (i.e. when a fetch starts while none is outstanding):
// the boundary is suspended before the fetch function reads its dependencies, so the fetch is one for the moved value
thread_local! { static BOUNDARY_OBS: std::cell::Cell<bool> = const { std::cell::Cell::new(false) }; }
thread_local! { static WRITE_ON_RESOLVE: std::cell::Cell<Option<u32>> = const { std::cell::Cell::new(None) }; }

/// `fl`: a subscriber of `is_loading` that moves an odd dependency on to the next value whenever a load is announced
fn run_resource_opt(dep0: u32, fb: Option<u32>, fl: bool, events: &[String]) -> (String, Option<String>) {
    PANIC_LOG.with(|p| p.borrow_mut().clear());
    let rt = tokio::runtime::Builder::new_current_thread().build().unwrap();
    let local = tokio::task::LocalSet::new();
    let mut out = vec![];
    let mut verdict: Option<String> = None;
    local.block_on(&rt, async {
        let txs: Rc<RefCell<Vec<Option<oneshot::Sender<()>>>>> = Default::default();
        let root = create_root(|| {});
        let mut dep = None;
        let mut res = None;
        let mut scope = None;
        root.run_in(|| {
            let d = create_signal(dep0);
            dep = Some(d);
            scope = Some(create_child_scope(|| {
                let txs = txs.clone();
                let selfw = SELF_WRITE.with(|o| o.get());
                let mk = move || create_isomorphic_resource(on(d, move || {
                    let v = d.get_untracked();
                    let (tx, rx) = oneshot::channel::<()>();
                    let k = { let mut t = txs.borrow_mut(); t.push(Some(tx)); t.len() as u32 };
                    async move { let _ = rx.await; if let Some(c) = selfw { if d.get_untracked() != c { d.set(c); } } (k, v) }
                }));
                if BOUNDARY_OBS.with(|o| o.get()) {
                    let _ = create_suspense_scope(|| {
                        let loading = try_use_context::<SuspenseScope>().expect("suspense scope in context").is_loading();
                        create_effect(move || { if loading.get() && d.get_untracked() % 2 == 1 { d.set(d.get_untracked() + 1); } });
                        res = Some(mk());
                    });
                } else {
                    res = Some(mk());
                }
                if fl {
                    let r = *res.as_ref().unwrap();
                    create_effect(move || {
                        if r.is_loading() && d.get_untracked() % 2 == 1 {
                            d.set(d.get_untracked() + 1);
                        }
                    });
                }
                if let Some(c) = fb {
                    // a subscriber of the VALUE only (the handle is taken outside the effect, untracked) that
                    // reacts to a delivery by writing the dependency, once
                    let value: ReadSignal<Option<(u32, u32)>> = untrack(|| **res.as_ref().unwrap());
                    create_effect(move || {
                        if value.get_clone().is_some() && d.get_untracked() != c {
                            d.set(c);
                        }
                    });
                }
            }));
        });
        let (dep, res, scope) = (dep.unwrap(), res.unwrap(), scope.unwrap());
        let fx = DISPOSE_ON_VALUE.with(|o| o.get());
        if fx {
            root.run_in(|| {
                let value: ReadSignal<Option<(u32, u32)>> = untrack(|| *res);
                create_effect(move || { if value.get_clone().is_some() { scope.dispose(); } });
            });
        }
        let readers: Rc<RefCell<Vec<NodeHandle>>> = Default::default();
        // mode `resourcerd`: the loading state of every reader boundary is observed and judged; per reader (oldest
        // first): the boundary's is_loading selector, and what the statement expects: (guard held, recorded for the next fetch)
        let rd = OBSERVE_READERS.with(|o| o.get());
        let wr = WRITE_ON_RESOLVE.with(|o| o.get());
        let reader_sel: Rc<RefCell<Vec<ReadSignal<bool>>>> = Default::default();
        let mut reader_exp: Vec<(bool, bool)> = vec![];
        // mode `resourcerdt`: per reader (aligned with `reader_exp`), the number of its OWN pending task (event `v`: a boundary that
        // reads the resource once, non-reactively, and also has a suspense task of its own; event `t<i>` completes that task)
        let mut reader_task: Vec<Option<usize>> = vec![];
        let vtasks: Rc<RefCell<Vec<Option<oneshot::Sender<()>>>>> = Default::default();
        let mut alive = true;
        // harness bookkeeping for the oracle
        let bo = BOUNDARY_OBS.with(|o| o.get());
        // (mode resourcebo: the boundary starts loading at the creation: an odd initial value is moved on before the first fetch reads it)
        let dep0 = if bo && dep0 % 2 == 1 { dep0 + 1 } else { dep0 };
        let (mut started, mut latest_dep, mut completed, mut value): (u32, u32, bool, Option<(u32, u32)>) = (1, dep0, false, None);
        let mut cur_dep = dep0;
        let rs2 = reader_sel.clone();
        let show = move |alive: bool| -> String {
            let b = if rd {
                format!(" B=[{}]", rs2.borrow().iter().map(|s| match catch(|| root.run_in(|| s.get_untracked())) { Ok(v) => (v as u8).to_string(), Err(_) => "p".into() }).collect::<Vec<_>>().join(","))
            } else { String::new() };
            if !alive { return format!("dead{b}"); }
            match catch(|| root.run_in(|| (res.get_clone_untracked(), res.is_loading()))) {
                Ok((v, l)) => format!("{} l={}{b}", match v { Some((k, d)) => format!("v={k}:{d}"), None => "v=none".into() }, l as u8),
                Err(m) => format!("panic:{}", m.replace(' ', "_")),
            }
        };
        drain().await;
        out.push(show(alive));
        for g in events {
            let mut r: Result<(), String> = Ok(());
            let e = g;
            for e in g.split('+') {
            let e = &e.to_string();
            r = catch(|| root.run_in(|| {
                // `u`: the resource is read under a new suspense boundary that lives in a new child scope;
                // `y`: the oldest such scope is disposed (the boundary the resource remembers is gone)
                if e == "u" { if alive { readers.borrow_mut().push(create_child_scope(|| { let _ = create_suspense_scope(|| {
                    if rd {
                        let me = try_use_context::<SuspenseScope>().expect("suspense scope in context");
                        let sel = me.is_loading();
                        reader_sel.borrow_mut().push(sel);
                        // an observer of the boundary's loading state that looks at the resource whenever the boundary loads
                        let was = Rc::new(std::cell::Cell::new(false));
                        create_effect(move || {
                            if sel.get() { was.set(true); let _ = res.get_clone(); }
                            else if was.replace(false) { if let Some(c) = wr { if dep.get_untracked() != c { dep.set(c); } } }
                        });
                    }
                    let _ = res.get_clone(); }); })); } }
                else if e == "v" { if alive { readers.borrow_mut().push(create_child_scope(|| { let _ = create_suspense_scope(|| {
                    let me = try_use_context::<SuspenseScope>().expect("suspense scope in context");
                    reader_sel.borrow_mut().push(me.is_loading());
                    let (tx, rx) = oneshot::channel::<()>();
                    vtasks.borrow_mut().push(Some(tx));
                    create_suspense_task(async move { let _ = rx.await; });
                    // one read, outside every computation: nothing re-reads when a fetch starts
                    let _ = res.get_clone_untracked(); }); })); } }
                else if let Some(i) = e.strip_prefix('t') { let i: usize = i.parse().unwrap(); if let Some(tx) = vtasks.borrow_mut().get_mut(i).and_then(|t| t.take()) { let _ = tx.send(()); } }
                else if e == "y" { if !readers.borrow().is_empty() { let h = readers.borrow_mut().remove(0); if rd && !reader_sel.borrow().is_empty() { reader_sel.borrow_mut().remove(0); } h.dispose(); } }
                else if e == "x" { scope.dispose(); }
                else if let Some(v) = e.strip_prefix('w') { if alive { dep.set(v.parse().unwrap()); } }
                else if let Some(k) = e.strip_prefix('f') { let k: usize = k.parse().unwrap(); if k >= 1 { if let Some(tx) = txs.borrow_mut().get_mut(k - 1).and_then(|t| t.take()) { let _ = tx.send(()); } } }
            }));
            // what the statement expects of the reader boundaries
            let released_any = rd && reader_exp.iter().any(|r| r.0);
            if rd {
                let latest_outstanding = !completed;
                if e == "u" { if alive { reader_exp.push(if latest_outstanding { (true, false) } else { (false, true) }); reader_task.push(None); } }
                else if e == "v" { if alive { reader_exp.push(if latest_outstanding { (true, false) } else { (false, true) }); reader_task.push(Some(vtasks.borrow().len() - 1)); } }
                else if e.starts_with('t') { let i: usize = e[1..].parse().unwrap(); for t in reader_task.iter_mut() { if *t == Some(i) { *t = None; } } }
                else if e == "y" { if !reader_exp.is_empty() { reader_exp.remove(0); reader_task.remove(0); } }
                else if e == "x" { for r in reader_exp.iter_mut() { *r = (false, false); } }
                else if alive && e.starts_with('w') { for r in reader_exp.iter_mut() { if r.1 { *r = (true, false); } } }
                else if alive && e.starts_with('f') {
                    let k: u32 = e[1..].parse().unwrap();
                    if k == started && !completed { for r in reader_exp.iter_mut() { r.0 = false; } }
                }
            }
            if e == "x" { alive = false; }
            else if alive {
                if let Some(v) = e.strip_prefix('w') {
                    started += 1;
                    latest_dep = v.parse().unwrap();
                    // the is_loading subscriber moves an odd value on before the fetch function reads it
                    if fl && latest_dep % 2 == 1 { latest_dep += 1; }
                    // the boundary observer does so only when the boundary STARTS loading (no fetch was outstanding)
                    if bo && completed && latest_dep % 2 == 1 { latest_dep += 1; }
                    cur_dep = latest_dep;
                    completed = false;
                }
                else if let Some(k) = e.strip_prefix('f') {
                    let k: u32 = k.parse().unwrap();
                    if k == started && !completed && SELF_WRITE.with(|o| o.get()).is_some_and(|c| cur_dep != c) {
                        // the finishing fetch moved the dependency on: it is no longer the latest one and delivers nothing
                        let c = SELF_WRITE.with(|o| o.get()).unwrap();
                        cur_dep = c; started += 1; latest_dep = c; completed = false;
                        if rd { for r in reader_exp.iter_mut() { if r.1 { *r = (true, false); } } }
                    } else if k == started && !completed {
                        completed = true;
                        value = Some((k, latest_dep));
                        // the observers of the boundaries that this delivery releases write the dependency: a new fetch is
                        // outstanding (the boundaries released just now are not on the list for it)
                        if let Some(c) = wr { if released_any && alive && cur_dep != c { cur_dep = c; started += 1; latest_dep = c; completed = false;
                            for r in reader_exp.iter_mut() { if r.1 { *r = (true, false); } } } }
                        if fx {
                            // the subscriber disposes the owner inside the delivery
                            alive = false;
                            for r in reader_exp.iter_mut() { *r = (false, false); }
                        }
                        // the subscriber writes the dependency from inside the delivery: a new fetch is outstanding
                        if let Some(c) = fb { if cur_dep != c { cur_dep = c; started += 1; latest_dep = c; completed = false;
                            // (the guards of the delivered fetch are released first, then the new fetch suspends the recorded readers)
                            if rd { for r in reader_exp.iter_mut() { if r.1 { *r = (true, false); } } } } }
                    }
                }
            }
            if r.is_err() { break; }
            }
            if let Err(m) = r {
                out.push("panic".into());
                verdict.get_or_insert(format!("[async-panic] event {e} panicked: {m}"));
                break;
            }
            drain().await;
            let panics: Vec<String> = PANIC_LOG.with(|p| p.borrow_mut().drain(..).collect());
            if !panics.is_empty() {
                out.push("panic".into());
                verdict.get_or_insert(format!("[async-panic] after event {e} a task panicked inside the executor: {}", panics[0]));
                break;
            }
            let o = show(alive);
            if rd && verdict.is_none() {
                let have = o.rsplit_once(" B=").map(|x| x.1.to_string()).unwrap_or_default();
                let want = format!("[{}]", reader_exp.iter().zip(reader_task.iter()).map(|(r, t)| ((r.0 || t.is_some()) as u8).to_string()).collect::<Vec<_>>().join(","));
                if have != want {
                    verdict = Some(format!("[suspense-loading] after event {e}: the boundaries that read the resource report loading = {have}, expected {want} (a boundary that read it while a fetch was outstanding stays loading until the LATEST fetch delivers; one that read it in between is suspended by the next fetch)"));
                }
            }
            if verdict.is_none() && alive {
                let want = format!("{} l={}", match value { Some((k, d)) => format!("v={k}:{d}"), None => "v=none".into() }, (!completed) as u8);
                if o.split(" B=").next().unwrap() != want {
                    verdict = Some(format!("[resource-latest] after event {e}: resource shows `{o}`, the latest-fetch rule gives `{want}` (fetch {started} is the latest, {} outstanding)", if completed { "not" } else { "still" }));
                }
            }
            out.push(o);
        }
    });
    (out.join(" | "), verdict)
}

pub fn exec(line: &str) -> (String, Option<String>, bool) {
    let rest = line.strip_prefix("async ").unwrap();
    if let Some(r) = rest.strip_prefix("resource ") {
        let (d, evs) = r.split_once(' ').unwrap();
        let evs: Vec<String> = if evs == "-" { vec![] } else { evs.split(',').map(|s| s.to_string()).collect() };
        let (o, v) = run_resource(d.parse().unwrap(), None, &evs);
        (o, v, evs.len() >= 2)
    } else if let Some(r) = rest.strip_prefix("resourcerdfx ") {
        let (d, evs) = r.split_once(' ').unwrap();
        let evs: Vec<String> = if evs == "-" { vec![] } else { evs.split(',').map(|s| s.to_string()).collect() };
        OBSERVE_READERS.with(|o| o.set(true));
        DISPOSE_ON_VALUE.with(|o| o.set(true));
        let (o, v) = run_resource(d.parse().unwrap(), None, &evs);
        DISPOSE_ON_VALUE.with(|o| o.set(false));
        OBSERVE_READERS.with(|o| o.set(false));
        (o, v, evs.len() >= 2)
    } else if let Some(r) = rest.strip_prefix("resourcebo ") {
        let (d, evs) = r.split_once(' ').unwrap();
        let evs: Vec<String> = if evs == "-" { vec![] } else { evs.split(',').map(|s| s.to_string()).collect() };
        BOUNDARY_OBS.with(|o| o.set(true));
        let (o, v) = run_resource(d.parse().unwrap(), None, &evs);
        BOUNDARY_OBS.with(|o| o.set(false));
        (o, v, evs.len() >= 2)
    } else if let Some(r) = rest.strip_prefix("resourceself ") {
        let mut it = r.splitn(3, ' ');
        let (d, c, evs) = (it.next().unwrap(), it.next().unwrap(), it.next().unwrap());
        let evs: Vec<String> = if evs == "-" { vec![] } else { evs.split(',').map(|s| s.to_string()).collect() };
        SELF_WRITE.with(|o| o.set(Some(c.parse().unwrap())));
        let (o, v) = run_resource(d.parse().unwrap(), None, &evs);
        SELF_WRITE.with(|o| o.set(None));
        (o, v, evs.len() >= 2)
    } else if let Some(r) = rest.strip_prefix("resourcerdw ") {
        let mut it = r.splitn(3, ' ');
        let (d, c, evs) = (it.next().unwrap(), it.next().unwrap(), it.next().unwrap());
        let evs: Vec<String> = if evs == "-" { vec![] } else { evs.split(',').map(|s| s.to_string()).collect() };
        OBSERVE_READERS.with(|o| o.set(true));
        WRITE_ON_RESOLVE.with(|o| o.set(Some(c.parse().unwrap())));
        let (o, v) = run_resource(d.parse().unwrap(), None, &evs);
        WRITE_ON_RESOLVE.with(|o| o.set(None));
        OBSERVE_READERS.with(|o| o.set(false));
        (o, v, evs.len() >= 2)
    } else if let Some(r) = rest.strip_prefix("resourcerdfb ") {
        let mut it = r.splitn(3, ' ');
        let (d, c, evs) = (it.next().unwrap(), it.next().unwrap(), it.next().unwrap());
        let evs: Vec<String> = if evs == "-" { vec![] } else { evs.split(',').map(|s| s.to_string()).collect() };
        OBSERVE_READERS.with(|o| o.set(true));
        let (o, v) = run_resource(d.parse().unwrap(), Some(c.parse().unwrap()), &evs);
        OBSERVE_READERS.with(|o| o.set(false));
        (o, v, evs.len() >= 2)
    } else if let Some(r) = rest.strip_prefix("resourcerdt ") {
        let (d, evs) = r.split_once(' ').unwrap();
        let evs: Vec<String> = if evs == "-" { vec![] } else { evs.split(',').map(|s| s.to_string()).collect() };
        OBSERVE_READERS.with(|o| o.set(true));
        let (o, v) = run_resource(d.parse().unwrap(), None, &evs);
        OBSERVE_READERS.with(|o| o.set(false));
        (o, v, evs.len() >= 2)
    } else if let Some(r) = rest.strip_prefix("resourcerd ") {
        let (d, evs) = r.split_once(' ').unwrap();
        let evs: Vec<String> = if evs == "-" { vec![] } else { evs.split(',').map(|s| s.to_string()).collect() };
        OBSERVE_READERS.with(|o| o.set(true));
        let (o, v) = run_resource(d.parse().unwrap(), None, &evs);
        OBSERVE_READERS.with(|o| o.set(false));
        (o, v, evs.len() >= 2)
    } else if let Some(r) = rest.strip_prefix("resourcefl ") {
        let (d, evs) = r.split_once(' ').unwrap();
        let evs: Vec<String> = if evs == "-" { vec![] } else { evs.split(',').map(|s| s.to_string()).collect() };
        let (o, v) = run_resource_opt(d.parse().unwrap(), None, true, &evs);
        (o, v, evs.len() >= 2)
    } else if let Some(r) = rest.strip_prefix("resourcefb ") {
        let mut it = r.splitn(3, ' ');
        let (d, c, evs) = (it.next().unwrap(), it.next().unwrap(), it.next().unwrap());
        let evs: Vec<String> = if evs == "-" { vec![] } else { evs.split(',').map(|s| s.to_string()).collect() };
        let (o, v) = run_resource(d.parse().unwrap(), Some(c.parse().unwrap()), &evs);
        (o, v, evs.len() >= 2)
    } else if let Some(r) = rest.strip_prefix("suspense ") {
        let (items, evs) = r.rsplit_once(' ').unwrap();
        let items = parse_items(items).expect("bad items");
        let evs: Vec<String> = if evs == "-" { vec![] } else { evs.split(',').map(|s| s.to_string()).collect() };
        let (o, v) = run_suspense(&items, &evs);
        (o, v, evs.len() >= 2)
    } else if rest == "special drop-under-borrow" {
        let (o, v) = run_drop_under_borrow();
        (o, v, true)
    } else {
        ("bad-op".into(), None, false)
    }
}

/// D15: values and context values of a disposed node are dropped while nothing is borrowed, so that their
/// destructors may use the reactive system (a resource's suspense guards release their counters)
fn run_drop_under_borrow() -> (String, Option<String>) {
    struct Noisy(Signal<i32>);
    impl Drop for Noisy {
        fn drop(&mut self) {
            if self.0.is_alive() { self.0.set(self.0.get_untracked() + 1); }
        }
    }
    let mut out = vec![];
    let mut verdict = None;
    // (a) a signal value and a context value whose destructors write a signal
    let r = catch(|| {
        let mut seen = (0, 0);
        let root = create_root(|| {
            let counter = create_signal(0);
            let child = create_child_scope(|| { let _holder = create_signal(Noisy(counter)); });
            child.dispose();
            seen.0 = counter.get_untracked();
            let child = create_child_scope(|| { provide_context(Rc::new(Noisy(counter))); });
            child.dispose();
            seen.1 = counter.get_untracked();
        });
        root.dispose();
        seen
    });
    match r {
        Ok(seen) => { out.push(format!("drops={},{}", seen.0, seen.1)); if seen != (1, 2) { verdict = Some(format!("[async-panic] destructors of disposed values ran {seen:?} times, expected (1, 2)")); } }
        Err(m) => { out.push("panic".into()); verdict = Some(format!("[async-panic] disposing a scope whose signal/context value has a destructor that uses signals panicked: {m}")); }
    }
    // (b) a loading resource read under a suspense boundary, disposed with its scope
    let rt = tokio::runtime::Builder::new_current_thread().build().unwrap();
    let local = tokio::task::LocalSet::new();
    let r = catch(|| local.block_on(&rt, async {
        let mut sc = None;
        let root = create_root(|| {
            let mut child = None;
            let (_, scope) = create_suspense_scope(|| {
                child = Some(create_child_scope(|| {
                    let r = create_isomorphic_resource(|| async { futures::future::pending::<()>().await; 1u32 });
                    let _ = r.get_clone_untracked();
                }));
            });
            child.unwrap().dispose();
            sc = Some(scope);
        });
        drain().await;
        root.run_in(|| sc.unwrap().is_loading().get_untracked())
    }));
    match r {
        Ok(l) => { out.push(format!("loading={}", l as u8)); if l { verdict.get_or_insert("[suspense-loading] the boundary still reports loading after the scope of its only (loading) resource was disposed".into()); } }
        Err(m) => { out.push("panic".into()); verdict.get_or_insert(format!("[async-panic] disposing the scope of a loading resource read under a suspense boundary panicked: {m}")); }
    }
    (out.join(" | "), verdict)
}

fn permutations(v: &[String]) -> Vec<Vec<String>> {
    if v.len() <= 1 { return vec![v.to_vec()]; }
    let mut out = vec![];
    for i in 0..v.len() {
        let mut rest = v.to_vec();
        let x = rest.remove(i);
        for mut p in permutations(&rest) { p.insert(0, x.clone()); out.push(p); }
    }
    out
}

fn count(items: &[Item]) -> (usize, usize, Vec<usize>) {
    // (scopes created, boundaries, awaits per task) in creation order
    fn go(items: &[Item], s: &mut usize, b: &mut usize, t: &mut Vec<usize>) {
        for i in items { match i { Item::S(c) => { *s += 1; go(c, s, b, t) } Item::B(c) => { *s += 1; *b += 1; go(c, s, b, t) } Item::T(n) | Item::X(n) => t.push(*n), Item::U(_) | Item::R(_) => t.push(1), Item::G | Item::W => {} } }
    }
    let (mut s, mut b, mut t) = (0, 0, vec![]);
    go(items, &mut s, &mut b, &mut t);
    (s, b, t)
}

/// is the t-th task-like item (creation order) a real task (not a resource read)?
fn items_task_is_real(items: &[Item], t: usize) -> bool {
    fn go(items: &[Item], v: &mut Vec<bool>) { for i in items { match i { Item::S(c) | Item::B(c) => go(c, v), Item::T(_) | Item::X(_) => v.push(true), Item::U(_) | Item::R(_) => v.push(false), Item::G | Item::W => {} } } }
    let mut v = vec![];
    go(items, &mut v);
    v.get(t).copied().unwrap_or(false)
}

fn gen_items(rng: &mut Rng, depth: usize, budget: &mut usize) -> Vec<Item> {
    let n = 1 + rng.below(3);
    let mut v = vec![];
    for _ in 0..n {
        if *budget == 0 { break; }
        *budget -= 1;
        v.push(match rng.below(if depth == 0 { 2 } else { 5 }) {
            0 | 1 => Item::T(1 + rng.below(3)),
            2 => Item::S(gen_items(rng, depth - 1, budget)),
            _ => Item::B(gen_items(rng, depth - 1, budget)),
        });
    }
    v
}

pub fn generate(args: &Args) -> Vec<String> {
    let thorough = args.tier == "thorough";
    let mut rng = Rng::new(args.seed);
    let mut l = vec![];
    // C13: boundary trees x every completion order (single-await tasks), exhaustive for the listed shapes
    let shapes = [
        "(L (b (t 1) (t 1)))", "(L (b (t 1) (b (t 1))))", "(L (b (t 1)) (b (t 1)))", "(L (b (b (t 1) (t 1)) (t 1)))",
        "(L (b (t 1) (b (t 1) (b (t 1)))))", "(L (b (t 1) (t 1) (b (t 1)) (b (t 1))))", "(L (t 1) (b (t 2) (b (t 1))))",
        "(L (b (s (t 1)) (b (s (t 1) (t 1)))))", "(L (b (b) (t 1)) (b (b (t 2))))",
    ];
    for sh in shapes {
        let items = parse_items(sh).unwrap();
        let (_, _, tasks) = count(&items);
        let mut evs: Vec<String> = vec![];
        for (t, n) in tasks.iter().enumerate() { for _ in 0..*n { evs.push(format!("c{t}")); } }
        if evs.len() <= (if thorough { 6 } else { 5 }) {
            let mut perms = permutations(&evs);
            perms.sort(); perms.dedup();
            for p in perms { l.push(format!("async suspense {sh} {}", p.join(","))); }
        }
    }
    // C14: a dispose of every scope between every two steps of a fixed completion schedule
    for sh in ["(L (b (t 2) (s (t 1)) (b (t 1))))", "(L (s (b (t 1) (s (t 2)))) (b (t 1)))", "(L (b (s (b (t 2))) (t 1)))", "(L (s (s (t 1)) (b (s (t 1)))))"] {
        let items = parse_items(sh).unwrap();
        let (scopes, _, tasks) = count(&items);
        let mut evs: Vec<String> = vec![];
        for (t, n) in tasks.iter().enumerate() { for _ in 0..*n { evs.push(format!("c{t}")); } }
        for pos in 0..=evs.len() {
            for s in 1..=scopes {
                let mut e = evs.clone();
                e.insert(pos, format!("d{s}"));
                l.push(format!("async suspense {sh} {}", e.join(",")));
            }
        }
    }
    // C14: disposals BEFORE the first poll of the tasks (`n`: no executor turn after creation) and events
    // that happen back to back (`a+b`: one executor turn after the group)
    for sh in ["(L (b (t 2) (s (t 1)) (b (t 1))))", "(L (s (b (t 1) (s (t 2)))) (b (t 1)))", "(L (s (t 1)) (b (s (t 1)) (t 1)))"] {
        let items = parse_items(sh).unwrap();
        let (scopes, _, tasks) = count(&items);
        let mut evs: Vec<String> = vec![];
        for (t, n) in tasks.iter().enumerate() { for _ in 0..*n { evs.push(format!("c{t}")); } }
        for s in 1..=scopes {
            l.push(format!("async suspense {sh} n,d{s},{}", evs.join(",")));
            l.push(format!("async suspense {sh} n,{}+d{s},{}", evs[0], evs[1..].join(",")));
            for pos in 0..evs.len() {
                let mut e = evs.clone();
                e[pos] = format!("{}+d{s}", e[pos]);
                l.push(format!("async suspense {sh} {}", e.join(",")));
                let mut e = evs.clone();
                e[pos] = format!("d{s}+{}", e[pos]);
                l.push(format!("async suspense {sh} {}", e.join(",")));
            }
        }
    }
    // C14: tasks that dispose the scope they were spawned in when they first resume (`x`): aborted while being polled;
    // every order of the completions, alone and with one neighbouring pair back to back
    for sh in ["(L (b (s (x 2) (t 1)) (t 1)))", "(L (s (b (x 1) (t 2))) (b (t 1)))", "(L (b (s (x 1) (b (t 1) (s (x 2)))) (t 1)))", "(L (s (x 2) (s (t 1))) (b (s (x 1)) (t 1)))",
               "(L (b (x 1)))", "(L (b (s (x 3))) (b (s (x 1) (x 1))))"] {
        let items = parse_items(sh).unwrap();
        let (_, _, tasks) = count(&items);
        let mut evs: Vec<String> = vec![];
        for (t, n) in tasks.iter().enumerate() { for _ in 0..*n { evs.push(format!("c{t}")); } }
        let mut perms = permutations(&evs);
        perms.sort(); perms.dedup();
        for p in perms {
            l.push(format!("async suspense {sh} {}", p.join(",")));
            if p.len() >= 2 && (thorough || rng.chance(1, 4)) {
                let k = rng.below(p.len() - 1);
                let mut q = p.clone();
                if q[k] == q[k + 1] { continue; }
                let b = q.remove(k + 1);
                q[k] = format!("{}+{}", q[k], b);
                // (no `n` here: in the first executor turn the waiters on `until_finished()` are polled in creation order BETWEEN the
                // tasks, so what a waiter sees when a task disposes scopes in that very turn is a scheduling detail the model's
                // `U=` field does not follow)
                let _ = rng.chance(1, 3);
                l.push(format!("async suspense {sh} {}", q.join(",")));
            }
        }
    }
    // random trees with random schedules of completions and disposals
    let n = if thorough { 60_000 } else { 2_500 };
    for _ in 0..n {
        let mut budget = 7;
        let mut items = gen_items(&mut rng, 3, &mut budget);
        // every third tree: some of the tasks dispose their own scope when they first resume
        if rng.chance(1, 3) {
            fn xs(items: &mut Vec<Item>, rng: &mut Rng) { for i in items.iter_mut() { match i { Item::T(n) => if rng.chance(1, 3) { *i = Item::X(*n); }, Item::S(c) | Item::B(c) => xs(c, rng), _ => {} } } }
            xs(&mut items, &mut rng);
        }
        let (scopes, _, tasks) = count(&items);
        let mut evs: Vec<String> = vec![];
        for (t, k) in tasks.iter().enumerate() { for _ in 0..*k { evs.push(format!("c{t}")); } }
        // shuffle
        for i in (1..evs.len()).rev() { let j = rng.below(i + 1); evs.swap(i, j); }
        if scopes > 0 { for _ in 0..rng.below(3) { let pos = rng.below(evs.len() + 1); evs.insert(pos, format!("d{}", 1 + rng.below(scopes))); } }
        // every third schedule: some neighbours happen back to back, possibly before the first poll
        let mut line = if evs.is_empty() { "-".to_string() } else { evs.join(",") };
        if !evs.is_empty() && rng.chance(1, 3) {
            let mut g = String::new();
            // (a task that disposes its own scope is not completed twice in one group: what a body does with await points
            // that are ready within the poll in which it disposed its scope is its own business)
            let has_x = show_items(&items).contains("(x ");
            let mut in_group: Vec<&String> = vec![];
            for (i, e) in evs.iter().enumerate() {
                if i > 0 { if rng.chance(1, 2) && !(has_x && in_group.contains(&e)) { g.push('+'); } else { g.push(','); in_group.clear(); } }
                in_group.push(e);
                g += e;
            }
            line = if rng.chance(1, 3) && !has_x { format!("n,{g}") } else { g };
        }
        l.push(format!("async suspense (L {}) {}", show_items(&items), line));
    }
    // C13: ONE loading resource read under several boundaries (each read holds its own guard) x every order
    // of the resource's delivery and the tasks' completions; no disposals (the guards live in the resource)
    for sh in ["(L (b (u 0)) (b (u 0)))", "(L (b (u 0) (t 1)) (b (u 0)) (b (t 1)))", "(L (u 0) (b (u 0) (b (u 0))))", "(L (b (u 0) (u 1)) (b (u 1)) (b (b (u 0))))",
               "(L (b (s (u 0))) (s (b (u 0) (t 2))))"] {
        let items = parse_items(sh).unwrap();
        let (_, _, tasks) = count(&items);
        let mut evs: Vec<String> = vec![];
        for (t, n) in tasks.iter().enumerate() { for _ in 0..*n { evs.push(format!("c{t}")); } }
        for r in 0..max_res(&items) { evs.push(format!("r{r}")); }
        let evs: Vec<String> = evs.into_iter().filter(|e| !e.starts_with('c') || items_task_is_real(&items, e[1..].parse().unwrap())).collect();
        let mut perms = permutations(&evs);
        perms.sort(); perms.dedup();
        for p in perms { l.push(format!("async suspense {sh} {}", p.join(","))); }
    }
    for _ in 0..(if thorough { 20_000 } else { 800 }) {
        let mut budget = 7;
        let mut items = gen_items(&mut rng, 3, &mut budget);
        // turn some tasks into reads of one of two shared resources
        fn uses(items: &mut Vec<Item>, rng: &mut Rng) { for i in items.iter_mut() { match i { Item::T(_) => if rng.chance(1, 2) { *i = Item::U(rng.below(2)); }, Item::S(c) | Item::B(c) => uses(c, rng), _ => {} } } }
        uses(&mut items, &mut rng);
        let (_, _, tasks) = count(&items);
        let mut evs: Vec<String> = vec![];
        for (t, k) in tasks.iter().enumerate() { if items_task_is_real(&items, t) { for _ in 0..*k { evs.push(format!("c{t}")); } } }
        for r in 0..max_res(&items) { evs.push(format!("r{r}")); }
        for i in (1..evs.len()).rev() { let j = rng.below(i + 1); evs.swap(i, j); }
        l.push(format!("async suspense (L {}) {}", show_items(&items), if evs.is_empty() { "-".into() } else { evs.join(",") }));
    }
    // C13/C14: a resource created INSIDE the tree (in a scope that can be disposed), read under boundaries elsewhere:
    // the guards of the reads live in the resource, so they are released when it delivers or when the scope that
    // owns the resource is disposed; disposals at every point
    for sh in ["(L (b (s (R 0) (u 0))))", "(L (s (R 0) (b (u 0)) (b (s (u 0)))))", "(L (b (R 0) (s (b (u 0) (t 1)))) (b (t 1)))", "(L (s (s (R 0)) (b (t 1))) (b (t 2)))"] {
        let items = parse_items(sh).unwrap();
        let (scopes, _, tasks) = count(&items);
        let mut evs: Vec<String> = vec![];
        for (t, n) in tasks.iter().enumerate() { if items_task_is_real(&items, t) { for _ in 0..*n { evs.push(format!("c{t}")); } } }
        evs.push("r0".into());
        for pos in 0..=evs.len() {
            for sc in 1..=scopes {
                let mut e = evs.clone();
                e.insert(pos, format!("d{sc}"));
                l.push(format!("async suspense {sh} {}", e.join(",")));
            }
        }
    }
    // a subscriber of the surviving boundary's loading state INSIDE the scope that is disposed, created after the pending
    // task, that reads state of an earlier sibling once the boundary stops loading: the guard of a cancelled task is
    // released by the executor after the scope is gone, not in the middle of its disposal
    for f in ["(L (b (s (G) (s (t 1)) (W))))", "(L (b (t 1) (s (G) (s (t 2)) (s (t 1)) (W))))", "(L (b (s (s (G) (s (t 1)) (W)) (t 1))))", "(L (b (b (s (G) (s (t 1)) (W)))))", "(L (b (s (G) (s (R 0)) (W)) (s (u 0))))"] {
        let items = parse_items(f).unwrap();
        let (scopes, _, tasks) = count(&items);
        let mut evs: Vec<String> = vec![];
        for (t, n) in tasks.iter().enumerate() { if items_task_is_real(&items, t) { for _ in 0..*n { evs.push(format!("c{t}")); } } }
        if f.contains("(R 0)") { evs.push("r0".into()); }
        for d in 1..=scopes {
            l.push(format!("async suspense {f} d{d}"));
            let mut a = vec![format!("d{d}")]; a.extend(evs.iter().cloned());
            l.push(format!("async suspense {f} {}", a.join(",")));
            if !evs.is_empty() {
                let mut b = vec![evs[0].clone(), format!("d{d}")]; b.extend(evs[1..].iter().cloned());
                l.push(format!("async suspense {f} {}", b.join(",")));
            }
        }
    }
    for _ in 0..(if thorough { 20_000 } else { 800 }) {
        let mut budget = 7;
        let mut items = gen_items(&mut rng, 3, &mut budget);
        // now and then: state at the front of a container and a watcher at its end
        if rng.chance(1, 4) {
            fn wrap(items: &mut Vec<Item>, rng: &mut Rng) {
                let conts: Vec<usize> = items.iter().enumerate().filter(|(_, i)| matches!(i, Item::S(_) | Item::B(_))).map(|(k, _)| k).collect();
                if !conts.is_empty() && rng.chance(1, 2) {
                    let k = *rng.pick(&conts);
                    if let Item::S(c) | Item::B(c) = &mut items[k] { wrap(c, rng); }
                } else { items.insert(0, Item::G); items.push(Item::W); }
            }
            wrap(&mut items, &mut rng);
        }
        // put the resource at the front of a random container (or of the top level); reads come after it
        fn containers(items: &Vec<Item>) -> usize { 1 + items.iter().map(|i| match i { Item::S(c) | Item::B(c) => containers(c), _ => 0 }).sum::<usize>() }
        fn place(items: &mut Vec<Item>, k: &mut usize, seen: &mut bool, rng: &mut Rng) {
            if *k == 0 && !*seen { items.insert(0, Item::R(0)); *seen = true; }
            if *k > 0 { *k -= 1; }
            let start = if *seen && matches!(items.first(), Some(Item::R(_))) { 1 } else { 0 };
            for i in items.iter_mut().skip(start) {
                match i {
                    Item::T(_) => if *seen && rng.chance(1, 2) { *i = Item::U(0); },
                    Item::S(c) | Item::B(c) => place(c, k, seen, rng),
                    _ => {}
                }
            }
        }
        let mut k = rng.below(containers(&items));
        let mut seen = false;
        place(&mut items, &mut k, &mut seen, &mut rng);
        if !seen { continue; }
        let (scopes, _, tasks) = count(&items);
        let mut evs: Vec<String> = vec![];
        for (t, n) in tasks.iter().enumerate() { if items_task_is_real(&items, t) { for _ in 0..*n { evs.push(format!("c{t}")); } } }
        evs.push("r0".into());
        for i in (1..evs.len()).rev() { let j = rng.below(i + 1); evs.swap(i, j); }
        if scopes > 0 { for _ in 0..rng.below(3) { let pos = rng.below(evs.len() + 1); evs.insert(pos, format!("d{}", 1 + rng.below(scopes))); } }
        l.push(format!("async suspense (L {}) {}", show_items(&items), evs.join(",")));
    }
    // C15 with a subscriber that writes the dependency from inside a delivery (re-entrant refetch)
    {
        let alpha = ["w", "f1", "f2", "f3", "f4", "f5"];
        let maxlen = if thorough { 6 } else { 5 };
        let mut frontier: Vec<Vec<&str>> = vec![vec![]];
        let mut seqs: Vec<Vec<&str>> = vec![];
        for _ in 0..maxlen {
            let mut next = vec![];
            for s in &frontier { for a in alpha { let mut t = s.clone(); t.push(a); next.push(t); } }
            seqs.extend(next.iter().cloned());
            frontier = next;
        }
        for s in seqs.iter() {
            if !s.iter().any(|e| e.starts_with('f')) { continue; }
            let mut wv = 10;
            let evs: Vec<String> = s.iter().map(|e| if *e == "w" { wv += 1; format!("w{wv}") } else { e.to_string() }).collect();
            l.push(format!("async resourcefb 7 1 {}", evs.join(",")));
            l.push(format!("async resourceself 7 1 {}", evs.join(",")));
        }
        l.push("async resourcefb 1 1 f1,w11,f2,f3".into());
    }
    // C15 with a subscriber of is_loading that writes the dependency when a load is announced (the write happens
    // inside the start of the fetch, before the fetch function reads the dependency)
    {
        let alpha = ["w", "f1", "f2", "f3", "f4"];
        let maxlen = if thorough { 6 } else { 5 };
        let mut frontier: Vec<Vec<&str>> = vec![vec![]];
        let mut seqs: Vec<Vec<&str>> = vec![];
        for _ in 0..maxlen {
            let mut next = vec![];
            for s in &frontier { for a in alpha { let mut t = s.clone(); t.push(a); next.push(t); } }
            seqs.extend(next.iter().cloned());
            frontier = next;
        }
        for s in seqs.iter() {
            if !s.iter().any(|e| *e == "w") { continue; }
            let mut wv = 10; // written values alternate odd / even
            let evs: Vec<String> = s.iter().map(|e| if *e == "w" { wv += 1; format!("w{wv}") } else { e.to_string() }).collect();
            l.push(format!("async resourcefl 8 {}", evs.join(",")));
            // … and with an observer of the resource's OWN boundary that does so when the boundary starts loading (initial
            // values odd and even: the boundary starts loading at the creation)
            l.push(format!("async resourcebo 8 {}", evs.join(",")));
            l.push(format!("async resourcebo 7 {}", evs.join(",")));
        }
        l.push("async resourcebo 7 f1".into());
        l.push("async resourcebo 7 -".into());
    }
    // C15: the resource is read under boundaries that come and go (the resource re-suspends every boundary it
    // was read under when it is fetched again)
    // C13: the boundaries that read the resource are observed: all event sequences up to length 5 (6) over reads,
    // reader disposals, writes and completions; random longer ones with the owner's disposal
    {
        let alpha = ["u", "w", "f1", "f2", "f3", "y"];
        let maxlen = if thorough { 6 } else { 5 };
        let mut frontier: Vec<Vec<&str>> = vec![vec![]];
        let mut seqs: Vec<Vec<&str>> = vec![];
        for _ in 0..maxlen {
            let mut next = vec![];
            for s in &frontier { for a in alpha { let mut t = s.clone(); t.push(a); next.push(t); } }
            seqs.extend(next.iter().cloned());
            frontier = next;
        }
        for s in seqs.iter() {
            if !s.contains(&"u") { continue; }
            let mut wv = 10;
            let evs: Vec<String> = s.iter().map(|e| if *e == "w" { wv += 1; format!("w{wv}") } else { e.to_string() }).collect();
            l.push(format!("async resourcerd 7 {}", evs.join(",")));
        }
        // … and with a subscriber of the value that writes the dependency from inside the delivery (the new fetch starts
        // in the executor step in which the old one completes)
        for s in seqs.iter() {
            if !s.contains(&"u") || !s.iter().any(|e| e.starts_with('f')) || s.len() > 4 { continue; }
            let mut wv = 10;
            let evs: Vec<String> = s.iter().map(|e| if *e == "w" { wv += 1; format!("w{wv}") } else { e.to_string() }).collect();
            l.push(format!("async resourcerdfb 7 1 {}", evs.join(",")));
            l.push(format!("async resourcerdfx 7 {}", evs.join(",")));
            l.push(format!("async resourcerdw 7 1 {}", evs.join(",")));
        }
        // boundaries that read the resource ONCE (nothing re-reads when a fetch starts) and have a task of their own: loading
        // while the task is pending OR the resource holds a guard for them; every order of a refetch, its completion and the task
        for pre in [vec!["f1", "v"], vec!["v", "f1"], vec!["f1", "v", "v"], vec!["f1", "u", "v"], vec!["v"]] {
            let nv = pre.iter().filter(|e| **e == "v").count();
            let mut tail: Vec<String> = vec!["w11".into(), "f2".into()];
            for i in 0..nv { tail.push(format!("t{i}")); }
            let mut perms = permutations(&tail);
            perms.sort(); perms.dedup();
            for p in perms {
                // (a fetch completes after it was started)
                let (iw, if2) = (p.iter().position(|e| e == "w11").unwrap(), p.iter().position(|e| e == "f2").unwrap());
                if if2 < iw { continue; }
                let mut evs: Vec<String> = pre.iter().map(|e| e.to_string()).collect();
                evs.extend(p.iter().cloned());
                l.push(format!("async resourcerdt 7 {}", evs.join(",")));
                let mut e2 = evs.clone(); e2.push("w12".into()); e2.push("y".into()); e2.push("f3".into());
                l.push(format!("async resourcerdt 7 {}", e2.join(",")));
            }
        }
        for _ in 0..(if thorough { 20_000 } else { 500 }) {
            let n = 5 + rng.below(8);
            let mut started = 1;
            let mut evs: Vec<String> = vec![];
            for _ in 0..n {
                evs.push(match rng.below(9) {
                    0 | 1 => { started += 1; format!("w{}", 10 + started) }
                    2 | 3 => format!("f{}", 1 + rng.below(started)),
                    4 | 5 | 6 => "u".into(),
                    7 => "y".into(),
                    _ => if rng.chance(1, 3) { "x".into() } else { "u".into() },
                });
            }
            l.push(format!("async resourcerd 7 {}", evs.join(",")));
        }
    }
    for seq in ["f1,u,y,w11,f2", "f1,u,w11,y,f2", "u,y,f1,w11,f2", "f1,u,u,y,w11,y,w12,f3", "u,f1,y,w11,f2,u,w12,y,f3", "f1,u,w11+y,f2", "f1,u,y+w11,f2,w12,f3"] {
        l.push(format!("async resource 7 {seq}"));
        if !seq.contains('+') { l.push(format!("async resourcefb 7 1 {seq}")); }
        if !seq.contains('+') && rng.chance(1, 2) { l.push(format!("async resourceself 7 {} {seq}", 11 + rng.below(3))); }
    }
    for _ in 0..(if thorough { 20_000 } else { 600 }) {
        let n = 3 + rng.below(8);
        let mut started = 1;
        let mut evs: Vec<String> = vec![];
        for _ in 0..n {
            evs.push(match rng.below(6) {
                0 | 1 => { started += 1; format!("w{}", 10 + started) }
                2 | 3 => format!("f{}", 1 + rng.below(started)),
                4 => "u".into(),
                _ => "y".into(),
            });
        }
        l.push(format!("async resource 7 {}", evs.join(",")));
    }
    // C15: dependency writes back to back (no executor turn in between: the superseded fetch has not been polled)
    for tail in ["f1", "f2", "f3", "f1,f2,f3", "f3,f2,f1", "f2,f3", "f3,f1", "f2,f1,f3"] {
        l.push(format!("async resource 7 w11+w12,{tail}"));
        l.push(format!("async resource 7 w11+w12+w13,{tail},f4"));
        l.push(format!("async resource 7 w11,f2,w12+w13,{tail},f4"));
        l.push(format!("async resource 7 w11+f1,{tail}"));
        l.push(format!("async resource 7 w11+x,{tail}"));
    }
    // C15: every event sequence over {w, f1..f4} up to length 5 (quick) / 6 (thorough), plus disposal variants
    let alpha = ["w", "f1", "f2", "f3", "f4"];
    let maxlen = if thorough { 6 } else { 5 };
    let mut seqs: Vec<Vec<&str>> = vec![vec![]];
    let mut frontier: Vec<Vec<&str>> = vec![vec![]];
    for _ in 0..maxlen {
        let mut next = vec![];
        for s in &frontier { for a in alpha { let mut t = s.clone(); t.push(a); next.push(t); } }
        seqs.extend(next.iter().cloned());
        frontier = next;
    }
    for (i, s) in seqs.iter().enumerate() {
        let mut wv = 10;
        let evs: Vec<String> = s.iter().map(|e| if *e == "w" { wv += 1; format!("w{wv}") } else { e.to_string() }).collect();
        l.push(format!("async resource 7 {}", if evs.is_empty() { "-".into() } else { evs.join(",") }));
        if i % 9 == 0 && !evs.is_empty() {
            let mut e2 = evs.clone();
            e2.insert(rng.below(evs.len() + 1), "x".into());
            l.push(format!("async resource 7 {}", e2.join(",")));
        }
    }
    l
}

pub fn run(args: &Args) {
    ACTIVE.with(|a| a.set(true));
    let mut sink = Sink::new(&args.out, "async");
    let (mut lines, only) = crate::corpus_lines(args);
    sink.note("corpus_cases", lines.len());
    if !only { lines.extend(generate(args)); }
    for l in &lines {
        begin_case_logged(l, &args.out, "async");
        let (obs, verdict, nt) = exec(l);
        sink.count(&format!("op:{}", l.split(' ').nth(1).unwrap_or("?")));
        if l.contains(",d") || l.contains(" d") || l.contains(",x") || l.contains(" x") { sink.count("with-disposal"); }
        if obs.contains("panic") { sink.count("result:panic"); }
        sink.case(l, &obs, verdict, nt);
    }
    sink.finish();
}
