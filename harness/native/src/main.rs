//! Correspondence harness (native engines). Runs the real sycamore code on generated cases and
//! writes, per engine, the request lines for the Lean driver, the implementation's canonical
//! observations and the verdicts of the implementation-side oracles.
mod route;
mod util;

use util::Args;

fn main() {
    let mut a = std::env::args().skip(1);
    let engine = a.next().expect("usage: syc-harness <engine> [--tier quick|thorough] [--seed N] --out DIR");
    let mut args = Args { engine, tier: "quick".into(), seed: 0, out: "out".into(), extra: vec![] };
    while let Some(x) = a.next() {
        match x.as_str() {
            "--tier" => args.tier = a.next().unwrap(),
            "--seed" => args.seed = a.next().unwrap().parse().unwrap(),
            "--out" => args.out = a.next().unwrap().into(),
            _ => args.extra.push(x),
        }
    }
    // Panics are captured per case; keep stderr quiet.
    std::panic::set_hook(Box::new(|_| {}));
    match args.engine.as_str() {
        "route" => route::run(&args),
        e => {
            eprintln!("unknown engine {e}");
            std::process::exit(2)
        }
    }
}
