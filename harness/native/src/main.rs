//! Correspondence harness (native engines). Runs the real sycamore code on generated cases and
//! writes, per engine, the request lines for the Lean driver, the implementation's canonical
//! observations and the verdicts of the implementation-side oracles.
mod assr;
mod asyncx;
mod isdyn;
mod listmap;
mod num;
mod reactive;
mod route;
mod ssr;
mod util;
#[path = "../../common/vd.rs"]
mod vd;
mod hydrategen;

use util::Args;

/// `--cases-file F` (repeatable): request lines to run first (corpus / replay);
/// `--only-cases`: do not generate anything else.
pub fn corpus_lines(args: &Args) -> (Vec<String>, bool) {
    let mut lines = vec![];
    let mut i = 0;
    while i < args.extra.len() {
        if args.extra[i] == "--cases-file" {
            for l in std::fs::read_to_string(&args.extra[i + 1]).unwrap().lines() {
                if !l.trim().is_empty() && !l.starts_with('#') {
                    lines.push(l.to_string());
                }
            }
            i += 1;
        }
        i += 1;
    }
    (lines, args.extra.iter().any(|x| x == "--only-cases"))
}

fn main() {
    let mut a = std::env::args().skip(1);
    let engine = a.next().expect("usage: syc-harness <engine> [--tier quick|thorough] [--seed N] --out DIR");
    let mut args = Args { engine, tier: "quick".into(), seed: 0, out: "out".into(), extra: vec![] };
    while let Some(x) = a.next() {
        match x.as_str() {
            "--tier" => args.tier = a.next().unwrap(),
            "--seed" => args.seed = a.next().unwrap().parse().unwrap(),
            "--out" => args.out = a.next().unwrap().into(),
            _ => args.extra.push(x),
        }
    }
    // Panics are captured per case; keep stderr quiet.
    std::panic::set_hook(Box::new(|info| {
        if std::env::var("VERIF_TRACE_PANICS").is_ok() { eprintln!("PANIC: {info}"); }
        // panics inside executor tasks are swallowed by tokio: remember them for the async engine
        if asyncx::ACTIVE.with(|a| a.get()) {
            asyncx::PANIC_LOG.with(|p| p.borrow_mut().push(info.to_string().replace('\n', " ")));
        }
        if util::IN_CATCH.with(|c| c.get()) == 0 && !asyncx::ACTIVE.with(|a| a.get()) {
            eprintln!("harness bug (panic outside a case): {info}");
        }
    }));
    util::start_watchdog(&args.out, &args.engine);
    match args.engine.as_str() {
        "route" => route::run(&args),
        "num" => num::run(&args),
        "isdyn" => isdyn::run(&args),
        "listmap" => listmap::run(&args),
        "reactive" => reactive::run(&args),
        "ssr" => ssr::run(&args),
        "async" => asyncx::run(&args),
        "assr" => assr::run(&args),
        "hydrategen" => hydrategen::run(&args),
        e => {
            eprintln!("unknown engine {e}");
            std::process::exit(2)
        }
    }
}
