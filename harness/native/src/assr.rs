//! E9 "assr" (C12, C13): server rendering with suspense in the three modes (sync, blocking, streaming) on a
//! real tokio LocalSet. Views contain Suspense boundaries, async components (each awaits a oneshot the harness
//! completes, then builds its children), input-less dynamic regions and shared resources. The harness feeds the
//! completion events one at a time, drains the executor after each, and records when the blocking render
//! returns and which chunks the stream yields.
use crate::util::*;
use futures::channel::oneshot;
use futures::StreamExt;
use std::cell::RefCell;
use std::collections::BTreeMap;
use std::rc::Rc;
use sycamore::prelude::*;
use sycamore::web::{create_isomorphic_resource, custom_element, Resource, Suspense, SuspenseProps, WrapAsync};

#[derive(Clone, Debug)]
pub enum AV {
    El(usize, Vec<AV>),
    Text(usize),
    Susp(Vec<AV>),
    AComp(usize, Vec<AV>),
    DynR(Vec<AV>),
    Res(usize),
}

const TAGS: &[&str] = &["div", "p", "span", "b"];

pub fn show(v: &AV) -> String {
    let l = |c: &Vec<AV>| c.iter().map(|c| format!(" {}", show(c))).collect::<String>();
    match v {
        AV::El(t, c) => format!("(el {t}{})", l(c)),
        AV::Text(n) => format!("(text {n})"),
        AV::Susp(c) => format!("(susp{})", l(c)),
        AV::AComp(t, c) => format!("(acomp {t}{})", l(c)),
        AV::DynR(c) => format!("(dynr{})", l(c)),
        AV::Res(r) => format!("(res {r})"),
    }
}

fn parse(s: &str) -> Option<Vec<AV>> {
    let toks: Vec<String> = s.replace('(', " ( ").replace(')', " ) ").split_whitespace().map(|x| x.to_string()).collect();
    fn go(t: &[String], i: &mut usize) -> Option<AV> {
        if t.get(*i)? != "(" { return None; }
        *i += 1;
        let head = t.get(*i)?.clone();
        *i += 1;
        let num = |t: &[String], i: &mut usize| -> Option<usize> { let n = t.get(*i)?.parse().ok()?; *i += 1; Some(n) };
        let kids = |t: &[String], i: &mut usize| -> Option<Vec<AV>> { let mut v = vec![]; while t.get(*i)? != ")" { v.push(go(t, i)?); } Some(v) };
        let r = match head.as_str() {
            "el" => { let n = num(t, i)?; AV::El(n, kids(t, i)?) }
            "text" => AV::Text(num(t, i)?),
            "susp" => AV::Susp(kids(t, i)?),
            "acomp" => { let n = num(t, i)?; AV::AComp(n, kids(t, i)?) }
            "dynr" => AV::DynR(kids(t, i)?),
            "res" => AV::Res(num(t, i)?),
            "L" => AV::DynR(kids(t, i)?), // only at top level, unwrapped by the caller
            _ => return None,
        };
        if t.get(*i)? != ")" { return None; }
        *i += 1;
        Some(r)
    }
    let mut i = 0;
    match go(&toks, &mut i)? { AV::DynR(v) if i == toks.len() => Some(v), _ => None }
}

thread_local! {
    /// panics swallowed by the executor in cancelled renders (observation only)
    static CANCELLED_PANICS: std::cell::Cell<usize> = const { std::cell::Cell::new(0) };
    /// live reactive nodes at the start of every render closure of the current case
    static NODE_COUNTS: RefCell<Vec<usize>> = const { RefCell::new(Vec::new()) };
    /// the first sample per mode (sync / blocking / streaming use three different roots)
    static FIRST_COUNT: RefCell<BTreeMap<String, usize>> = const { RefCell::new(BTreeMap::new()) };
}

/// per-render state: the receivers the async components wait on, the resources
#[derive(Clone)]
struct Ctx {
    rx: Rc<RefCell<BTreeMap<usize, oneshot::Receiver<()>>>>,
    res: Rc<RefCell<BTreeMap<usize, Resource<u32>>>>,
}

fn build(v: &AV, cx: &Ctx) -> View {
    match v {
        AV::El(t, cs) => {
            let e = custom_element(TAGS[*t % TAGS.len()]);
            if cs.is_empty() { e.into() } else { e.children(cs.iter().map(|c| build(c, cx)).collect::<Vec<View>>()).into() }
        }
        AV::Text(n) => format!("t{n}").into(),
        AV::Susp(cs) => {
            let (cs, cx) = (cs.clone(), cx.clone());
            sycamore::rt::component_scope(move || Suspense(SuspenseProps::builder()
                .fallback(|| "fb".into())
                .children(Children::new(move || View::from(cs.iter().map(|c| build(c, &cx)).collect::<Vec<View>>())))
                .build()))
        }
        AV::AComp(t, cs) => {
            let rx = cx.rx.borrow_mut().remove(t);
            let (cs, cx) = (cs.clone(), cx.clone());
            sycamore::rt::component_scope(move || WrapAsync(move || async move {
                if let Some(rx) = rx { let _ = rx.await; }
                View::from(cs.iter().map(|c| build(c, &cx)).collect::<Vec<View>>())
            }))
        }
        AV::DynR(cs) => {
            let (cs, cx) = (cs.clone(), cx.clone());
            View::from_dynamic(move || View::from(cs.iter().map(|c| build(c, &cx)).collect::<Vec<View>>()))
        }
        AV::Res(r) => {
            let res = *cx.res.borrow().get(r).expect("resource");
            View::from_dynamic(move || match res.get_clone() { Some(v) => format!("r{v}"), None => "none".to_string() })
        }
    }
}

fn collect(vs: &[AV], tasks: &mut Vec<usize>, ress: &mut Vec<usize>) {
    for v in vs {
        match v {
            AV::El(_, c) | AV::Susp(c) | AV::DynR(c) => collect(c, tasks, ress),
            AV::AComp(t, c) => { if !tasks.contains(t) { tasks.push(*t); } collect(c, tasks, ress) }
            AV::Res(r) => if !ress.contains(r) { ress.push(*r); },
            AV::Text(_) => {}
        }
    }
}

thread_local! { static INTRUDE: std::cell::Cell<bool> = const { std::cell::Cell::new(false) }; }
// mode `streamdrop1`: before the streaming render under test, a streaming render of the same view is started on the SAME
// executor, fed these events, and abandoned (the stream is dropped; its aborted tasks are still queued when the next
// render starts)
thread_local! { static ABANDON_FIRST: RefCell<Option<Vec<String>>> = const { RefCell::new(None) }; }

// modes `blockp` / `streamp`: a render of an unrelated view in the OTHER asynchronous mode is started BEFORE the render under
// test, stays suspended on one boundary, and finishes at one of the points between the events of the render under test
// (a response that is still streaming out when the next request is rendered on the thread, or the reverse)
thread_local! { static PENDING_OTHER: std::cell::Cell<Option<usize>> = const { std::cell::Cell::new(None) }; }

struct Other { s: Option<Senders>, at: usize, h: tokio::task::JoinHandle<()> }
impl Other {
    /// `own`: the mode of the render under test
    async fn start(own: &str) -> Option<Other> {
        // (only the render under test gets company: the reference renders of the oracles are carried out alone)
        let at = PENDING_OTHER.with(|p| p.take())?;
        let before = NODE_COUNTS.with(|c| c.borrow().len());
        let vs0 = parse("(L (el 0 (susp (acomp 0 (el 1 (text 0))))))").unwrap();
        let (f0, s0) = view_fn(&vs0);
        let h = if own == "block" {
            let mut st0 = Box::pin(sycamore::web::render_to_string_stream(f0));
            tokio::task::spawn_local(async move { while let Some(_) = StreamExt::next(&mut st0).await {} })
        } else {
            tokio::task::spawn_local(async move { let _ = sycamore::web::render_to_string_await_suspense(f0).await; })
        };
        drain().await;
        // the node count that is compared is the one at the start of the render under test
        NODE_COUNTS.with(|c| c.borrow_mut().truncate(before));
        Some(Other { s: Some(s0), at, h })
    }
    /// the k-th point between the events of the render under test
    async fn tick(&mut self, k: usize) {
        if k == self.at { self.finish().await; }
    }
    async fn finish(&mut self) {
        if let Some(mut s0) = self.s.take() { s0.fire("c0"); drain().await; }
    }
}
async fn other_tick(o: &mut Option<Other>, k: usize) { if let Some(o) = o { o.tick(k).await; } }
async fn other_end(o: &mut Option<Other>) { if let Some(o) = o { o.finish().await; drain().await; o.h.abort(); } }

/// modes `blockx` / `streamx`: between the events of the render under test, complete renders of an unrelated,
/// task-free view are carried out on the same thread in the OTHER modes (renders are isolated from each other)
async fn intrude(own: &str) {
    if !INTRUDE.with(|i| i.get()) { return; }
    let other = || sycamore::web::tags::p().children("other").into();
    let _ = sycamore::web::render_to_string(other);
    if own != "block" { let _ = sycamore::web::render_to_string_await_suspense(other).await; }
    if own != "stream" {
        let mut st = Box::pin(sycamore::web::render_to_string_stream(other));
        while let Some(_) = StreamExt::next(&mut st).await {}
    }
}

async fn drain() {
    for _ in 0..60 { tokio::task::yield_now().await; }
}

struct Senders {
    task: BTreeMap<usize, oneshot::Sender<()>>,
    res: BTreeMap<usize, oneshot::Sender<()>>,
}
impl Senders {
    fn fire(&mut self, e: &str) {
        let n: usize = e[1..].parse().unwrap();
        if e.starts_with('c') { if let Some(tx) = self.task.remove(&n) { let _ = tx.send(()); } }
        if e.starts_with('r') { if let Some(tx) = self.res.remove(&n) { let _ = tx.send(()); } }
    }
}

/// the closure handed to the renderers, with fresh await points
fn view_fn(vs: &[AV]) -> (impl FnOnce() -> View, Senders) {
    let (mut tasks, mut ress) = (vec![], vec![]);
    collect(vs, &mut tasks, &mut ress);
    let mut s = Senders { task: BTreeMap::new(), res: BTreeMap::new() };
    let mut rxs = BTreeMap::new();
    for t in tasks { let (tx, rx) = oneshot::channel(); s.task.insert(t, tx); rxs.insert(t, rx); }
    let mut rrx = BTreeMap::new();
    for r in ress { let (tx, rx) = oneshot::channel::<()>(); s.res.insert(r, tx); rrx.insert(r, rx); }
    let vs = vs.to_vec();
    let f = move || {
        // C12: a finished render released everything: the arena looks the same at the start of every render
        NODE_COUNTS.with(|c| c.borrow_mut().push(sycamore_reactive::verif::node_count()));
        let cx = Ctx { rx: Rc::new(RefCell::new(rxs)), res: Default::default() };
        for (r, rx) in rrx {
            let mut rx = Some(rx);
            let res = create_isomorphic_resource(move || { let rx = rx.take(); async move { if let Some(rx) = rx { let _ = rx.await; } 7u32 } });
            cx.res.borrow_mut().insert(r, res);
        }
        View::from(vs.iter().map(|c| build(c, &cx)).collect::<Vec<View>>())
    };
    (f, s)
}

fn render_sync(vs: &[AV]) -> Result<String, String> {
    // resources and async components outside a boundary spawn tasks even in sync mode: provide an executor
    let vs = vs.to_vec();
    catch(move || {
        let rt = tokio::runtime::Builder::new_current_thread().build().unwrap();
        let local = tokio::task::LocalSet::new();
        local.block_on(&rt, async move {
            let (f, mut s) = view_fn(&vs);
            let html = sycamore::web::render_to_string(f);
            // nothing is awaited in sync mode; finish what was spawned before leaving the case
            let rest: Vec<String> = s.task.keys().map(|t| format!("c{t}")).chain(s.res.keys().map(|r| format!("r{r}"))).collect();
            for e in rest { s.fire(&e); }
            drain().await;
            html
        })
    })
}

/// blocking render: (number of events after which the future returned, html) or "hang"
fn render_block(vs: &[AV], events: &[String]) -> Result<(Option<usize>, String), String> {
    render_block_opt(vs, events, false)
}

/// `abandon`: after the given events the render future is dropped (a cancelled request) and nothing else
/// is completed: whatever it left on the thread is there when the next render starts
fn render_block_opt(vs: &[AV], events: &[String], abandon: bool) -> Result<(Option<usize>, String), String> {
    let vs = vs.to_vec();
    let events = events.to_vec();
    catch(move || {
        let rt = tokio::runtime::Builder::new_current_thread().build().unwrap();
        let local = tokio::task::LocalSet::new();
        local.block_on(&rt, async move {
            let mut other = Other::start("block").await;
            let (f, mut s) = view_fn(&vs);
            let done: Rc<RefCell<Option<String>>> = Default::default();
            let d2 = done.clone();
            let h = tokio::task::spawn_local(async move {
                let html = sycamore::web::render_to_string_await_suspense(f).await;
                *d2.borrow_mut() = Some(html);
            });
            drain().await;
            intrude("block").await;
            other_tick(&mut other, 0).await;
            drain().await;
            let mut at = if done.borrow().is_some() { Some(0) } else { None };
            for (k, e) in events.iter().enumerate() {
                s.fire(e);
                drain().await;
                intrude("block").await;
                other_tick(&mut other, k + 1).await;
                drain().await;
                if at.is_none() && done.borrow().is_some() { at = Some(k + 1); }
            }
            let html = done.borrow_mut().take();
            other_end(&mut other).await;
            if abandon {
                h.abort();
                drain().await;
                return (at, if at.is_some() { html.unwrap_or_default() } else { String::new() });
            }
            // do not abandon a render half-way (its scope would stay on the thread): let it finish
            let rest: Vec<String> = s.task.keys().map(|t| format!("c{t}")).chain(s.res.keys().map(|r| format!("r{r}"))).collect();
            for e in rest { s.fire(&e); drain().await; }
            drain().await;
            h.abort();
            (at, if at.is_some() { html.unwrap_or_default() } else { String::new() })
        })
    })
}

/// streaming render: the shell and, per event, the fragments that became ready; `ended` = the stream finished
fn render_stream(vs: &[AV], events: &[String]) -> Result<(String, Vec<Vec<String>>, Option<usize>), String> {
    let vs = vs.to_vec();
    let events = events.to_vec();
    catch(move || {
        let rt = tokio::runtime::Builder::new_current_thread().build().unwrap();
        let local = tokio::task::LocalSet::new();
        local.block_on(&rt, async move {
            let mut keep_alive = None;
            if let Some(ev0) = ABANDON_FIRST.with(|a| a.borrow_mut().take()) {
                let (f0, mut s0) = view_fn(&vs);
                let mut st0 = Box::pin(sycamore::web::render_to_string_stream(f0));
                drain().await;
                while let Some(Some(_)) = futures::FutureExt::now_or_never(StreamExt::next(&mut st0)) {}
                for e in ev0.iter() { s0.fire(e); drain().await; while let Some(Some(_)) = futures::FutureExt::now_or_never(StreamExt::next(&mut st0)) {} }
                drop(st0);
                // (no executor turn here: the next render starts at once; the first one's senders stay alive)
                keep_alive = Some(s0);
                NODE_COUNTS.with(|c| c.borrow_mut().clear());
            }
            let mut other = Other::start("stream").await;
            let (f, mut s) = view_fn(&vs);
            let stream = sycamore::web::render_to_string_stream(f);
            let mut stream = Box::pin(stream);
            let mut ended: Option<usize> = None;
            let take = |stream: &mut std::pin::Pin<Box<_>>, ended: &mut Option<usize>, k: usize| -> Vec<String> {
                let mut v = vec![];
                loop {
                    match futures::FutureExt::now_or_never(StreamExt::next(stream)) {
                        Some(Some(c)) => v.push(c),
                        Some(None) => { if ended.is_none() { *ended = Some(k); } break; }
                        None => break,
                    }
                }
                v
            };
            drain().await;
            let mut first = take(&mut stream, &mut ended, 0);
            intrude("stream").await;
            other_tick(&mut other, 0).await;
            drain().await;
            first.extend(take(&mut stream, &mut ended, 0));
            let shell = if first.is_empty() { String::new() } else { first.remove(0) };
            let mut per = vec![first];
            for (k, e) in events.iter().enumerate() {
                s.fire(e);
                drain().await;
                let mut got = take(&mut stream, &mut ended, k + 1);
                intrude("stream").await;
                other_tick(&mut other, k + 1).await;
                drain().await;
                got.extend(take(&mut stream, &mut ended, k + 1));
                per.push(got);
            }
            // let the render finish before leaving the case (see render_block)
            let rest: Vec<String> = s.task.keys().map(|t| format!("c{t}")).chain(s.res.keys().map(|r| format!("r{r}"))).collect();
            for e in rest { s.fire(&e); drain().await; let _ = take(&mut stream, &mut None, 0); }
            drain().await;
            let _ = take(&mut stream, &mut None, 0);
            other_end(&mut other).await;
            drop(keep_alive);
            drain().await;
            (shell, per, ended)
        })
    })
}

// ------------------------------------------------------------------ oracle helpers (independent of the model)

fn attr_values(html: &str, attr: &str) -> Vec<String> {
    let pat = format!("{attr}=\"");
    let mut v = vec![];
    let mut rest = html;
    while let Some(i) = rest.find(&pat) {
        let r = &rest[i + pat.len()..];
        let j = r.find('"').unwrap_or(r.len());
        v.push(r[..j].to_string());
        rest = &r[j..];
    }
    v
}

/// hydration keys are unique and dense per suspense scope; suspense keys are 1..n, each used by one boundary
fn key_discipline(html: &str) -> Option<String> {
    let hks = attr_values(html, "data-hk");
    let mut per: BTreeMap<u32, Vec<u32>> = BTreeMap::new();
    for k in &hks {
        let (a, b) = k.split_once('.')?;
        per.entry(a.parse().ok()?).or_default().push(b.parse().ok()?);
    }
    for (s, v) in &per {
        let mut w = v.clone();
        w.sort();
        if w.windows(2).any(|p| p[0] == p[1]) { return Some(format!("[ssr-keys] hydration key {s}.x used twice: {v:?}")); }
        if w != (0..w.len() as u32).collect::<Vec<_>>() { return Some(format!("[ssr-keys] hydration keys of suspense scope {s} are not dense: {v:?}")); }
    }
    // data-key of suspense-start elements
    let mut starts = vec![];
    let mut rest = html;
    while let Some(i) = rest.find("<suspense-start") {
        let r = &rest[i..];
        let j = r.find('>').unwrap_or(r.len());
        if let Some(k) = attr_values(&r[..j], "data-key").first() { starts.push(k.parse::<u32>().unwrap_or(0)); }
        rest = &r[j..];
    }
    let mut w = starts.clone();
    w.sort();
    if w.windows(2).any(|p| p[0] == p[1]) { return Some(format!("[ssr-keys] suspense key used by two boundaries: {starts:?}")); }
    if w != (1..=w.len() as u32).collect::<Vec<_>>() { return Some(format!("[ssr-keys] suspense keys are not 1..n: {starts:?}")); }
    None
}

/// visible text content (tags, comments, scripts and templates removed)
fn visible(html: &str) -> String {
    let mut out = String::new();
    let mut rest = html;
    loop {
        match rest.find('<') {
            None => { out += rest; break; }
            Some(i) => {
                out += &rest[..i];
                let r = &rest[i..];
                if r.starts_with("<!--") { let j = r.find("-->").map(|j| j + 3).unwrap_or(r.len()); rest = &r[j..]; }
                else if r.starts_with("<script") { let j = r.find("</script>").map(|j| j + 9).unwrap_or(r.len()); rest = &r[j..]; }
                else if r.starts_with("<!doctype") { let j = r.find('>').map(|j| j + 1).unwrap_or(r.len()); rest = &r[j..]; }
                else {
                    let j = r.find('>').map(|j| j + 1).unwrap_or(r.len());
                    let tag = &r[1..j.saturating_sub(1)];
                    let name = tag.trim_start_matches('/').split(|c: char| c == ' ' || c == '>').next().unwrap_or("");
                    if !matches!(name, "suspense-start" | "suspense-end" | "no-ssr" | "template") { out += &format!("<{}{}>", if tag.starts_with('/') { "/" } else { "" }, name); }
                    rest = &r[j..];
                }
            }
        }
    }
    out
}

/// apply the streamed fragments to the shell the way `__sycamore_suspense` does, on the markup text
fn apply_fragments(shell: &str, frags: &[String]) -> Result<String, String> {
    let mut doc = shell.to_string();
    for f in frags {
        let id_pat = "<template id=\"sycamore-suspense-";
        let i = f.find(id_pat).ok_or_else(|| format!("fragment without template: {f}"))?;
        let r = &f[i + id_pat.len()..];
        let key: String = r.chars().take_while(|c| c.is_ascii_digit()).collect();
        let body_start = r.find('>').unwrap() + 1;
        let body_end = r.find("</template>").ok_or("unterminated template")?;
        let body = &r[body_start..body_end];
        let start_pat = format!("<suspense-start data-key=\"{key}\"");
        let s = doc.find(&start_pat).ok_or_else(|| format!("[stream-parent-first] the fragment of boundary {key} was sent before its start marker was in the document"))?;
        let end_pat = format!("<suspense-end data-key=\"{key}\"");
        let e = doc.find(&end_pat).ok_or_else(|| format!("no suspense-end for boundary {key}"))?;
        // content goes before the start marker; everything between start and end is removed
        let start_close = s + doc[s..].find("</suspense-start>").map(|j| j + "</suspense-start>".len()).unwrap_or(0);
        if e < start_close { return Err(format!("suspense-end before suspense-start for boundary {key}")); }
        doc = format!("{}{}{}{}", &doc[..s], body, &doc[s..start_close], &doc[e..]);
    }
    Ok(doc)
}

/// the fragments that went out after each event; the order of unrelated fragments within one event is
/// not specified (it follows the scheduling of effects), so they are listed by boundary key — the
/// parent-first order is judged by the oracle on the real order
fn show_chunks(per: &[Vec<String>]) -> String {
    per.iter().enumerate().map(|(k, v)| {
        let mut v: Vec<&String> = v.iter().collect();
        v.sort_by_key(|c| attr_values(c, "template id").first().and_then(|id| id.rsplit('-').next().and_then(|n| n.parse::<u32>().ok())).unwrap_or(0));
        format!("e{k}:[{}]", v.iter().map(|c| enc(c)).collect::<Vec<_>>().join(","))
    }).collect::<Vec<_>>().join(" | ")
}

fn exec(line: &str) -> (String, Option<String>, bool) {
    // `blockp` cases run on a thread of their own: whether the thread is in hydration mode when the first of the two
    // renders starts is part of the scenario (a thread that has carried out a streaming render stays in that mode),
    // and a fresh thread starts outside it
    if line.starts_with("assr blockp ") && std::thread::current().name() != Some("assr-fresh") {
        let l = line.to_string();
        return match std::thread::Builder::new().name("assr-fresh".into()).spawn(move || exec(&l)).unwrap().join() {
            Ok(r) => r,
            Err(_) => ("panic".into(), Some("[ssr-panic] the renders of the case panicked on their thread".into()), true),
        };
    }
    let rest = line.strip_prefix("assr ").unwrap();
    let (mode, rest) = rest.split_once(' ').unwrap();
    let (sexp, evs) = rest.rsplit_once(' ').unwrap();
    let Some(vs) = parse(sexp) else { return ("bad-op".into(), None, false) };
    let events: Vec<String> = if evs == "-" { vec![] } else { evs.split(',').map(|s| s.to_string()).collect() };
    let mut verdict: Option<String> = None;
    NODE_COUNTS.with(|c| c.borrow_mut().clear());
    let (mode, intr) = match mode { "blockx" => ("block", true), "streamx" => ("stream", true), m => (m, false) };
    let (mode, pend) = match mode { "blockp" => ("block", true), "streamp" => ("stream", true), m => (m, false) };
    let (mode, events) = if mode == "streamdrop1" {
        let (mut tasks, mut ress) = (vec![], vec![]);
        collect(&vs, &mut tasks, &mut ress);
        ABANDON_FIRST.with(|a| *a.borrow_mut() = Some(events.clone()));
        ("stream", tasks.iter().map(|t| format!("c{t}")).chain(ress.iter().map(|r| format!("r{r}"))).collect::<Vec<String>>())
    } else { (mode, events) };
    INTRUDE.with(|i| i.set(intr));
    if pend { PENDING_OTHER.with(|p| p.set(Some(line.bytes().map(|b| b as usize).sum::<usize>() % (events.len() + 1)))); }
    let obs = exec_mode(mode, &vs, &events, &mut verdict);
    INTRUDE.with(|i| i.set(false));
    PENDING_OTHER.with(|p| p.set(None));
    if pend && verdict.is_none() {
        let mut v2 = None;
        let alone = exec_mode(mode, &vs, &events, &mut v2);
        if alone != obs {
            let at = obs.char_indices().zip(alone.chars()).find(|((_, a), b)| a != b).map(|((i, _), _)| i).unwrap_or(obs.len().min(alone.len()));
            let class = if mode == "block" { "ssr-isolation" } else { "ssr-overlap-block-first" };
            verdict = Some(format!("[{class}] a {mode} render gives a different result when a render of an unrelated view in the other asynchronous mode, started before it and suspended, finishes between its events: first difference at byte {at} of the observation (`…{}` with it, `…{}` alone)",
                obs.chars().skip(at.saturating_sub(12)).take(40).collect::<String>(), alone.chars().skip(at.saturating_sub(12)).take(40).collect::<String>()));
        }
    }
    if intr && verdict.is_none() {
        // isolation, stated directly: the same render with the same completion order, carried out alone
        let mut v2 = None;
        let alone = exec_mode(mode, &vs, &events, &mut v2);
        if alone != obs {
            let at = obs.char_indices().zip(alone.chars()).find(|((_, a), b)| a != b).map(|((i, _), _)| i).unwrap_or(obs.len().min(alone.len()));
            verdict = Some(format!("[ssr-isolation] a {mode} render gives a different result when complete renders of other modes (of an unrelated view) run on the thread between its events: first difference at byte {at} of the observation (`…{}` with them, `…{}` alone)",
                obs.chars().skip(at.saturating_sub(12)).take(40).collect::<String>(), alone.chars().skip(at.saturating_sub(12)).take(40).collect::<String>()));
        }
    }
    // the first render closure of the case belongs to `mode`
    if let Some(n) = NODE_COUNTS.with(|c| c.borrow().first().copied()) {
        let root_of = if mode.starts_with("blockdrop") { "block" } else { mode };
        let first = FIRST_COUNT.with(|f| *f.borrow_mut().entry(root_of.to_string()).or_insert(n));
        if n != first {
            verdict.get_or_insert(format!("[ssr-node-count] {n} live reactive nodes at the start of this {mode} render, {first} at the start of the first one on this thread"));
        }
    }
    (obs, verdict, !events.is_empty())
}

fn exec_mode(mode: &str, vs: &[AV], events: &[String], verdict_out: &mut Option<String>) -> String {
    let vs = vs.to_vec();
    let events = events.to_vec();
    let mut verdict: Option<String> = None;
    let obs = match mode {
        "sync" => match render_sync(&vs) {
            Ok(h) => {
                if let Ok(h2) = render_sync(&vs) { if h2 != h { verdict = Some("[ssr-determinism] two sync renders of the same view differ".into()); } }
                verdict = verdict.or(key_discipline(&h));
                format!("html={}", enc(&h))
            }
            Err(m) => { verdict = Some(format!("[ssr-panic] sync render panicked: {m}")); "panic".into() }
        },
        "block" => match render_block(&vs, &events) {
            Ok((at, h)) => {
                // determinism across renders on the same thread, whatever was rendered in between
                let _ = render_sync(&vs);
                match render_block(&vs, &events) {
                    Ok((at2, h2)) => if (at2, &h2) != (at, &h) { verdict = Some(format!("[ssr-determinism] two blocking renders with the same completion order differ: `{h}` vs `{h2}`")); },
                    Err(m) => verdict = Some(format!("[ssr-panic] second blocking render panicked: {m}")),
                }
                if at.is_some() { verdict = verdict.or(key_discipline(&h)); }
                match at { Some(k) => format!("done@{k} html={}", enc(&h)), None => "hang".into() }
            }
            Err(m) => { verdict = Some(format!("[ssr-panic] blocking render panicked: {m}")); "panic".into() }
        },
        // a blocking render cancelled after `events` (the future is dropped), then a complete blocking render
        // of the same view: it must look like any first render (C12: whatever was rendered before)
        "blockdrop" => {
            let first = render_block_opt(&vs, &events, true);
            // the wait-effect of a cancelled render panics inside the executor when its suspense resolves
            // later (`tx.send(()).ok().unwrap()` with the receiver gone); tokio swallows it and the next
            // render re-initialises the root: recorded as an observation (DESIGN R.4), not judged here
            let n = crate::asyncx::PANIC_LOG.with(|p| p.borrow_mut().drain(..).count());
            if n > 0 { CANCELLED_PANICS.with(|c| c.set(c.get() + n)); }
            let (mut tasks, mut ress) = (vec![], vec![]);
            collect(&vs, &mut tasks, &mut ress);
            let full: Vec<String> = tasks.iter().map(|t| format!("c{t}")).chain(ress.iter().map(|r| format!("r{r}"))).collect();
            NODE_COUNTS.with(|c| c.borrow_mut().clear());
            match render_block(&vs, &full) {
                Ok((at, h)) => {
                    if at.is_some() { verdict = key_discipline(&h); }
                    if let Err(m) = first { verdict.get_or_insert(format!("[ssr-panic] the cancelled render panicked: {m}")); }
                    match at { Some(k) => format!("done@{k} html={}", enc(&h)), None => "hang".into() }
                }
                Err(m) => { verdict = Some(format!("[ssr-panic] blocking render after a cancelled one panicked: {m}")); "panic".into() }
            }
        }
        // the same on ONE executor: the cancelled render's tasks are still queued when the next render starts
        "blockdrop1" => {
            let (mut tasks, mut ress) = (vec![], vec![]);
            collect(&vs, &mut tasks, &mut ress);
            let full: Vec<String> = tasks.iter().map(|t| format!("c{t}")).chain(ress.iter().map(|r| format!("r{r}"))).collect();
            let (vs2, ev2) = (vs.clone(), events.clone());
            let r = catch(move || {
                let rt = tokio::runtime::Builder::new_current_thread().build().unwrap();
                let local = tokio::task::LocalSet::new();
                local.block_on(&rt, async move {
                    // first render: cancelled after `events`
                    let (f, mut s) = view_fn(&vs2);
                    let h = tokio::task::spawn_local(async move { let _ = sycamore::web::render_to_string_await_suspense(f).await; });
                    drain().await;
                    for e in ev2.iter() { s.fire(e); drain().await; }
                    h.abort();
                    // second render, started at once on the same executor; the first one's senders stay alive
                    NODE_COUNTS.with(|c| c.borrow_mut().clear());
                    let (f2, mut s2) = view_fn(&vs2);
                    let done: Rc<RefCell<Option<String>>> = Default::default();
                    let d2 = done.clone();
                    let h2 = tokio::task::spawn_local(async move { *d2.borrow_mut() = Some(sycamore::web::render_to_string_await_suspense(f2).await); });
                    drain().await;
                    let mut at = if done.borrow().is_some() { Some(0) } else { None };
                    for (k, e) in full.iter().enumerate() {
                        s2.fire(e);
                        drain().await;
                        if at.is_none() && done.borrow().is_some() { at = Some(k + 1); }
                    }
                    let html = done.borrow_mut().take();
                    h2.abort();
                    drop(s);
                    drain().await;
                    (at, html.unwrap_or_default())
                })
            });
            match r {
                Ok((at, h)) => {
                    if at.is_some() { verdict = key_discipline(&h); }
                    match at { Some(k) => format!("done@{k} html={}", enc(&h)), None => "hang".into() }
                }
                Err(m) => { verdict = Some(format!("[ssr-panic] blocking render after a cancelled one (same executor) panicked: {m}")); "panic".into() }
            }
        }
        "stream" => match render_stream(&vs, &events) {
            Ok((shell, per, ended)) => {
                let all: Vec<String> = per.iter().flatten().cloned().collect();
                let whole = format!("{}{}", shell, all.join(""));
                // premise of the streaming clauses: async content sits under a boundary (what resolves outside
                // every boundary after the shell was sent has no fragment to travel in)
                fn outside(vs: &[AV], under: bool) -> bool {
                    vs.iter().any(|v| match v {
                        AV::AComp(_, c) => !under || outside(c, under),
                        AV::Res(_) => !under,
                        AV::Susp(c) => outside(c, true),
                        AV::El(_, c) | AV::DynR(c) => outside(c, under),
                        AV::Text(_) => false,
                    })
                }
                if outside(&vs, false) {
                    return format!("shell={} | {} | end@{}", enc(&shell), show_chunks(&per), ended.map(|k| k.to_string()).unwrap_or("-".into()));
                }
                verdict = if ended.is_some() { key_discipline(&whole) } else { None };
                // each boundary's fragment at most once
                let ids = attr_values(&all.join(""), "template id");
                let mut seen = vec![];
                for id in &ids { if seen.contains(id) { verdict.get_or_insert(format!("[stream-once] fragment {id} streamed twice")); } seen.push(id.clone()); }
                // parent first + equals blocking (when everything completed)
                match apply_fragments(&shell, &all) {
                    Err(m) => { verdict.get_or_insert(if m.starts_with('[') { format!("{m} (fragments went out in the order {:?})", attr_values(&all.join(""), "template id")) } else { format!("[stream-apply] {m}") }); }
                    Ok(doc) => {
                        if ended.is_some() {
                            if let Ok((Some(_), hb)) = render_block(&vs, &events) {
                                let (a, b) = (visible(&doc), visible(&hb));
                                if a != b { verdict.get_or_insert(format!("[stream-equals-blocking] the streamed document shows `{a}`, the blocking render `{b}`")); }
                            }
                        }
                    }
                }
                format!("shell={} | {} | end@{}", enc(&shell), show_chunks(&per), ended.map(|k| k.to_string()).unwrap_or("-".into()))
            }
            Err(m) => { verdict = Some(format!("[ssr-panic] streaming render panicked: {m}")); "panic".into() }
        },
        _ => "bad-op".into(),
    };
    *verdict_out = verdict;
    obs
}

fn gen(rng: &mut Rng, depth: usize, budget: &mut usize, ntask: &mut usize, in_susp: bool) -> AV {
    if *budget > 0 { *budget -= 1; }
    let leaf = depth == 0 || *budget == 0;
    match rng.below(if leaf { 2 } else { 9 }) {
        0 => AV::Text(rng.below(3)),
        1 => if in_susp && rng.chance(1, 2) { AV::Res(rng.below(2)) } else { AV::Text(rng.below(3)) },
        2 | 3 => AV::El(rng.below(4), (0..rng.below(3)).map(|_| gen(rng, depth - 1, budget, ntask, in_susp)).collect()),
        4 | 5 => AV::Susp((0..1 + rng.below(2)).map(|_| gen(rng, depth - 1, budget, ntask, true)).collect()),
        6 | 7 => { let t = *ntask; *ntask += 1; AV::AComp(t, (0..rng.below(3)).map(|_| gen(rng, depth - 1, budget, ntask, in_susp)).collect()) }
        _ => AV::DynR((0..1 + rng.below(2)).map(|_| gen(rng, depth - 1, budget, ntask, in_susp)).collect()),
    }
}

fn permutations(v: &[String]) -> Vec<Vec<String>> {
    if v.len() <= 1 { return vec![v.to_vec()]; }
    let mut out = vec![];
    for i in 0..v.len() {
        let mut rest = v.to_vec();
        let x = rest.remove(i);
        for mut p in permutations(&rest) { p.insert(0, x.clone()); out.push(p); }
    }
    out
}

pub fn generate(args: &Args) -> Vec<String> {
    let thorough = args.tier == "thorough";
    let mut rng = Rng::new(args.seed ^ 0xA55);
    let mut l = vec![];
    let fam = [
        "(L (el 0 (susp (acomp 0 (el 1 (text 0))))))",
        "(L (susp (acomp 0 (text 0)) (acomp 1 (el 1))) (el 0))",
        "(L (susp (acomp 0 (susp (acomp 1 (text 1))))))",
        "(L (susp (acomp 0 (text 0) (susp (acomp 1 (el 2) (susp (acomp 2 (text 2))))))))",
        "(L (susp (acomp 0 (text 0)) (susp (acomp 1 (text 1)) (susp (acomp 2 (text 2))))))",
        "(L (dynr (susp (acomp 0 (el 0)))) (susp (acomp 1 (el 1))))",
        "(L (dynr (susp (acomp 0 (el 0)))) (dynr (susp (acomp 1 (el 1)))))",
        "(L (susp (res 0)) (susp (el 0 (res 0)) (acomp 0 (res 1))))",
        "(L (el 0 (text 0) (susp (text 1)) (susp)))",
        "(L (acomp 0 (el 1)) (susp (acomp 1 (acomp 2 (text 0)))))",
    ];
    for f in fam {
        let vs = parse(f).unwrap();
        let (mut tasks, mut ress) = (vec![], vec![]);
        collect(&vs, &mut tasks, &mut ress);
        let mut evs: Vec<String> = tasks.iter().map(|t| format!("c{t}")).collect();
        evs.extend(ress.iter().map(|r| format!("r{r}")));
        l.push(format!("assr sync {f} -"));
        let mut perms = permutations(&evs);
        perms.sort(); perms.dedup();
        for p in perms {
            let e = if p.is_empty() { "-".to_string() } else { p.join(",") };
            l.push(format!("assr block {f} {e}"));
            l.push(format!("assr stream {f} {e}"));
            l.push(format!("assr blockx {f} {e}"));
            l.push(format!("assr streamx {f} {e}"));
            l.push(format!("assr blockp {f} {e}"));
            l.push(format!("assr streamp {f} {e}"));
            // an incomplete schedule: the last completion never happens
            if p.len() > 1 { let q = p[..p.len() - 1].join(","); l.push(format!("assr block {f} {q}")); l.push(format!("assr stream {f} {q}")); l.push(format!("assr blockdrop {f} {q}")); }
            if p.len() == 1 { l.push(format!("assr blockdrop {f} -")); }
            if p.len() > 1 { let q = p[..p.len() - 1].join(","); l.push(format!("assr streamdrop1 {f} {q}")); }
            l.push(format!("assr streamdrop1 {f} -"));
        }
    }
    let n = if thorough { 20_000 } else { 700 };
    for _ in 0..n {
        let mut budget = 9;
        let mut ntask = 0;
        let k = 1 + rng.below(2);
        let vs: Vec<AV> = (0..k).map(|_| gen(&mut rng, 4, &mut budget, &mut ntask, false)).collect();
        let (mut tasks, mut ress) = (vec![], vec![]);
        collect(&vs, &mut tasks, &mut ress);
        let mut evs: Vec<String> = tasks.iter().map(|t| format!("c{t}")).collect();
        evs.extend(ress.iter().map(|r| format!("r{r}")));
        for i in (1..evs.len()).rev() { let j = rng.below(i + 1); evs.swap(i, j); }
        if rng.chance(1, 6) && !evs.is_empty() { evs.pop(); }
        let s = format!("(L{})", vs.iter().map(|v| format!(" {}", show(v))).collect::<String>());
        let e = if evs.is_empty() { "-".to_string() } else { evs.join(",") };
        l.push(format!("assr sync {s} -"));
        l.push(format!("assr block {s} {e}"));
        l.push(format!("assr stream {s} {e}"));
        if rng.chance(1, 3) { l.push(format!("assr {} {s} {e}", if rng.chance(1, 2) { "blockx" } else { "streamx" })); }
        if rng.chance(1, 3) { l.push(format!("assr {} {s} {e}", if rng.chance(1, 2) { "blockp" } else { "streamp" })); }
        if !evs.is_empty() && rng.chance(1, 3) {
            let cut = rng.below(evs.len());
            l.push(format!("assr streamdrop1 {s} {}", if cut == 0 { "-".to_string() } else { evs[..cut].join(",") }));
            l.push(format!("assr blockdrop {s} {}", if cut == 0 { "-".to_string() } else { evs[..cut].join(",") }));
        }
    }
    l
}

pub fn run(args: &Args) {
    crate::asyncx::ACTIVE.with(|a| a.set(true));
    let mut sink = Sink::new(&args.out, "assr");
    let (mut lines, only) = crate::corpus_lines(args);
    sink.note("corpus_cases", lines.len());
    if !only { lines.extend(generate(args)); }
    for l in &lines {
        crate::asyncx::PANIC_LOG.with(|p| p.borrow_mut().clear());
        begin_case_logged(l, &args.out, "assr");
        let (obs, mut verdict, nt) = exec(l);
        let panics: Vec<String> = crate::asyncx::PANIC_LOG.with(|p| p.borrow_mut().drain(..).collect());
        if verdict.is_none() && !panics.is_empty() && !obs.contains("panic") {
            verdict = Some(format!("[ssr-panic] a task panicked inside the executor: {}", panics[0]));
        }
        sink.count(&format!("mode:{}", l.split(' ').nth(1).unwrap_or("?")));
        for k in ["susp", "acomp", "dynr", "res"] { if l.contains(&format!("({k}")) { sink.count(&format!("has:{k}")); } }
        if obs.starts_with("hang") || obs.contains("end@-") { sink.count("result:incomplete"); }
        if obs.contains("panic") { sink.count("result:panic"); }
        sink.case(l, &obs, verdict, nt);
    }
    sink.note("panics_swallowed_in_cancelled_renders", CANCELLED_PANICS.with(|c| c.get()));
    sink.finish();
}
