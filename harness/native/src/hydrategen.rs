//! Generator for the hydration engine (C09): renders generated view descriptions with the real
//! server-side renderer and writes one request line per case, SSR string included, for harness/dom.
use crate::util::*;
use crate::vd::*;
use sycamore::prelude::*;

pub fn ssr_of(vds: &[VD], store: &[u32]) -> Result<String, String> {
    let (v2, s2) = (vds.to_vec(), store.to_vec());
    catch(move || sycamore::web::render_to_string(move || {
        let sigs: Vec<Signal<u32>> = s2.iter().map(|v| create_signal(*v)).collect();
        View::from(v2.iter().map(|v| build(v, &sigs)).collect::<Vec<View>>())
    }))
}

pub fn run(args: &Args) {
    let thorough = args.tier == "thorough";
    let mut rng = Rng::new(args.seed ^ 0x9999);
    let mut lines = vec![];
    let mut push = |vds: &[VD], store: &[u32], ws: &str| {
        if let Ok(ssr) = ssr_of(vds, store) {
            lines.push(format!("hydrate run (L{}) {} {} {}", vds.iter().map(|v| format!(" {}", sx(v))).collect::<String>(),
                store.iter().map(|x| x.to_string()).collect::<Vec<_>>().join(","), ws, enc(&ssr)));
        }
    };
    let fam = [
        "(L (el 100 (A (99 (d 0)) (104 (b 1))) (C (text 104) (dtext 0) (dview 1 (alt (text 97)) (alt (el 98 (A) (C)) (dtext 0))))))",
        "(L (el 112 (A) (C (text 72.101.108.108.111.32) (dtext 0) (text 33))) (dtext 1))",
        "(L (dview 0 (alt (el 97 (A) (C (dtext 1)))) (alt (el 98 (A) (C)) (el 99 (A) (C)))) (el 100 (A) (C)))",
        "(L (el 100 (A) (C (dview 0 (alt (dview 1 (alt (el 105 (A) (C))) (alt))) (alt (text 120))))))",
        "(L (frag (el 97 (A) (C)) (frag (dtext 0) (el 98 (A (105.100 (d 1))) (C)))))",
        "(L (el 100 (A) (C (show 0 (el 115 (A) (C (dtext 1)))))))",
        "(L (el 100 (A) (C (show 0 (text 104.105)))))",
        "(L (el 100 (A) (C (show 0 (dtext 1)) (show 1 (el 101 (A) (C))))))",
    ];
    // NoHydrate: alone, nested, before/after hydrated siblings, with dynamic content inside
    let fam_nh = [
        "(L (el 100 (A) (C (nohydrate (el 104 (A) (C (text 115)))) (el 109 (A (99 (d 0))) (C (dtext 1))))))",
        "(L (nohydrate (el 104 (A) (C (nohydrate (el 115 (A) (C))) (el 116 (A) (C (text 120)))))) (el 109 (A) (C (dtext 0))))",
        "(L (el 100 (A) (C (nohydrate (dtext 0)) (dtext 1))))",
        "(L (el 100 (A) (C (nohydrate (dview 0 (alt (text 97)) (alt (el 98 (A) (C))))) (dview 1 (alt (text 99)) (alt (el 100 (A) (C)))))))",
        "(L (el 100 (A) (C (dview 1 (alt (text 99)) (alt (el 100 (A) (C)))) (nohydrate (dview 0 (alt (text 97)) (alt (el 98 (A) (C))))))))",
        "(L (nohydrate (el 104 (A (99 (d 0))) (C (dtext 0)))) (el 109 (A) (C (nohydrate (text 97)) (text 98) (dtext 1))))",
        "(L (dview 0 (alt (nohydrate (el 97 (A) (C))) (el 98 (A) (C (dtext 1)))) (alt (el 99 (A) (C)))))",
    ];
    // Keyed lists under hydration (known finding D17: the server renders no markers for lists)
    let fam_k: Vec<&str> = vec![
        "(L (el 117.108 (A) (C (keyed 0))))",
        "(L (el 117.108 (A) (C (text 97) (keyed 0) (dtext 1))))",
        "(L (keyed 0) (el 112 (A) (C (dtext 1))))",
        "(L (el 100 (A) (C (dview 1 (alt (text 120)) (alt (el 98 (A) (C)))) (keyed 0) (dview 1 (alt (text 121)) (alt)))))",
    ];
    let fam_ns: Vec<&str> = if true { vec![
        "(L (el 100 (A) (C (nossr (el 103 (A) (C (dtext 0)))) (el 109 (A) (C (dtext 1))))))",
        "(L (nossr (dtext 0) (text 97)) (el 109 (A (99 (d 0))) (C)))",
        "(L (el 100 (A) (C (text 97) (nossr (dview 0 (alt (text 120)) (alt (el 98 (A) (C))))) (dtext 1))))",
    ] } else { vec![] };
    // cleanups of the page that write displayed state: they run when the render scope is torn down, which must be AFTER
    // the server has serialised the view (and on the client not before the root goes away)
    let fam_cl: Vec<&str> = vec![
        "(L (oncleanup 0 2) (el 100 (A) (C (dview 0 (alt (el 97 (A) (C))) (alt (el 98 (A) (C (dtext 1)))) (alt (text 120))) (dtext 0))))",
        "(L (el 100 (A (99 (d 0))) (C (dtext 0))) (oncleanup 0 1) (oncleanup 1 3) (dview 1 (alt (el 97 (A) (C))) (alt (el 98 (A) (C)))))",
        "(L (el 112 (A (104 (b 0))) (C (dtext 0) (el 98 (A) (C (dtext 1))))) (oncleanup 0 6) (oncleanup 1 0))",
    ];
    // state written WHILE the page is built (further down) that is displayed further up by dynamic texts / attributes:
    // the server output shows the final state, inside other dynamic regions too (which do not re-run for it)
    let fam_sn: Vec<&str> = vec![
        "(L (el 104 (A) (C (dtext 0))) (el 112 (A) (C (text 97) (dtext 0))) (setnow 0 5))",
        "(L (dview 1 (alt (el 97 (A) (C)) (dtext 0) (el 98 (A) (C (dtext 0)))) (alt (dtext 0) (el 99 (A) (C)))) (setnow 0 6) (el 100 (A) (C (dtext 0))))",
        "(L (el 100 (A) (C (dview 1 (alt (el 97 (A) (C (dtext 0)))) (alt (dtext 0))))) (setnow 0 3) (setnow 0 7))",
        // the written signal is displayed by a dynamic ATTRIBUTE: the server evaluates attributes once, inside the tracking
        // scope of the enclosing dynamic view (known finding D25)
        "(L (el 104 (A) (C (dtext 0))) (el 112 (A (99 (d 0))) (C (text 97))) (setnow 0 5))",
        "(L (dview 1 (alt (el 99 (A (105.100 (d 0))) (C))) (alt (el 101 (A (104 (b 0))) (C)))) (setnow 0 6))",
    ];
    // boolean attributes by NAME (present when true, absent when false — on the server exactly as the client builds them),
    // including names that HTML treats as enumerated
    let fam_ba: Vec<&str> = vec![
        "(L (el 116.101.120.116.97.114.101.97 (A (115.112.101.108.108.99.104.101.99.107 (b 0))) (C)) (el 100 (A (97.114.105.97.45.104.105.100.100.101.110 (b 1)) (100.114.97.103.103.97.98.108.101 (b 0))) (C (dtext 0))))",
        "(L (el 100 (A (99.111.110.116.101.110.116.101.100.105.116.97.98.108.101 (b 0)) (97.114.105.97.45.98.117.115.121 (b 1))) (C (dview 0 (alt (el 112 (A (115.112.101.108.108.99.104.101.99.107 (b 1))) (C))) (alt (text 120))))))",
    ];
    // children built before the static frame that holds them (a component that evaluates its children and wraps them in a
    // NoHydrate region): keyed elements under a keyless one, adopted and reactive
    let fam_pre: Vec<&str> = vec![
        "(L (el 100 (A) (C (prenh 115.101.99.116.105.111.110 (el 98 (A (99 (d 0))) (C (dtext 0)))) (el 112 (A) (C (text 97) (dtext 1))))))",
        "(L (prenh 115.101.99.116.105.111.110 (el 98 (A) (C (dview 0 (alt (text 97)) (alt (el 105 (A) (C)))))) (el 117 (A (104 (b 1))) (C))) (el 112 (A) (C (dtext 0))))",
        "(L (el 100 (A) (C (nohydrate (el 104 (A) (C (text 115)))) (prenh 97.115.105.100.101 (el 98 (A) (C (dtext 1)))) (dtext 0))))",
        "(L (dview 1 (alt (prenh 115.101.99.116.105.111.110 (el 98 (A) (C (dtext 0))))) (alt (el 120 (A) (C)))) (el 112 (A) (C (dtext 0))))",
    ];
    for f in fam_pre.iter().chain(fam_ba.iter()).chain(fam_sn.iter()).chain(fam_cl.iter()).chain(fam_ns.iter()).chain(fam_k.iter()).chain(fam_nh.iter()).chain(fam.iter()) {
        let Some(Sx::L(l)) = sx_parse(f) else { continue };
        let vds: Vec<VD> = l[1..].iter().map(|s| rd(s).unwrap()).collect();
        for (st, ws) in [(vec![0u32, 0], "0=1,1=1,0=2,1=2"), (vec![1, 1], "1=2,0=0,0=1,1=3"), (vec![3, 2], "0=3,0=4,1=5"), (vec![4, 1], "0=5,0=2,1=2,0=0")] { push(&vds, &st, ws); }
    }
    let with_show = args.extra.iter().any(|x| x == "--with-show");
    let n = if thorough { 100_000 } else { 3_000 };
    for _ in 0..n {
        let nsig = 1 + rng.below(3);
        let mut budget = 10;
        let k = 1 + rng.below(2);
        let mut vds: Vec<VD> = (0..k).map(|_| gen(&mut rng, 3, nsig, &mut budget)).collect();
        if !with_show { fn strip(v: &mut VD) { match v { VD::Show(_, cs) => { let c = std::mem::take(cs); *v = VD::Frag(c); strip(v) } VD::El(_, _, cs) | VD::Frag(cs) | VD::NoHydrate(cs) => cs.iter_mut().for_each(strip), VD::DView(_, alts) | VD::DView0(_, alts) => alts.iter_mut().for_each(|a| a.iter_mut().for_each(strip)), _ => {} } } vds.iter_mut().for_each(strip); }
        if rng.chance(1, 4) {
            for _ in 0..1 + rng.below(2) { let at = rng.below(vds.len() + 1); vds.insert(at, VD::OnCleanup(rng.below(nsig), rng.below(7) as u32)); }
        }
        let store: Vec<u32> = (0..nsig + 1).map(|_| rng.below(4) as u32).collect();
        let nw = rng.below(6);
        let ws: Vec<String> = (0..nw).map(|_| format!("{}={}", rng.below(nsig), rng.below(8))).collect();
        push(&vds, &store, &if ws.is_empty() { "-".to_string() } else { ws.join(",") });
    }
    std::fs::create_dir_all(&args.out).unwrap();
    std::fs::write(args.out.join("hydrategen.lines"), lines.join("\n") + "\n").unwrap();
    // the generator also satisfies the engine file protocol (no cases of its own)
    Sink::new(&args.out, "hydrategen").finish();
}
