//! E1 "reactive" (C01, C02, C03, C04, C10, C11, C16): interprets the closure DSL of
//! lean/SycVerif/Model/Reactive.lean against the real sycamore-reactive API, logs the canonical
//! observation after every top-level operation and judges the real code with its own bookkeeping
//! (the `Shadow`), independently of the Lean model.
use crate::util::*;
use std::cell::{Cell, RefCell};
use std::collections::BTreeSet;
use std::rc::Rc;
use sycamore_reactive::*;

// ---------------------------------------------------------------- DSL

#[derive(Clone, Copy, Debug, PartialEq)]
pub enum EqK {
    Never,
    Same,
    Parity,
}
#[derive(Clone, Copy, Debug)]
pub enum Ex {
    C(i64),
    Acc,
    AccPlus(i64),
}
#[derive(Clone, Debug)]
pub enum Stmt {
    Read(usize),
    ReadU(usize),
    Track(usize),
    IfPos(usize, Vec<Stmt>, Vec<Stmt>),
    Untrack(Vec<Stmt>),
    Component(Vec<Stmt>),
    On(Vec<usize>, Vec<Stmt>),
    Signal(i64),
    Memo(Vec<Stmt>),
    /// a plain memo whose VALUE TYPE is zero-sized (the value lives in a side table); one node, like `Memo`
    ZMemo(Vec<Stmt>),
    Selector(EqK, Vec<Stmt>),
    Effect(Vec<Stmt>),
    Scope(Vec<Stmt>),
    Set(usize, Ex),
    SetSilent(usize, Ex),
    Cleanup(Vec<Stmt>),
    Dispose(usize),
    DisposeCur,
    Batch(Vec<Stmt>),
    Provide(u8, Ex),
    Use(u8),
    RunIn(usize, Vec<Stmt>),
    /// top level only: `RootHandle::dispose()` (= `Root::reinit`), the program goes on in the new root
    Reinit,
}

fn show_ex(e: &Ex) -> String {
    match e {
        Ex::C(v) => format!("(c {v})"),
        Ex::Acc => "acc".into(),
        Ex::AccPlus(v) => format!("(acc+ {v})"),
    }
}
fn show_body(b: &[Stmt]) -> String {
    b.iter().map(show).collect::<Vec<_>>().join(" ")
}
pub fn show(s: &Stmt) -> String {
    let sp = |b: &[Stmt]| if b.is_empty() { String::new() } else { format!(" {}", show_body(b)) };
    match s {
        Stmt::Read(h) => format!("(read {h})"),
        Stmt::ReadU(h) => format!("(readu {h})"),
        Stmt::Track(h) => format!("(track {h})"),
        Stmt::IfPos(h, t, e) => format!("(ifpos {h} ({}) ({}))", show_body(t), show_body(e)),
        Stmt::Untrack(b) => format!("(untrack{})", sp(b)),
        Stmt::Component(b) => format!("(component{})", sp(b)),
        Stmt::On(d, b) => format!("(on ({}){})", d.iter().map(|x| x.to_string()).collect::<Vec<_>>().join(" "), sp(b)),
        Stmt::Signal(v) => format!("(signal {v})"),
        Stmt::Memo(b) => format!("(memo{})", sp(b)),
        Stmt::ZMemo(b) => format!("(zmemo{})", sp(b)),
        Stmt::Selector(k, b) => format!("(selector {}{})", match k { EqK::Never => "never", EqK::Same => "same", EqK::Parity => "parity" }, sp(b)),
        Stmt::Effect(b) => format!("(effect{})", sp(b)),
        Stmt::Scope(b) => format!("(scope{})", sp(b)),
        Stmt::Set(h, e) => format!("(set {h} {})", show_ex(e)),
        Stmt::SetSilent(h, e) => format!("(setsilent {h} {})", show_ex(e)),
        Stmt::Cleanup(b) => format!("(cleanup{})", sp(b)),
        Stmt::Dispose(h) => format!("(dispose {h})"),
        Stmt::DisposeCur => "(disposecur)".into(),
        Stmt::Batch(b) => format!("(batch{})", sp(b)),
        Stmt::Provide(t, e) => format!("(provide {t} {})", show_ex(e)),
        Stmt::Use(t) => format!("(use {t})"),
        Stmt::RunIn(h, b) => format!("(runin {h}{})", sp(b)),
        Stmt::Reinit => "(reinit)".into(),
    }
}

// minimal S-expression reader (replay / corpus)
#[derive(Debug)]
enum Sx {
    A(String),
    L(Vec<Sx>),
}
fn sx_parse(s: &str) -> Option<Sx> {
    let toks: Vec<String> = s.replace('(', " ( ").replace(')', " ) ").split_whitespace().map(|x| x.to_string()).collect();
    fn go(t: &[String], i: &mut usize) -> Option<Sx> {
        let tok = t.get(*i)?;
        *i += 1;
        if tok == "(" {
            let mut v = vec![];
            while t.get(*i)? != ")" {
                v.push(go(t, i)?);
            }
            *i += 1;
            Some(Sx::L(v))
        } else if tok == ")" {
            None
        } else {
            Some(Sx::A(tok.clone()))
        }
    }
    let mut i = 0;
    let r = go(&toks, &mut i)?;
    if i == toks.len() { Some(r) } else { None }
}
fn sx_num<T: std::str::FromStr>(s: &Sx) -> Option<T> {
    if let Sx::A(a) = s { a.parse().ok() } else { None }
}
fn sx_ex(s: &Sx) -> Option<Ex> {
    match s {
        Sx::A(a) if a == "acc" => Some(Ex::Acc),
        Sx::L(l) if l.len() == 2 => match &l[0] {
            Sx::A(a) if a == "c" => Some(Ex::C(sx_num(&l[1])?)),
            Sx::A(a) if a == "acc+" => Some(Ex::AccPlus(sx_num(&l[1])?)),
            _ => None,
        },
        _ => None,
    }
}
fn sx_body(l: &[Sx]) -> Option<Vec<Stmt>> {
    l.iter().map(sx_stmt).collect()
}
fn sx_stmt(s: &Sx) -> Option<Stmt> {
    let Sx::L(l) = s else { return None };
    let Sx::A(head) = l.first()? else { return None };
    let r = &l[1..];
    Some(match head.as_str() {
        "read" => Stmt::Read(sx_num(r.first()?)?),
        "readu" => Stmt::ReadU(sx_num(r.first()?)?),
        "track" => Stmt::Track(sx_num(r.first()?)?),
        "ifpos" => {
            let (Sx::L(t), Sx::L(e)) = (r.get(1)?, r.get(2)?) else { return None };
            Stmt::IfPos(sx_num(&r[0])?, sx_body(t)?, sx_body(e)?)
        }
        "untrack" => Stmt::Untrack(sx_body(r)?),
        "component" => Stmt::Component(sx_body(r)?),
        "on" => {
            let Sx::L(d) = r.first()? else { return None };
            Stmt::On(d.iter().map(sx_num).collect::<Option<Vec<usize>>>()?, sx_body(&r[1..])?)
        }
        "signal" => Stmt::Signal(sx_num(r.first()?)?),
        "memo" => Stmt::Memo(sx_body(r)?),
        "zmemo" => Stmt::ZMemo(sx_body(r)?),
        "selector" => {
            let Sx::A(k) = r.first()? else { return None };
            let k = match k.as_str() { "never" => EqK::Never, "same" => EqK::Same, "parity" => EqK::Parity, _ => return None };
            Stmt::Selector(k, sx_body(&r[1..])?)
        }
        "effect" => Stmt::Effect(sx_body(r)?),
        "scope" => Stmt::Scope(sx_body(r)?),
        "set" => Stmt::Set(sx_num(r.first()?)?, sx_ex(r.get(1)?)?),
        "setsilent" => Stmt::SetSilent(sx_num(r.first()?)?, sx_ex(r.get(1)?)?),
        "cleanup" => Stmt::Cleanup(sx_body(r)?),
        "dispose" => Stmt::Dispose(sx_num(r.first()?)?),
        "disposecur" => Stmt::DisposeCur,
        "batch" => Stmt::Batch(sx_body(r)?),
        "provide" => Stmt::Provide(sx_num(r.first()?)?, sx_ex(r.get(1)?)?),
        "use" => Stmt::Use(sx_num(r.first()?)?),
        "runin" => Stmt::RunIn(sx_num(r.first()?)?, sx_body(&r[1..])?),
        "reinit" => Stmt::Reinit,
        _ => return None,
    })
}
pub fn parse_ops(line: &str) -> Option<Vec<Stmt>> {
    let rest = line.strip_prefix("reactive run ")?;
    let Sx::L(l) = sx_parse(rest)? else { return None };
    match l.first()? {
        Sx::A(a) if a == "ops" => sx_body(&l[1..]),
        _ => None,
    }
}

// ---------------------------------------------------------------- world

#[derive(Clone, Copy, PartialEq, Debug)]
enum Kind {
    Signal,
    Memo,
    Effect,
    Scope,
}
/// a zero-sized value type
#[derive(Clone, Copy, PartialEq)]
pub struct Zst;

#[derive(Clone)]
enum H {
    Sig(Signal<i64>, usize),
    Memo(ReadSignal<i64>, usize),
    ZMemo(ReadSignal<Zst>, Rc<Cell<i64>>, usize),
    Effect(usize),
    Scope(usize),
}
impl H {
    fn seq(&self) -> usize {
        match self {
            H::Sig(_, s) | H::Memo(_, s) | H::ZMemo(_, _, s) | H::Effect(s) | H::Scope(s) => *s,
        }
    }
}

#[derive(Clone)]
struct Ctx0(i64);
#[derive(Clone)]
struct Ctx1(i64);
#[derive(Clone)]
struct Ctx2(i64);

struct Frame {
    /// the node that is `current_node` for this frame
    current: usize,
    /// computation collecting tracked reads (None = untracked)
    tracker: Option<usize>,
}

#[derive(Default)]
struct Shadow {
    owner: Vec<Option<usize>>,
    kind: Vec<Option<Kind>>,
    eq: Vec<EqK>,
    body: Vec<Option<(Rc<Vec<Stmt>>, Vec<H>)>>,
    killed: Vec<bool>,
    /// created while a cleanup callback was running (i.e. in the middle of some teardown)
    born_in_cleanup: Vec<bool>,
    /// number of the top-level operation in which the node was created / first seen dead by the judge
    born_op: Vec<usize>,
    dead_since: RefCell<Vec<Option<usize>>>,
    op_no: usize,
    cleanup_depth: u32,
    tracked: Vec<Vec<usize>>,
    runs_total: Vec<u32>,
    provided: Vec<Vec<(u8, i64)>>,
    /// (owner, executions)
    cleanups: Vec<(usize, u32)>,
    frames: Vec<Frame>,
    // per-op
    zombie_run: Option<usize>,
    runs_op: Vec<(usize, Vec<(usize, i64, bool)>, i64, Vec<usize>)>, // node, reads (id, value, tracked), result, tracked ids of that run
    batch_depth: u32,
    ran_inside_batch: Vec<usize>,
    writes_op: Vec<usize>,
    /// signals written (not silently) while a batch was open, in this operation
    batch_writes: Vec<usize>,
    /// when the body of a top-level outermost batch ended: number of runs recorded so far, and what every computation
    /// tracked in its latest run at that moment
    batch_end: Option<(usize, Vec<Vec<usize>>)>,
    expected_panic: Option<&'static str>,
    ctx_fail: Option<String>,
    effect_wrote: bool,
    /// signals written with set_silent and not yet re-written with set: nothing downstream is expected to be up to date
    tainted: BTreeSet<usize>,
}

struct World {
    handles: RefCell<Vec<Option<NodeHandle>>>,
    sigs: RefCell<Vec<Option<ReadSignal<i64>>>>,
    effect_vals: RefCell<Vec<Option<i64>>>,
    /// the next plain memo is created with a zero-sized value type
    zst_next: Cell<bool>,
    trace: RefCell<Vec<String>>,
    next_tag: Cell<usize>,
    api_counter: Cell<usize>,
    /// the handle number of the root node of the current generation (changes with `(reinit)`)
    root_seq: Cell<usize>,
    sh: RefCell<Shadow>,
}

impl World {
    fn new() -> Rc<World> {
        let w = World {
            handles: RefCell::new(vec![Some(use_global_scope())]),
            sigs: RefCell::new(vec![None]),
            effect_vals: RefCell::new(vec![None]),
            zst_next: Cell::new(false),
            trace: RefCell::new(vec![]),
            next_tag: Cell::new(0),
            api_counter: Cell::new(0),
            root_seq: Cell::new(0),
            sh: RefCell::new(Shadow::default()),
        };
        {
            let mut sh = w.sh.borrow_mut();
            sh.push_node(None, Kind::Scope);
            sh.frames.push(Frame { current: 0, tracker: None });
        }
        Rc::new(w)
    }
    fn alloc(&self, kind: Kind) -> usize {
        let seq = self.handles.borrow().len();
        self.handles.borrow_mut().push(None);
        self.sigs.borrow_mut().push(None);
        self.effect_vals.borrow_mut().push(None);
        let mut sh = self.sh.borrow_mut();
        let owner = sh.frames.last().map(|f| f.current);
        sh.push_node(owner, kind);
        seq
    }
}

impl Shadow {
    fn push_node(&mut self, owner: Option<usize>, kind: Kind) {
        self.owner.push(owner);
        self.kind.push(Some(kind));
        self.eq.push(EqK::Never);
        self.body.push(None);
        self.killed.push(false);
        self.born_in_cleanup.push(self.cleanup_depth > 0);
        self.born_op.push(self.op_no);
        self.tracked.push(vec![]);
        self.runs_total.push(0);
        self.provided.push(vec![]);
    }
    fn is_descendant(&self, mut n: usize, anc: usize) -> bool {
        while let Some(o) = self.owner[n] {
            if o == anc {
                return true;
            }
            n = o;
        }
        false
    }
    /// everything owned (transitively) by `n` is destroyed
    fn kill_children(&mut self, n: usize) {
        for m in 0..self.owner.len() {
            if !self.killed[m] && self.is_descendant(m, n) {
                self.killed[m] = true;
            }
        }
    }
    /// as `kill_children`, but the nodes in `keep` and what they own stay
    fn kill_children_except(&mut self, n: usize, keep: &[usize]) {
        for m in 0..self.owner.len() {
            if !self.killed[m] && self.is_descendant(m, n) && !keep.iter().any(|k| m == *k || self.is_descendant(m, *k)) {
                self.killed[m] = true;
            }
        }
    }
    fn kill(&mut self, n: usize) {
        self.kill_children(n);
        self.killed[n] = true;
    }
    fn cur(&self) -> usize {
        self.frames.last().unwrap().current
    }
    fn tracker(&self) -> Option<usize> {
        self.frames.last().unwrap().tracker
    }
}

fn alive_real(w: &World, seq: usize) -> bool {
    match w.handles.borrow()[seq] {
        Some(h) => verif::snapshot(h).is_some(),
        None => false,
    }
}

fn mix(acc: i64, v: i64) -> i64 {
    (3 * acc + v + 1).rem_euclid(1009)
}

fn eval_ex(e: &Ex, acc: i64) -> i64 {
    match e {
        Ex::C(v) => *v,
        Ex::Acc => acc,
        Ex::AccPlus(v) => acc + v,
    }
}

struct Run {
    acc: i64,
    obs: Vec<String>,
    reads: Vec<(usize, i64, bool)>,
}

fn note_read(w: &World, run: &mut Run, id: usize, v: i64) {
    run.acc = mix(run.acc, v);
    run.obs.push(format!("{id}:{v}"));
    let tracked = w.sh.borrow().tracker().is_some();
    run.reads.push((id, v, tracked));
}

fn expect_dead_handle(w: &World, seq: usize) {
    if !alive_real(w, seq) {
        w.sh.borrow_mut().expected_panic = Some("disposed");
    }
}
fn expect_dead_scope(w: &World) {
    let cur = w.sh.borrow().cur();
    if !alive_real(w, cur) {
        w.sh.borrow_mut().expected_panic = Some("slotkey");
    }
}

fn run_inner(w: &Rc<World>, env: &mut Vec<H>, run: &mut Run, b: &[Stmt]) {
    let n = env.len();
    run_body(w, env, run, b);
    env.truncate(n);
}

fn run_body(w: &Rc<World>, env: &mut Vec<H>, run: &mut Run, b: &[Stmt]) {
    for s in b {
        exec_stmt(w, env, run, s);
    }
}

fn value_handle(env: &[H], h: usize) -> (ReadSignal<i64>, usize) {
    match &env[h] {
        H::Sig(s, q) => (**s, *q),
        H::Memo(m, q) => (*m, *q),
        _ => panic!("harness: handle {h} is not a value handle"),
    }
}

fn track_shadow(w: &World, id: usize) {
    let mut sh = w.sh.borrow_mut();
    if let Some(t) = sh.tracker() {
        sh.tracked[t].push(id);
    }
}

/// create a memo / selector / effect
fn create_comp(w: &Rc<World>, env: &mut Vec<H>, kind: Kind, eq: EqK, body: &[Stmt]) {
    expect_dead_scope(w);
    let my = w.alloc(kind);
    let body = Rc::new(body.to_vec());
    let captured = env.clone();
    {
        let mut sh = w.sh.borrow_mut();
        sh.eq[my] = eq;
        sh.body[my] = Some((body.clone(), captured.clone()));
    }
    let w2 = w.clone();
    let f = move || -> i64 {
        let w = &w2;
        if w.handles.borrow()[my].is_none() {
            w.handles.borrow_mut()[my] = Some(use_current_scope());
        } else if !alive_real(w, my) {
            // C04: "no destroyed memo or effect ever runs again" — the library is running the callback of a
            // node that is no longer in the arena (whatever the body then does is not the program's fault)
            let mut sh = w.sh.borrow_mut();
            if sh.zombie_run.is_none() { sh.zombie_run = Some(my); }
        }
        // A node that a cleanup created IN this computation's scope (through a captured handle) while the computation was
        // tearing down its previous run belongs to the NEW run: `dispose_children` detaches the old children first, then
        // runs the cleanups. Whether a cleanup-born child dates from this teardown or from an earlier one cannot be seen
        // from here, so for exactly these nodes the arena decides (a wrong survivor is still found at the next re-run or
        // disposal of the computation).
        let keep: Vec<usize> = {
            let sh = w.sh.borrow();
            if sh.runs_total[my] > 0 {
                (0..sh.owner.len()).filter(|c| sh.owner[*c] == Some(my) && !sh.killed[*c] && sh.born_in_cleanup[*c]).collect::<Vec<_>>()
            } else { vec![] }
        };
        let keep: Vec<usize> = keep.into_iter().filter(|c| alive_real(w, *c)).collect();
        {
            let mut sh = w.sh.borrow_mut();
            if sh.runs_total[my] > 0 {
                sh.kill_children_except(my, &keep);
                // (the real dispose_children has already returned when the callback starts)
                sh.provided[my].clear();
            }
            sh.runs_total[my] += 1;
            sh.tracked[my].clear();
            if sh.batch_depth > 0 {
                sh.ran_inside_batch.push(my);
            }
            sh.frames.push(Frame { current: my, tracker: Some(my) });
        }
        let mut env = captured.clone();
        let mut run = Run { acc: 0, obs: vec![], reads: vec![] };
        run_body(w, &mut env, &mut run, &body);
        {
            let mut sh = w.sh.borrow_mut();
            sh.frames.pop();
            let tr = sh.tracked[my].clone();
            sh.runs_op.push((my, run.reads.clone(), run.acc, tr));
        }
        w.trace.borrow_mut().push(format!("r{my}({})={}", run.obs.join(","), run.acc));
        run.acc
    };
    match kind {
        Kind::Effect => {
            let w3 = w.clone();
            let mut f = f;
            create_effect(move || {
                let v = f();
                w3.effect_vals.borrow_mut()[my] = Some(v);
            });
            env.push(H::Effect(my));
        }
        _ if w.zst_next.take() => {
            // the same plain memo with a zero-sized value type: the value is kept beside the node
            let cell = Rc::new(Cell::new(0i64));
            let (c2, w3) = (cell.clone(), w.clone());
            let mut f = f;
            let z: ReadSignal<Zst> = create_memo(move || {
                let v = f();
                c2.set(v);
                w3.effect_vals.borrow_mut()[my] = Some(v);
                Zst
            });
            if w.handles.borrow()[my].is_none() {
                w.handles.borrow_mut()[my] = Some(verif::handle_of(z));
            }
            env.push(H::ZMemo(z, cell, my));
        }
        _ => {
            let m = match eq {
                EqK::Never => create_memo(f),
                EqK::Same => create_selector(f),
                EqK::Parity => create_selector_with(f, |a: &i64, b: &i64| a.rem_euclid(2) == b.rem_euclid(2)),
            };
            w.sigs.borrow_mut()[my] = Some(m);
            if w.handles.borrow()[my].is_none() {
                w.handles.borrow_mut()[my] = Some(verif::handle_of(m));
            }
            env.push(H::Memo(m, my));
        }
    }
}

fn node_handle(w: &World, env: &[H], h: usize) -> (NodeHandle, usize) {
    let seq = env[h].seq();
    (w.handles.borrow()[seq].expect("harness: handle without NodeHandle"), seq)
}

/// a counter that advances with every read/write statement executed in the case: selects which of the
/// equivalent API forms is used (deterministic per case)
fn api_form(w: &Rc<World>) -> usize {
    let n = w.api_counter.get();
    w.api_counter.set(n + 1);
    n
}

fn exec_stmt(w: &Rc<World>, env: &mut Vec<H>, run: &mut Run, s: &Stmt) {
    match s {
        Stmt::Read(h) if matches!(env[*h], H::ZMemo(..)) => {
            let (z, cell, id) = match &env[*h] { H::ZMemo(z, c, id) => (*z, c.clone(), *id), _ => unreachable!() };
            expect_dead_handle(w, id);
            z.track();
            let v = cell.get();
            track_shadow(w, id);
            note_read(w, run, id, v);
        }
        Stmt::Read(h) => {
            let (sig, id) = value_handle(env, *h);
            expect_dead_handle(w, id);
            // every tracked read form of the API, chosen by the position in the program
            let v = match api_form(w) % 3 { 0 => sig.get(), 1 => sig.get_clone(), _ => sig.with(|v| *v) };
            track_shadow(w, id);
            note_read(w, run, id, v);
        }
        Stmt::ReadU(h) => {
            let (sig, id) = value_handle(env, *h);
            expect_dead_handle(w, id);
            let v = match api_form(w) % 3 { 0 => sig.get_untracked(), 1 => sig.get_clone_untracked(), _ => sig.with_untracked(|v| *v) };
            let t = w.sh.borrow_mut().frames.last_mut().unwrap().tracker.take();
            note_read(w, run, id, v);
            w.sh.borrow_mut().frames.last_mut().unwrap().tracker = t;
        }
        Stmt::Track(h) if matches!(env[*h], H::ZMemo(..)) => {
            let (z, id) = match &env[*h] { H::ZMemo(z, _, id) => (*z, *id), _ => unreachable!() };
            z.track();
            track_shadow(w, id);
        }
        Stmt::Track(h) => {
            let (sig, id) = value_handle(env, *h);
            sig.track();
            track_shadow(w, id);
        }
        Stmt::IfPos(h, t, e) => {
            let (sig, id) = value_handle(env, *h);
            expect_dead_handle(w, id);
            let v = sig.get();
            track_shadow(w, id);
            note_read(w, run, id, v);
            if v > 0 {
                run_inner(w, env, run, t)
            } else {
                run_inner(w, env, run, e)
            }
        }
        Stmt::Untrack(b) | Stmt::Component(b) => {
            let prev = w.sh.borrow_mut().frames.last_mut().unwrap().tracker.take();
            if matches!(s, Stmt::Untrack(_)) {
                untrack(|| run_inner(w, env, run, b));
            } else {
                sycamore::rt::component_scope(|| run_inner(w, env, run, b));
            }
            w.sh.borrow_mut().frames.last_mut().unwrap().tracker = prev;
        }
        Stmt::On(deps, b) => {
            let sigs: Vec<(ReadSignal<i64>, usize)> = deps.iter().map(|h| value_handle(env, *h)).collect();
            // the real `on(deps, f)` wants 'static closures: lend it the interpreter state
            let shared = Rc::new(RefCell::new((std::mem::take(env), std::mem::replace(run, Run { acc: 0, obs: vec![], reads: vec![] }))));
            let (sh2, w2, b2, ids) = (shared.clone(), w.clone(), Rc::new(b.clone()), sigs.iter().map(|x| x.1).collect::<Vec<_>>());
            let f = move || {
                let mut g = sh2.borrow_mut();
                let (env, run) = &mut *g;
                // (shadow) the dependencies were tracked just before; the callback itself is untracked
                for id in &ids {
                    track_shadow(&w2, *id);
                }
                let prev = w2.sh.borrow_mut().frames.last_mut().unwrap().tracker.take();
                run_inner(&w2, env, run, &b2);
                w2.sh.borrow_mut().frames.last_mut().unwrap().tracker = prev;
            };
            match sigs.len() {
                0 => untrack(f),
                1 => on(sigs[0].0, f)(),
                2 => on((sigs[0].0, sigs[1].0), f)(),
                _ => on((sigs[0].0, sigs[1].0, sigs[2].0), f)(),
            }
            let (e, r) = Rc::try_unwrap(shared).ok().expect("harness: on() kept the callback").into_inner();
            *env = e;
            *run = r;
        }
        Stmt::Signal(v) => {
            expect_dead_scope(w);
            let my = w.alloc(Kind::Signal);
            let sg = create_signal(*v);
            w.handles.borrow_mut()[my] = Some(verif::handle_of(*sg));
            w.sigs.borrow_mut()[my] = Some(*sg);
            env.push(H::Sig(sg, my));
        }
        Stmt::Memo(b) => create_comp(w, env, Kind::Memo, EqK::Never, b),
        Stmt::ZMemo(b) => { w.zst_next.set(true); create_comp(w, env, Kind::Memo, EqK::Never, b) }
        Stmt::Selector(k, b) => create_comp(w, env, Kind::Memo, *k, b),
        Stmt::Effect(b) => create_comp(w, env, Kind::Effect, EqK::Never, b),
        Stmt::Scope(b) => {
            expect_dead_scope(w);
            let my = w.alloc(Kind::Scope);
            let tr = w.sh.borrow().tracker();
            let hnd = create_child_scope(|| {
                w.handles.borrow_mut()[my] = Some(use_current_scope());
                w.sh.borrow_mut().frames.push(Frame { current: my, tracker: tr });
                run_inner(w, env, run, b);
                w.sh.borrow_mut().frames.pop();
            });
            w.handles.borrow_mut()[my] = Some(hnd);
            env.push(H::Scope(my));
        }
        Stmt::Set(h, e) | Stmt::SetSilent(h, e) => {
            let H::Sig(sg, id) = env[*h].clone() else { panic!("harness: set on a non-signal") };
            expect_dead_handle(w, id);
            let v = eval_ex(e, run.acc);
            if matches!(s, Stmt::Set(..)) {
                {
                    let mut sh = w.sh.borrow_mut();
                    sh.writes_op.push(id);
                    if sh.batch_depth > 0 { sh.batch_writes.push(id); }
                    sh.tainted.remove(&id);
                    if sh.frames.len() > 1 && sh.frames.iter().any(|f| f.tracker.is_some() || sh.kind[f.current] == Some(Kind::Effect) || sh.kind[f.current] == Some(Kind::Memo)) {
                        sh.effect_wrote = true;
                    }
                }
                // every write form of the API (none of them reads with tracking)
                match api_form(w) % 5 {
                    0 => sg.set(v),
                    1 => sg.set_fn(|_| v),
                    2 => sg.update(|x| *x = v),
                    3 => { let _ = sg.replace(v); }
                    _ => { let (_, set) = sg.split(); let _ = set(v); }
                }
            } else {
                w.sh.borrow_mut().tainted.insert(id);
                match api_form(w) % 4 {
                    0 => sg.set_silent(v),
                    1 => sg.set_fn_silent(|_| v),
                    2 => sg.update_silent(|x| *x = v),
                    _ => { let _ = sg.replace_silent(v); }
                }
            }
        }
        Stmt::Cleanup(b) => {
            expect_dead_scope(w);
            let tag = w.next_tag.get();
            w.next_tag.set(tag + 1);
            let owner = w.sh.borrow().cur();
            w.sh.borrow_mut().cleanups.push((owner, 0));
            let body = Rc::new(b.clone());
            let captured = env.clone();
            let w2 = w.clone();
            on_cleanup(move || {
                let w = &w2;
                {
                    let mut sh = w.sh.borrow_mut();
                    sh.cleanups[tag].1 += 1;
                    sh.cleanup_depth += 1;
                    let cur = sh.cur();
                    sh.frames.push(Frame { current: cur, tracker: None });
                }
                // a write made by a cleanup happens inside the re-run / disposal that triggered it: like an
                // effect write, it may legitimately re-run computations more than once in the operation
                if body.iter().any(|s| matches!(s, Stmt::Set(..))) {
                    w.sh.borrow_mut().effect_wrote = true;
                }
                let mut env = captured.clone();
                let mut run = Run { acc: 0, obs: vec![], reads: vec![] };
                run_body(w, &mut env, &mut run, &body);
                { let mut sh = w.sh.borrow_mut(); sh.frames.pop(); sh.cleanup_depth -= 1; }
                w.trace.borrow_mut().push(format!("c{tag}({})", run.obs.join(",")));
            });
        }
        Stmt::Reinit => panic!("harness: (reinit) is a top-level operation"),
        Stmt::Dispose(h) => {
            let (hnd, seq) = node_handle(w, env, *h);
            w.sh.borrow_mut().kill(seq);
            // every way of disposing a node: through its NodeHandle, or through the typed handle (`Signal::dispose`,
            // `ReadSignal::dispose` — also what a memo, a selector or a mapped list hands out)
            match (&env[*h], api_form(w) % 2) {
                (H::Sig(sg, _), 1) => sg.dispose(),
                (H::Memo(m, _), 1) => m.dispose(),
                _ => hnd.dispose(),
            }
            // context values go last: they are still there while the cleanups run and the children are disposed
            w.sh.borrow_mut().provided[seq].clear();
            // what descendants created while they re-ran in the middle of the teardown died with them
            w.sh.borrow_mut().kill(seq);
        }
        Stmt::DisposeCur => {
            let cur = w.sh.borrow().cur();
            w.sh.borrow_mut().kill(cur);
            use_current_scope().dispose();
            w.sh.borrow_mut().provided[cur].clear();
            w.sh.borrow_mut().kill(cur);
        }
        Stmt::Batch(b) => {
            w.sh.borrow_mut().batch_depth += 1;
            batch(|| {
                run_inner(w, env, run, b);
                // the closure is over: reactions may start from here when this is the outermost batch
                let mut sh = w.sh.borrow_mut();
                sh.batch_depth -= 1;
                if sh.batch_depth == 0 && sh.frames.len() == 1 {
                    sh.batch_end = Some((sh.runs_op.len(), sh.tracked.clone()));
                }
            });
        }
        Stmt::Provide(ty, e) => {
            expect_dead_scope(w);
            let v = eval_ex(e, run.acc);
            {
                let mut sh = w.sh.borrow_mut();
                let cur = sh.cur();
                if sh.expected_panic.is_none() && sh.provided[cur].iter().any(|(t, _)| t == ty) {
                    sh.expected_panic = Some("ctxdup");
                }
            }
            let dup = { let sh = w.sh.borrow(); let cur = sh.cur(); !sh.killed[cur] && sh.provided[cur].iter().any(|(t, _)| t == ty) };
            match ty {
                0 => provide_context(Ctx0(v)),
                1 => provide_context(Ctx1(v)),
                _ => provide_context(Ctx2(v)),
            }
            let mut sh = w.sh.borrow_mut();
            let cur = sh.cur();
            if dup {
                // C16: "providing the same type twice in one scope panics" — we are still here
                sh.ctx_fail.get_or_insert(format!("[context] provide_context::<Ctx{ty}> in scope {cur}, which already provides that type, did not panic"));
            }
            sh.provided[cur].push((*ty, v));
        }
        Stmt::Use(ty) => {
            expect_dead_scope(w);
            let got = match ty {
                0 => try_use_context::<Ctx0>().map(|c| c.0),
                1 => try_use_context::<Ctx1>().map(|c| c.0),
                _ => try_use_context::<Ctx2>().map(|c| c.0),
            };
            // reference walk over the harness' own ownership tree
            let expected = {
                let sh = w.sh.borrow();
                let mut n = Some(sh.cur());
                let mut found = None;
                while let Some(x) = n {
                    if let Some((_, v)) = sh.provided[x].iter().find(|(t, _)| t == ty) {
                        found = Some(*v);
                        break;
                    }
                    n = sh.owner[x];
                }
                found
            };
            if got != expected {
                let mut sh = w.sh.borrow_mut();
                let cur = sh.cur();
                // (a lookup made by a cleanup, i.e. while a scope is being torn down, is a class of its own: it also belongs to
                // "scopes can be disposed at any point without corruption")
                let cls = if sh.cleanup_depth > 0 { "context-in-teardown" } else { "context" };
                sh.ctx_fail.get_or_insert(format!("[{cls}] try_use_context::<Ctx{ty}> in scope {cur} returned {got:?}, nearest enclosing provider gives {expected:?}"));
            }
            run.acc = mix(run.acc, got.unwrap_or(-8));
            run.obs.push(match got {
                Some(v) => format!("u{ty}:{v}"),
                None => format!("u{ty}:none"),
            });
        }
        Stmt::RunIn(h, b) => {
            let (hnd, seq) = node_handle(w, env, *h);
            let tr = w.sh.borrow().tracker();
            w.sh.borrow_mut().frames.push(Frame { current: seq, tracker: tr });
            hnd.run_in(|| run_inner(w, env, run, b));
            w.sh.borrow_mut().frames.pop();
        }
    }
}

fn panic_class(m: &str) -> &'static str {
    if m.contains("signal was disposed") {
        "disposed"
    } else if m.contains("cannot read signal while updating") || m.contains("cannot update signal while reading") {
        "updating"
    } else if m.contains("invalid SlotMap key") {
        "slotkey"
    } else if m.contains("cyclic reactive dependency") {
        "cyclic"
    } else if m.contains("exists already in this scope") {
        "ctxdup"
    } else if m.contains("called `Option::unwrap()` on a `None` value") {
        "unwrap"
    } else if m.contains("already borrowed") || m.contains("already mutably borrowed") {
        "borrow"
    } else if m.starts_with("harness:") {
        "harness"
    } else {
        "other"
    }
}

// ---------------------------------------------------------------- pure reference evaluation

fn is_pure_tracked(b: &[Stmt]) -> bool {
    b.iter().all(|s| match s {
        Stmt::Read(_) => true,
        Stmt::IfPos(_, t, e) => is_pure_tracked(t) && is_pure_tracked(e),
        _ => false,
    })
}

/// value the body yields from the values returned by `val`
fn eval_pure(b: &[Stmt], env: &[H], acc: &mut i64, val: &mut dyn FnMut(usize) -> Option<i64>) -> Option<()> {
    for s in b {
        match s {
            Stmt::Read(h) => {
                let v = val(env[*h].seq())?;
                *acc = mix(*acc, v);
            }
            Stmt::IfPos(h, t, e) => {
                let v = val(env[*h].seq())?;
                *acc = mix(*acc, v);
                eval_pure(if v > 0 { t } else { e }, env, acc, val)?;
            }
            _ => return None,
        }
    }
    Some(())
}

fn eq_holds(k: EqK, new: i64, old: i64) -> bool {
    match k {
        EqK::Never => false,
        EqK::Same => new == old,
        EqK::Parity => new.rem_euclid(2) == old.rem_euclid(2),
    }
}

fn stored_value(w: &World, id: usize) -> Option<i64> {
    let sig = w.sigs.borrow()[id];
    match sig {
        Some(s) => catch(|| if s.is_alive() { Some(s.get_untracked()) } else { None }).ok().flatten(),
        None => {
            if alive_real(w, id) { w.effect_vals.borrow()[id] } else { None }
        }
    }
}

// ---------------------------------------------------------------- running one case

pub struct CaseResult {
    pub obs: String,
    pub verdict: Option<String>,
    pub flags: BTreeSet<&'static str>,
}

thread_local! {
    static ROOT: RefCell<Option<RootHandle>> = const { RefCell::new(None) };
}

fn fresh_root() -> RootHandle {
    ROOT.with(|r| {
        let mut r = r.borrow_mut();
        if let Some(h) = *r {
            if catch(|| h.dispose()).is_ok() {
                return h;
            }
        }
        let h = create_root(|| {});
        *r = Some(h);
        h
    })
}

fn observe(w: &World) -> (String, Vec<Option<(usize, usize, usize, bool)>>) {
    let n = w.handles.borrow().len();
    let mut alive = String::new();
    let mut vals = vec![];
    let mut edges = vec![];
    let mut snaps = vec![];
    for i in 0..n {
        let h = w.handles.borrow()[i];
        let snap = h.and_then(verif::snapshot);
        snaps.push(snap);
        match snap {
            None => {
                alive.push('0');
                vals.push("x".to_string());
            }
            Some((c, d, p, dirty)) => {
                alive.push('1');
                edges.push(format!("{c}/{d}/{p}/{}", dirty as u8));
                let sig = w.sigs.borrow()[i];
                let v = match sig {
                    Some(s) => catch(|| s.get_untracked()).ok(),
                    None => match w.sh.borrow().kind[i] {
                        Some(Kind::Effect) | Some(Kind::Memo) => w.effect_vals.borrow()[i],
                        _ => Some(0),
                    },
                };
                vals.push(v.map(|v| v.to_string()).unwrap_or("-".into()));
            }
        }
    }
    (format!("a={alive} v=[{}] n={} e=[{}]", vals.join(","), verif::node_count(), edges.join(",")), snaps)
}

/// judge the state after one top-level operation; first failure wins
fn judge(w: &World, k: usize, op: &Stmt, snaps: &[Option<(usize, usize, usize, bool)>], tracked_prev: &[Vec<usize>],
         vals_prev: &[Option<i64>], dirty_prev: &[bool], flags: &mut BTreeSet<&'static str>) -> Vec<String> {
    let mut fails: Vec<String> = vec![];
    let sh = w.sh.borrow();
    let n = snaps.len();
    if let Some(f) = &sh.ctx_fail {
        fails.push(f.clone());
    }
    if let Some(z) = sh.zombie_run {
        fails.push(format!("[zombie-run] op {k}: the callback of computation {z} was run although the node had been destroyed"));
    }
    // --- C04: ownership / liveness bookkeeping
    let live = snaps.iter().filter(|s| s.is_some()).count();
    if verif::node_count() != live {
        fails.push(format!("[node-count] op {k}: {} live nodes in the arena but {} of the created handles are alive", verif::node_count(), live));
    }
    {
        let mut ds = sh.dead_since.borrow_mut();
        ds.resize(n, None);
        for i in 0..n {
            if snaps[i].is_none() && ds[i].is_none() { ds[i] = Some(k); }
        }
    }
    for i in 0..n {
        let alive = snaps[i].is_some();
        if alive && sh.killed[i] {
            // a node that a cleanup created in a scope that was being DISPOSED at that moment (through a captured handle)
            // is left behind when the scope goes: its own class, so that it is told apart from every other leak
            // (the scope died in the very operation in which the node was born; a node born in the teardown of an earlier
            // RE-RUN is an ordinary child by now)
            let owner_dead = sh.owner[i].map(|o| snaps[o].is_none() && sh.dead_since.borrow()[o] == Some(sh.born_op[i])).unwrap_or(false);
            if sh.born_in_cleanup[i] && owner_dead {
                fails.push(format!("[orphan-born-in-teardown] op {k}: node {i}, created by a cleanup callback in scope {} while that scope was being disposed, is still alive although the scope is gone", sh.owner[i].unwrap()));
            } else {
                fails.push(format!("[leak] op {k}: node {i} is still alive although it (or its owner) was disposed or its owner re-ran"));
            }
        }
        if !alive && !sh.killed[i] {
            fails.push(format!("[freed-early] op {k}: node {i} is dead although neither it nor an owner was disposed or re-ran"));
        }
    }
    for (tag, (owner, ran)) in sh.cleanups.iter().enumerate() {
        let due = sh.killed[*owner] || false;
        // a cleanup is also due when its owner re-ran after the registration: covered by `ran` bookkeeping below
        if *ran > 1 {
            fails.push(format!("[cleanup-twice] op {k}: cleanup {tag} (registered in node {owner}) ran {ran} times"));
        }
        if due && *ran == 0 {
            fails.push(format!("[cleanup-missing] op {k}: cleanup {tag} of destroyed node {owner} never ran"));
        }
    }
    // --- C04 / C03: subscriber lists and dependency lists against the harness' record of tracked reads
    for i in 0..n {
        if let Some((_, dents, deps, _)) = snaps[i] {
            let is_comp = matches!(sh.kind[i], Some(Kind::Memo) | Some(Kind::Effect));
            if is_comp {
                let expect = sh.tracked[i].iter().filter(|d| snaps[**d].is_some()).count();
                if deps != expect {
                    fails.push(format!("[edges] op {k}: node {i} has {deps} dependencies but its latest run tracked {expect} live reads {:?}", sh.tracked[i]));
                }
            }
            let subs: usize = (0..n)
                .filter(|m| snaps[*m].is_some() && matches!(sh.kind[*m], Some(Kind::Memo) | Some(Kind::Effect)))
                .map(|m| sh.tracked[m].iter().filter(|d| **d == i).count())
                .sum();
            if dents != subs {
                flags.insert("stale-subscribers");
                fails.push(format!("[stale-subscribers] op {k}: node {i} has {dents} subscriber entries but {subs} tracked reads by live computations"));
            }
        }
    }
    // --- runs of this op
    let mut ran: Vec<usize> = sh.runs_op.iter().map(|r| r.0).collect();
    let first_pos = |node: usize| sh.runs_op.iter().position(|r| r.0 == node);
    // late-edge predicate (class of the known finding D1): the reader tracked, in this operation, a
    // computation it did not track in its previous run, and that computation ran later in the operation
    let late_edge = |reader: usize| -> bool {
        let Some(i) = sh.runs_op.iter().rposition(|r| r.0 == reader) else { return false };
        // a dependency of the final run that the reader has not tracked continuously since before the
        // operation (it was missing before the operation or in an earlier run of the reader in this
        // operation, which happens when effects write signals and the reader runs more than once)
        let continuously = |d: &usize| -> bool {
            tracked_prev.get(reader).map(|t| t.contains(d)).unwrap_or(false)
                && sh.runs_op[..i].iter().filter(|r| r.0 == reader).all(|r| r.3.contains(d))
        };
        sh.runs_op[i].3.iter().any(|d| !continuously(d) && sh.runs_op.iter().skip(i + 1).any(|r| r.0 == *d))
    };
    let created_this_op = |node: usize| vals_prev.len() <= node;
    // C10: nothing runs inside a batch
    if let Some(x) = sh.ran_inside_batch.first() {
        if !created_this_op(*x) {
            fails.push(format!("[ran-inside-batch] op {k}: computation {x} ran before the outermost batch ended"));
        }
    }
    // C10: when the outermost batch returns, every surviving computation that was subscribed (at the end of the batch
    // body) to a signal written inside the batch has run since — whoever made the write, and also when the subscriber
    // was created inside the batch (its first run may have read the signal BEFORE the write)
    if let Some((mark, tracked_at_end)) = &sh.batch_end {
        let mut ws = sh.batch_writes.clone();
        ws.sort();
        ws.dedup();
        for d in ws {
            if snaps.get(d).map(|x| x.is_none()).unwrap_or(true) { continue; }
            for i in 0..tracked_at_end.len().min(n) {
                if !matches!(sh.kind[i], Some(Kind::Memo) | Some(Kind::Effect)) || snaps[i].is_none() || sh.killed[i] || !tracked_at_end[i].contains(&d) { continue; }
                if !sh.runs_op[*mark..].iter().any(|r| r.0 == i) {
                    fails.push(format!("[batch-missed-run] op {k}: signal {d} was written inside the batch and computation {i} was subscribed to it when the batch body ended, but {i} did not run when the batch returned"));
                }
            }
        }
    }
    let program_effect_writes = sh.effect_wrote;
    // C02 (ii): at most one run per operation (effect-write-free operations)
    if !program_effect_writes {
        ran.sort();
        for p in ran.windows(2) {
            if p[0] == p[1] && !created_this_op(p[0]) {
                fails.push(format!("[double-run] op {k}: computation {} ran more than once", p[0]));
            }
        }
    }
    let is_write_op = matches!(op, Stmt::Set(..) | Stmt::Batch(..));
    // C02 (iii) / C03: a run is justified; C03: every subscriber of a change ran
    if is_write_op && !program_effect_writes {
        let changed = |d: usize| -> bool {
            if sh.writes_op.contains(&d) {
                return true;
            }
            if first_pos(d).is_none() {
                return false;
            }
            match sh.eq[d] {
                EqK::Never => true,
                _ => snaps[d].is_none() || vals_prev.get(d).copied().flatten() != stored_value(w, d),
            }
        };
        for i in 0..n {
            if created_this_op(i) || !matches!(sh.kind[i], Some(Kind::Memo) | Some(Kind::Effect)) {
                continue;
            }
            let subscribed = tracked_prev[i].iter().any(|d| changed(*d));
            // a source destroyed during the operation notifies nobody
            let must_run = tracked_prev[i].iter().any(|d| snaps[*d].is_some() && changed(*d));
            let did_run = first_pos(i).is_some();
            if did_run && !subscribed && !dirty_prev.get(i).copied().unwrap_or(false) {
                fails.push(format!("[unjustified-run] op {k}: computation {i} re-ran although nothing it tracked in its previous run ({:?}) was written, re-ran or changed", tracked_prev[i]));
            }
            if !did_run && must_run && snaps[i].is_some() && !sh.killed[i] {
                // a subscriber that was destroyed and re-created counts as new; a live one must have run
                fails.push(format!("[missed-run] op {k}: computation {i} tracked {:?} in its previous run, one of them changed, but it did not re-run", tracked_prev[i]));
            }
        }
    }
    // C01 / C02 (i): values and reads against the from-scratch reference (pure tracked-only computations)
    if sh.batch_depth == 0 {
        let mut memo: Vec<Option<Option<i64>>> = vec![None; n];
        fn scratch(w: &World, sh: &Shadow, snaps: &[Option<(usize, usize, usize, bool)>], memo: &mut Vec<Option<Option<i64>>>, id: usize) -> Option<i64> {
            if let Some(v) = memo[id] {
                return v;
            }
            let r = (|| {
                snaps[id]?;
                match sh.kind[id]? {
                    Kind::Signal => if sh.tainted.contains(&id) { None } else { stored_value(w, id) },
                    Kind::Scope => None,
                    _ => {
                        let (body, env) = sh.body[id].as_ref()?;
                        if !is_pure_tracked(body) {
                            // opaque source: its stored value is what its readers must be consistent with
                            return stored_value(w, id);
                        }
                        if sh.eq[id] != EqK::Never {
                            // coarse equality: the stored value is legitimate if the fresh one is "equal" to it
                            let mut acc = 0;
                            eval_pure(body, env, &mut acc, &mut |d| scratch(w, sh, snaps, memo, d))?;
                            let stored = stored_value(w, id)?;
                            return Some(if acc == stored || eq_holds(sh.eq[id], acc, stored) { stored } else { acc });
                        }
                        let mut acc = 0;
                        eval_pure(body, env, &mut acc, &mut |d| scratch(w, sh, snaps, memo, d))?;
                        Some(acc)
                    }
                }
            })();
            memo[id] = Some(r);
            r
        }
        for i in 0..n {
            if snaps[i].is_none() || !matches!(sh.kind[i], Some(Kind::Memo) | Some(Kind::Effect)) {
                continue;
            }
            let Some((body, _)) = sh.body[i].as_ref() else { continue };
            if !is_pure_tracked(body) {
                continue;
            }
            let want = scratch(w, &sh, snaps, &mut memo, i);
            let have = stored_value(w, i);
            if let (Some(want), Some(have)) = (want, have) {
                if want != have {
                    let cls = if late_edge(i) || snaps[i].map(|s| s.3).unwrap_or(false) && (0..n).any(|m| late_edge(m)) { "late-edge" } else { "stale-value" };
                    flags.insert(if cls == "late-edge" { "late-edge" } else { "stale-value" });
                    fails.push(format!("[{cls}] op {k}: computation {i} holds {have} but its function yields {want} from the current values"));
                }
            }
        }
        // C02 (i): every read of a computation made by a body that ran in this (effect-write-free) operation
        if !program_effect_writes && is_write_op {
            for (idx, (reader, reads, _, _)) in sh.runs_op.iter().enumerate() {
                for (d, v, _) in reads {
                    if !matches!(sh.kind[*d], Some(Kind::Memo)) || snaps[*d].is_none() {
                        continue;
                    }
                    let Some((body, _)) = sh.body[*d].as_ref() else { continue };
                    if !is_pure_tracked(body) {
                        continue;
                    }
                    if let Some(want) = scratch(w, &sh, snaps, &mut memo, *d) {
                        if want != *v {
                            let later = sh.runs_op.iter().skip(idx + 1).any(|r| r.0 == *d);
                            let newly = !tracked_prev.get(*reader).map(|t| t.contains(d)).unwrap_or(false);
                            let cls = if later && newly { "late-edge" } else { "glitch" };
                            flags.insert(if cls == "late-edge" { "late-edge" } else { "glitch" });
                            fails.push(format!("[{cls}] op {k}: computation {reader} read {v} from computation {d}, whose consistent value in this propagation is {want}"));
                        }
                    }
                }
            }
        }
    }
    // dirty at rest
    for i in 0..n {
        if let Some((_, _, _, true)) = snaps[i] {
            let cls = if (0..n).any(|m| late_edge(m)) { "late-edge" } else { "dirty-at-rest" };
            flags.insert(if cls == "late-edge" { "late-edge" } else { "dirty-at-rest" });
            fails.push(format!("[{cls}] op {k}: computation {i} is left dirty after the operation returned"));
        }
    }
    fails
}

/// `(reinit)`: `RootHandle::dispose()` — the root node and everything it owns is destroyed (cleanups run), whatever
/// is left in the arena is dropped, and a fresh root node becomes the current scope
fn do_reinit(w: &Rc<World>, root: RootHandle) {
    let old = w.root_seq.get();
    w.sh.borrow_mut().kill(old);
    root.dispose();
    {
        let mut sh = w.sh.borrow_mut();
        for m in 0..sh.killed.len() {
            sh.killed[m] = true;
            sh.provided[m].clear();
        }
        sh.frames.clear();
    }
    // `reinit` leaves no global root behind
    root.run_in(|| {
        let seq = w.alloc(Kind::Scope);
        w.handles.borrow_mut()[seq] = Some(use_global_scope());
        w.root_seq.set(seq);
        w.sh.borrow_mut().frames.push(Frame { current: seq, tracker: None });
    });
}

pub fn run_case(ops: &[Stmt]) -> CaseResult {
    let root = fresh_root();
    let mut out: Vec<String> = vec![];
    // failures of this case: the first of each oracle class (at most 4), in order of appearance; judging
    // stops after a failure of the known class `late-edge` (what follows a stale node is unpredictable)
    let mut verdicts: Vec<String> = vec![];
    fn class_of(v: &str) -> &str {
        v.split(']').next().unwrap_or("")
    }
    fn add(verdicts: &mut Vec<String>, v: String) {
        if verdicts.len() < 8 && !verdicts.iter().any(|x| class_of(x) == class_of(&v)) {
            verdicts.push(v);
        }
    }
    let mut flags = BTreeSet::new();
    root.run_in(|| {
        let w = World::new();
        let mut env: Vec<H> = vec![];
        let mut vals_prev: Vec<Option<i64>> = vec![None];
        let mut dirty_prev: Vec<bool> = vec![false];
        for (k, op) in ops.iter().enumerate() {
            w.trace.borrow_mut().clear();
            let tracked_prev = {
                let mut sh = w.sh.borrow_mut();
                sh.runs_op.clear();
                sh.ran_inside_batch.clear();
                sh.writes_op.clear();
                sh.expected_panic = None;
                sh.effect_wrote = false;
                sh.zombie_run = None;
                sh.batch_depth = 0;
                sh.op_no = k;
                sh.cleanup_depth = 0;
                sh.batch_writes.clear();
                sh.batch_end = None;
                sh.frames.truncate(1);
                sh.tracked.clone()
            };
            let mut run = Run { acc: 0, obs: vec![], reads: vec![] };
            let r = root.run_in(|| if matches!(op, Stmt::Reinit) { catch(|| do_reinit(&w, root)) } else { catch(|| exec_stmt(&w, &mut env, &mut run, op)) });
            // (a `reinit` leaves no global root behind: what follows runs inside `run_in` again)
            let stop = root.run_in(|| -> bool { match r {
                Err(m) => {
                    let cls = panic_class(&m);
                    out.push(format!("{k}:panic={cls}"));
                    let expected = w.sh.borrow().expected_panic;
                    if let Some(z) = w.sh.borrow().zombie_run {
                        add(&mut verdicts, format!("[zombie-run] op {k}: the callback of computation {z} was run although the node had been destroyed (and panicked: {m})"));
                    }
                    if cls == "harness" {
                        add(&mut verdicts, format!("[harness-bug] {m}"));
                    } else if expected != Some(cls) {
                        flags.insert("unexpected-panic");
                        add(&mut verdicts, format!("[unexpected-panic] op {k} `{}` panicked: {m}", show(op)));
                        // the harness' own bookkeeping says the scope does not provide that type (the documented duplicate
                        // panic was not expected): a provision of an earlier run / of a torn down scope is still there
                        if m.contains("exists already in this scope") {
                            add(&mut verdicts, format!("[context] op {k} `{}`: provide_context panicked ('{m}') although the scope provides no value of that type any more", show(op)));
                        }
                    } else {
                        flags.insert("documented-panic");
                    }
                    return true;
                }
                Ok(()) => {
                    let (state, snaps) = observe(&w);
                    out.push(format!("{k}:t=[{}] {state}", w.trace.borrow().join(" ")));
                    if verdicts.len() < 8 && verdicts.iter().any(|v| class_of(v) == "[late-edge") {
                        // after a late edge the VALUES downstream are unpredictable, the subscriptions are not: the reader is
                        // subscribed to what it read, so from the next operation on it must re-run when that changes
                        let mut fl = BTreeSet::new();
                        for v in judge(&w, k, op, &snaps, &tracked_prev, &vals_prev, &dirty_prev, &mut fl) {
                            if matches!(class_of(&v), "[missed-run" | "[stale-subscribers") { add(&mut verdicts, v); }
                        }
                    }
                    if verdicts.len() < 8 && !verdicts.iter().any(|v| class_of(v) == "[late-edge") {
                        let vs = judge(&w, k, op, &snaps, &tracked_prev, &vals_prev, &dirty_prev, &mut flags);
                        // within one operation, staleness downstream of a late edge (a computation that read the
                        // stale node, or holds a value computed from it) is a consequence of the late edge
                        let late = vs.iter().any(|v| class_of(v) == "[late-edge");
                        for v in vs {
                            if late && matches!(class_of(&v), "[stale-value" | "[glitch" | "[dirty-at-rest") {
                                continue;
                            }
                            add(&mut verdicts, v);
                        }
                    }
                    vals_prev = (0..snaps.len()).map(|i| stored_value(&w, i)).collect();
                    dirty_prev = snaps.iter().map(|s| s.map(|s| s.3).unwrap_or(false)).collect();
                    let sh = w.sh.borrow();
                    if !sh.runs_op.is_empty() {
                        flags.insert("reran");
                    }
                    if sh.effect_wrote {
                        flags.insert("effect-write");
                    }
                }
            }
            false });
            if stop { break; }
        }
    });
    let verdict = if verdicts.is_empty() { None } else { Some(verdicts.join(" ;; ")) };
    CaseResult { obs: out.join(" | "), verdict, flags }
}

pub fn case_line(ops: &[Stmt]) -> String {
    format!("reactive run (ops {})", show_body(ops))
}

// ---------------------------------------------------------------- generators

struct Gen<'a> {
    rng: &'a mut Rng,
    /// next signal level (levels order the signals by creation in the program text)
    next_lv: usize,
}

#[derive(Clone, Copy, PartialEq)]
enum HK {
    Sig,
    Memo,
    Effect,
    Scope,
}

/// a handle of the environment: its kind and its level (signals: a fresh increasing number; memos:
/// the highest level they read with tracking; 0 for the rest)
type Env = Vec<(HK, usize)>;

/// the level bookkeeping of one computation. An effect may write a signal only if its level is
/// above everything the effect reads with tracking, and may read only below everything it writes:
/// every cascade of effect writes then climbs strictly in level, so it terminates.
struct RW {
    /// one frame per nested computation (innermost last): (highest level read with tracking, lowest level written)
    frames: Vec<(usize, usize)>,
}
impl RW {
    fn new() -> RW {
        RW { frames: vec![(0, usize::MAX)] }
    }
    /// a computation created inside the current one: its READS are its own (they re-run only itself), its
    /// WRITES happen during the runs of all enclosing computations too
    fn push(&mut self) {
        self.frames.push((0, usize::MAX));
    }
    fn pop(&mut self) {
        self.frames.pop();
    }
    fn cur_max_read(&self) -> usize {
        self.frames.last().unwrap().0
    }
    fn cur_min_write(&self) -> usize {
        self.frames.last().unwrap().1
    }
    fn all_max_read(&self) -> usize {
        self.frames.iter().map(|f| f.0).max().unwrap_or(0)
    }
}

fn is_val(k: HK) -> bool {
    k == HK::Sig || k == HK::Memo
}

impl<'a> Gen<'a> {
    fn val(&mut self) -> i64 {
        self.rng.range(-2, 3)
    }
    fn ex(&mut self) -> Ex {
        match self.rng.below(4) {
            0 => Ex::Acc,
            1 => Ex::AccPlus(self.val()),
            _ => Ex::C(self.val()),
        }
    }
    fn new_sig(&mut self, env: &mut Env) {
        self.next_lv += 1;
        env.push((HK::Sig, self.next_lv));
    }
    fn pick(&mut self, env: &[(HK, usize)], f: impl Fn(HK) -> bool) -> Option<usize> {
        let c: Vec<usize> = (0..env.len()).filter(|i| f(env[*i].0)).collect();
        if c.is_empty() { None } else { Some(c[self.rng.below(c.len())]) }
    }
    /// a signal or memo this computation may read with tracking
    fn pick_read(&mut self, env: &[(HK, usize)], rw: &mut RW) -> Option<usize> {
        let c: Vec<usize> = (0..env.len()).filter(|i| is_val(env[*i].0) && env[*i].1 < rw.cur_min_write()).collect();
        if c.is_empty() {
            return None;
        }
        let h = c[self.rng.below(c.len())];
        let f = rw.frames.last_mut().unwrap();
        f.0 = f.0.max(env[h].1);
        Some(h)
    }
    /// a signal this effect may write
    fn pick_write(&mut self, env: &[(HK, usize)], rw: &mut RW) -> Option<usize> {
        let c: Vec<usize> = (0..env.len()).filter(|i| env[*i].0 == HK::Sig && env[*i].1 > rw.all_max_read()).collect();
        if c.is_empty() {
            return None;
        }
        let h = c[self.rng.below(c.len())];
        for f in rw.frames.iter_mut() { f.1 = f.1.min(env[h].1); }
        Some(h)
    }
    /// pure tracked-only body (reads and conditional reads)
    fn pure_body(&mut self, env: &[(HK, usize)], depth: usize, rw: &mut RW) -> Vec<Stmt> {
        let n = 1 + self.rng.below(3);
        let mut b = vec![];
        for _ in 0..n {
            let Some(h) = self.pick_read(env, rw) else { break };
            if depth > 0 && self.rng.chance(2, 5) {
                let t = self.pure_body(env, depth - 1, rw);
                let e = if self.rng.chance(1, 2) { self.pure_body(env, depth - 1, rw) } else { vec![] };
                b.push(Stmt::IfPos(h, t, e));
            } else {
                b.push(Stmt::Read(h));
            }
        }
        b
    }
    /// pure body with writes (effects only): reads, conditional reads and writes under the level rule
    fn pure_body_w(&mut self, env: &[(HK, usize)], depth: usize, rw: &mut RW) -> Vec<Stmt> {
        let mut b = self.pure_body(env, depth, rw);
        let nw = self.rng.below(3);
        for _ in 0..nw {
            if let Some(h) = self.pick_write(env, rw) {
                let at = self.rng.below(b.len() + 1);
                let e = self.ex();
                // a conditional write half of the time
                if self.rng.chance(1, 3) {
                    if let Some(c) = self.pick_read(env, rw) {
                        if env[c].1 < env[h].1 {
                            b.insert(at, Stmt::IfPos(c, vec![Stmt::Set(h, e)], vec![]));
                            continue;
                        }
                    }
                }
                b.insert(at, Stmt::Set(h, e));
            }
        }
        b
    }
    /// general body of a computation; `in_effect`: effects may write signals under the level rule
    /// kept in `rw` (shared by everything that runs as part of the same computation)
    fn body(&mut self, env: &mut Env, depth: usize, in_effect: bool, rw: &mut RW, rich: bool) -> Vec<Stmt> {
        let n = 1 + self.rng.below(if rich { 6 } else { 4 });
        let mut b = vec![];
        for _ in 0..n {
            let choice = self.rng.below(if rich { 22 } else { 8 });
            let s = match choice {
                0..=2 => self.pick_read(env, rw).map(Stmt::Read),
                3 => self.pick(env, is_val).map(Stmt::ReadU),
                4 => self.pick_read(env, rw).map(|h| {
                    let mut e1 = env.clone();
                    let t = if depth > 0 { self.body(&mut e1, depth - 1, in_effect, rw, rich) } else { vec![] };
                    let mut e2 = env.clone();
                    let e = if depth > 0 && self.rng.chance(1, 2) { self.body(&mut e2, depth - 1, in_effect, rw, rich) } else { vec![] };
                    Stmt::IfPos(h, t, e)
                }),
                5 => self.pick_read(env, rw).map(Stmt::Track),
                6 => {
                    let mut e1 = env.clone();
                    let inner = self.body(&mut e1, depth.saturating_sub(1), in_effect, rw, false);
                    Some(if self.rng.chance(1, 2) { Stmt::Untrack(inner) } else { Stmt::Component(inner) })
                }
                7 => {
                    let k = self.rng.below(3);
                    let deps: Vec<usize> = (0..k).filter_map(|_| self.pick_read(env, rw)).collect();
                    let mut e1 = env.clone();
                    let inner = self.body(&mut e1, depth.saturating_sub(1), in_effect, rw, false);
                    Some(Stmt::On(deps, inner))
                }
                8 => {
                    self.new_sig(env);
                    Some(Stmt::Signal(self.val()))
                }
                // computations created inside a body run as part of it (creation = first run), and are
                // re-created by its re-runs: their reads and writes count for the enclosing computation too
                9 if depth > 0 => {
                    let mut e1 = env.clone();
                    rw.push();
                    let inner = self.pure_or_body(&mut e1, depth - 1, rw);
                    let lv = rw.cur_max_read();
                    rw.pop();
                    env.push((HK::Memo, lv));
                    Some(if self.rng.chance(1, 3) { Stmt::Selector(*self.rng.pick(&[EqK::Same, EqK::Parity]), inner) } else { Stmt::Memo(inner) })
                }
                10 if depth > 0 => {
                    let mut e1 = env.clone();
                    rw.push();
                    let inner = self.body(&mut e1, depth - 1, true, rw, rich);
                    rw.pop();
                    env.push((HK::Effect, 0));
                    Some(Stmt::Effect(inner))
                }
                11 if depth > 0 => {
                    let mut e1 = env.clone();
                    let inner = self.body(&mut e1, depth - 1, in_effect, rw, rich);
                    env.push((HK::Scope, 0));
                    Some(Stmt::Scope(inner))
                }
                12 => {
                    // a cleanup runs when its owner re-runs or is disposed: it counts for the enclosing
                    // computation; besides reads it may WRITE signals (under the level rule)
                    let mut e1 = env.clone();
                    let mut inner = self.body(&mut e1, 0, false, rw, false);
                    if self.rng.chance(1, 2) {
                        if let Some(h) = self.pick_write(env, rw) {
                            let at = self.rng.below(inner.len() + 1);
                            let e = self.ex();
                            inner.insert(at, Stmt::Set(h, e));
                        }
                    }
                    Some(Stmt::Cleanup(inner.into_iter().filter(|s| matches!(s, Stmt::Read(_) | Stmt::ReadU(_) | Stmt::Track(_) | Stmt::Set(..))).collect()))
                }
                13 => Some(Stmt::Provide(self.rng.below(3) as u8, self.ex())),
                14 | 15 => Some(Stmt::Use(self.rng.below(3) as u8)),
                16 if in_effect => self.pick_write(env, rw).map(|h| Stmt::Set(h, self.ex())),
                17 => self.pick(env, |k| k == HK::Sig).filter(|_| !in_effect).map(|h| Stmt::SetSilent(h, self.ex())),
                18 => {
                    if self.rng.chance(1, 6) {
                        Some(Stmt::DisposeCur)
                    } else {
                        let h = self.pick(env, |_| true);
                        h.filter(|_| self.rng.chance(1, 3)).map(Stmt::Dispose)
                    }
                }
                19 if depth > 0 => self.pick(env, |k| k == HK::Scope || k == HK::Effect).map(|h| {
                    let mut e1 = env.clone();
                    Stmt::RunIn(h, self.body(&mut e1, depth - 1, in_effect, rw, false))
                }),
                20 if depth > 0 && in_effect => {
                    let mut e1 = env.clone();
                    Some(Stmt::Batch(self.body(&mut e1, depth - 1, in_effect, rw, false)))
                }
                _ => self.pick_read(env, rw).map(Stmt::Read),
            };
            if let Some(s) = s {
                b.push(s);
            }
        }
        b
    }
    /// body of a memo (never writes)
    fn pure_or_body(&mut self, env: &mut Env, depth: usize, rw: &mut RW) -> Vec<Stmt> {
        if self.rng.chance(3, 4) { self.pure_body(env, depth.min(1), rw) } else { self.body(env, depth, false, rw, false) }
    }

    /// a random program: declarations then operations, all at top level
    fn program(&mut self, profile: usize) -> Vec<Stmt> {
        let mut env: Env = vec![];
        let mut ops = vec![];
        let nsig = 1 + self.rng.below(4);
        for _ in 0..nsig {
            self.new_sig(&mut env);
            ops.push(Stmt::Signal(self.val()));
        }
        let ncomp = 1 + self.rng.below(if profile == 0 || profile == 3 { 6 } else { 5 });
        for _ in 0..ncomp {
            let mut e1 = env.clone();
            let mut rw = RW::new();
            let s = match (profile, self.rng.below(10)) {
                // profile 0: pure programs (C01/C02/C03 core): memos, selectors and effects with pure tracked bodies
                (0, 0..=4) => { let b = self.pure_body(&e1, 2, &mut rw); env.push((HK::Memo, rw.cur_max_read())); Stmt::Memo(b) }
                (0, 5..=6) => { let b = self.pure_body(&e1, 2, &mut rw); env.push((HK::Memo, rw.cur_max_read())); Stmt::Selector(*self.rng.pick(&[EqK::Same, EqK::Parity]), b) }
                (0, _) => { let b = self.pure_body(&e1, 2, &mut rw); env.push((HK::Effect, 0)); Stmt::Effect(b) }
                // profile 1: read forms (C03)
                (1, 0..=5) => { let b = self.body(&mut e1, 1, false, &mut rw, false); env.push((HK::Memo, rw.cur_max_read())); Stmt::Memo(b) }
                (1, _) => { let b = self.body(&mut e1, 1, false, &mut rw, false); env.push((HK::Effect, 0)); Stmt::Effect(b) }
                // profile 3: pure programs whose effects also write signals (propagations started
                // while another one is running, over shared nodes)
                (3, 0..=3) => { let b = self.pure_body(&e1, 1, &mut rw); env.push((HK::Memo, rw.cur_max_read())); Stmt::Memo(b) }
                (3, 4) => { let b = self.pure_body(&e1, 1, &mut rw); env.push((HK::Memo, rw.cur_max_read())); Stmt::Selector(*self.rng.pick(&[EqK::Same, EqK::Parity]), b) }
                (3, 5..=8) => { let b = self.pure_body_w(&e1, 1, &mut rw); env.push((HK::Effect, 0)); Stmt::Effect(b) }
                (3, _) => { self.new_sig(&mut env); Stmt::Signal(self.val()) }
                // profile 2: everything (ownership, disposal, context, effect writes, batches)
                (_, 0..=2) => { let b = self.pure_or_body(&mut e1, 2, &mut rw); env.push((HK::Memo, rw.cur_max_read())); Stmt::Memo(b) }
                (_, 3..=6) => { let b = self.body(&mut e1, 2, true, &mut rw, true); env.push((HK::Effect, 0)); Stmt::Effect(b) }
                (_, 7) => { let b = self.body(&mut e1, 2, false, &mut rw, true); env.push((HK::Scope, 0)); Stmt::Scope(b) }
                (_, _) => { self.new_sig(&mut env); Stmt::Signal(self.val()) }
            };
            ops.push(s);
        }
        let nops = 3 + self.rng.below(10);
        for _ in 0..nops {
            let s = match self.rng.below(if profile == 2 { 14 } else { 9 }) {
                0..=5 => self.pick(&env, |k| k == HK::Sig).map(|h| Stmt::Set(h, Ex::C(self.val()))),
                6..=7 => {
                    let n = 1 + self.rng.below(4);
                    let mut b = vec![];
                    for _ in 0..n {
                        if let Some(h) = self.pick(&env, |k| k == HK::Sig) {
                            b.push(Stmt::Set(h, Ex::C(self.val())));
                        }
                        if self.rng.chance(1, 4) {
                            if let Some(h) = self.pick(&env, |k| k == HK::Memo) {
                                b.push(Stmt::ReadU(h));
                            }
                        }
                        if self.rng.chance(1, 5) {
                            let inner: Vec<Stmt> = (0..1 + self.rng.below(2)).filter_map(|_| self.pick(&env, |k| k == HK::Sig).map(|h| Stmt::Set(h, Ex::C(self.val())))).collect();
                            b.push(Stmt::Batch(inner));
                        }
                    }
                    Some(Stmt::Batch(b))
                }
                8 if profile != 3 => self.pick(&env, |k| k == HK::Sig).map(|h| Stmt::SetSilent(h, Ex::C(self.val()))),
                8 => self.pick(&env, |k| k == HK::Sig).map(|h| Stmt::Set(h, Ex::C(self.val()))),
                9..=10 => self.pick(&env, |_| true).map(Stmt::Dispose),
                11 => self.pick(&env, |k| k == HK::Scope || k == HK::Effect).map(|h| {
                    let mut e1 = env.clone();
                    let mut rw = RW::new();
                    Stmt::RunIn(h, self.body(&mut e1, 1, false, &mut rw, true))
                }),
                12 => {
                    let mut e1 = env.clone();
                    let mut rw = RW::new();
                    let b = self.body(&mut e1, 1, true, &mut rw, true);
                    env.push((HK::Effect, 0));
                    Some(Stmt::Effect(b))
                }
                _ => Some(Stmt::Use(self.rng.below(3) as u8)),
            };
            if let Some(s) = s {
                ops.push(s);
            }
        }
        ops
    }
}

/// does the top-level statement add a handle to the top-level environment?
fn creates_handle(s: &Stmt) -> bool {
    matches!(s, Stmt::Signal(_) | Stmt::Memo(_) | Stmt::ZMemo(_) | Stmt::Selector(..) | Stmt::Effect(_) | Stmt::Scope(_))
}
/// the same statement in an environment that has `d` more handles in front (every lexical environment of a
/// program starts with the top-level handles created before it)
fn shift(s: &Stmt, d: usize) -> Stmt {
    let b = |b: &Vec<Stmt>| b.iter().map(|x| shift(x, d)).collect::<Vec<Stmt>>();
    match s {
        Stmt::Read(h) => Stmt::Read(h + d),
        Stmt::ReadU(h) => Stmt::ReadU(h + d),
        Stmt::Track(h) => Stmt::Track(h + d),
        Stmt::IfPos(h, t, e) => Stmt::IfPos(h + d, b(t), b(e)),
        Stmt::Untrack(x) => Stmt::Untrack(b(x)),
        Stmt::Component(x) => Stmt::Component(b(x)),
        Stmt::On(ds, x) => Stmt::On(ds.iter().map(|h| h + d).collect(), b(x)),
        Stmt::Memo(x) => Stmt::Memo(b(x)),
        Stmt::ZMemo(x) => Stmt::ZMemo(b(x)),
        Stmt::Selector(k, x) => Stmt::Selector(*k, b(x)),
        Stmt::Effect(x) => Stmt::Effect(b(x)),
        Stmt::Scope(x) => Stmt::Scope(b(x)),
        Stmt::Set(h, e) => Stmt::Set(h + d, *e),
        Stmt::SetSilent(h, e) => Stmt::SetSilent(h + d, *e),
        Stmt::Cleanup(x) => Stmt::Cleanup(b(x)),
        Stmt::Dispose(h) => Stmt::Dispose(h + d),
        Stmt::Batch(x) => Stmt::Batch(b(x)),
        Stmt::RunIn(h, x) => Stmt::RunIn(h + d, b(x)),
        other => other.clone(),
    }
}
/// two programs on one root with `RootHandle::dispose()` in between (what every server render does with the
/// thread's root): the second generation behaves like a first one, and nothing of the first survives
fn with_reinit(a: Vec<Stmt>, b: Vec<Stmt>, tail_old: Option<Stmt>) -> Vec<Stmt> {
    let d = a.iter().filter(|s| creates_handle(s)).count();
    let mut ops = a;
    ops.push(Stmt::Reinit);
    ops.extend(b.iter().map(|s| shift(s, d)));
    ops.extend(tail_old);
    ops
}

fn s_set(h: usize, v: i64) -> Stmt {
    Stmt::Set(h, Ex::C(v))
}

/// hand-written families (parameterised), incl. the witnesses of the known/fixed findings
fn templates() -> Vec<Vec<Stmt>> {
    use Stmt::*;
    let mut t: Vec<Vec<Stmt>> = vec![];
    // chains
    for n in 1..6 {
        let mut p = vec![Signal(0)];
        for i in 0..n {
            p.push(Memo(vec![Read(i)]));
        }
        p.push(Effect(vec![Read(n)]));
        p.extend([s_set(0, 1), s_set(0, 1), s_set(0, 2)]);
        t.push(p);
    }
    // diamonds of depth d and width w
    for d in 1..4 {
        for wd in 2..4 {
            let mut p = vec![Signal(1)];
            let mut prev: Vec<usize> = vec![0];
            for _ in 0..d {
                let mut layer = vec![];
                for _ in 0..wd {
                    layer.push(p.len());
                    p.push(Memo(prev.iter().map(|h| Read(*h)).collect()));
                }
                prev = layer;
            }
            p.push(Effect(prev.iter().map(|h| Read(*h)).collect()));
            p.extend([s_set(0, 2), s_set(0, -1), Batch(vec![s_set(0, 3), s_set(0, 4)])]);
            t.push(p);
        }
    }
    // fan-in through parity selectors
    t.push(vec![Signal(0), Signal(0), Selector(EqK::Parity, vec![Read(0)]), Selector(EqK::Same, vec![Read(1), Read(2)]), Memo(vec![Read(2), Read(3)]), Effect(vec![Read(4)]),
        s_set(0, 2), s_set(0, 3), s_set(1, 1), s_set(0, 5), s_set(0, 4)]);
    // conditional switches (late edges): D1 and relatives
    t.push(vec![Signal(0), Memo(vec![Read(0), Read(0)]), Memo(vec![IfPos(0, vec![Read(1)], vec![])]), s_set(0, 1), s_set(0, 2), s_set(0, 0)]);
    t.push(vec![Signal(0), Memo(vec![Read(0)]), Memo(vec![Read(1)]), Memo(vec![IfPos(0, vec![Read(2)], vec![])]), Effect(vec![Read(3)]), s_set(0, 1), s_set(0, 2)]);
    t.push(vec![Signal(0), Signal(5), Memo(vec![Read(1)]), Memo(vec![IfPos(0, vec![Read(2)], vec![Read(1)])]), s_set(0, 1), s_set(1, 6), s_set(0, 0), s_set(1, 7)]);
    // after a late edge the reader is SUBSCRIBED to what it started to read: a later write that reaches it only through that
    // memo re-runs it (memo and effect readers; single write and batch; the memo over one and over two signals)
    t.push(vec![Signal(0), Signal(3), Memo(vec![Read(0), Read(1)]), Memo(vec![IfPos(0, vec![Read(2)], vec![])]), s_set(0, 2), s_set(1, 10), s_set(1, 11), s_set(0, 0), s_set(1, 12)]);
    t.push(vec![Signal(0), Signal(3), Memo(vec![Read(0), Read(1)]), Effect(vec![IfPos(0, vec![Read(2)], vec![])]), s_set(0, 2), s_set(1, 10), s_set(1, 11)]);
    t.push(vec![Signal(0), Signal(1), Memo(vec![Read(1)]), Effect(vec![IfPos(0, vec![Read(2)], vec![])]), Batch(vec![s_set(1, 5), s_set(0, 1)]), s_set(1, 6), s_set(1, 7)]);
    t.push(vec![Signal(0), Signal(1), Memo(vec![Read(1)]), Memo(vec![Read(2)]), Effect(vec![IfPos(0, vec![Read(3)], vec![])]), Batch(vec![s_set(0, 1), s_set(1, 5)]), s_set(1, 6), s_set(0, 0), s_set(1, 7)]);
    // a memo created during the propagation that reads a pending memo
    t.push(vec![Signal(0), Memo(vec![Read(0)]), Effect(vec![IfPos(0, vec![Memo(vec![Read(1)]), Read(2)], vec![])]), s_set(0, 1), s_set(0, 2)]);
    t.push(vec![Signal(0), Memo(vec![Read(0)]), Effect(vec![Read(0), Memo(vec![Read(1)])]), s_set(0, 1), s_set(0, 2)]);
    // read forms
    t.push(vec![Signal(1), Signal(2), Signal(3), Effect(vec![Read(0), ReadU(1), Untrack(vec![Read(2)]), On(vec![1], vec![Read(2)]), Component(vec![Read(2)]), Cleanup(vec![Read(2)])]),
        s_set(2, 9), s_set(1, 8), s_set(0, 7), s_set(2, 6)]);
    t.push(vec![Signal(1), Signal(2), Effect(vec![Read(0), Read(0), Track(1), IfPos(0, vec![], vec![Read(1)])]), s_set(0, 0), s_set(1, 5), s_set(0, 1), s_set(1, 6)]);
    t.push(vec![Signal(1), Effect(vec![Signal(4), Read(1), Read(0)]), s_set(0, 2), s_set(0, 3)]);
    // ownership: nested owners, cleanups, disposal
    t.push(vec![Signal(0), Effect(vec![Read(0), Signal(1), Memo(vec![Read(1)]), Effect(vec![Read(2), Cleanup(vec![ReadU(0)])]), Cleanup(vec![])]), s_set(0, 1), s_set(0, 2), Dispose(1)]);
    t.push(vec![Signal(0), Scope(vec![Effect(vec![Track(0)])]), Dispose(1), s_set(0, 1)]); // D2
    t.push(vec![Signal(0), Scope(vec![Effect(vec![Read(0)]), Memo(vec![Read(0)]), Scope(vec![Effect(vec![Read(0)])])]), s_set(0, 1), Dispose(1), s_set(0, 2), s_set(0, 3)]);
    // batches (D3)
    t.push(vec![Signal(0), Effect(vec![Read(0)]), Batch(vec![s_set(0, 1), Batch(vec![s_set(0, 2)]), ReadU(0), s_set(0, 3)]), s_set(0, 4)]);
    t.push(vec![Signal(0), Signal(0), Memo(vec![Read(0), Read(1)]), Effect(vec![Read(2)]), Batch(vec![s_set(0, 1), ReadU(2), s_set(1, 1), Batch(vec![Batch(vec![s_set(0, 2)])]), ReadU(2)]), Batch(vec![])]);
    t.push(vec![Signal(0), Signal(0), Effect(vec![Read(0), Batch(vec![Set(1, Ex::Acc), Set(1, Ex::AccPlus(1))])]), Effect(vec![Read(1)]), s_set(0, 1), s_set(0, 2)]);
    // disposal from inside runs / cleanups / batches (D4)
    // (a) an effect disposes its owner scope / itself when s > 0
    t.push(vec![Signal(0), Scope(vec![]), RunIn(1, vec![Effect(vec![IfPos(0, vec![Dispose(1)], vec![])])]), s_set(0, 1), s_set(0, 2)]);
    t.push(vec![Signal(0), Effect(vec![IfPos(0, vec![DisposeCur], vec![])]), Effect(vec![Read(0)]), s_set(0, 1), s_set(0, 2)]);
    t.push(vec![Signal(0), Memo(vec![Read(0), IfPos(0, vec![DisposeCur], vec![])]), Effect(vec![IfPos(0, vec![], vec![Read(1)])]), s_set(0, 1), s_set(0, 0)]);
    t.push(vec![Signal(1), Scope(vec![Effect(vec![Read(0), DisposeCur])]), s_set(0, 2)]);
    // (b) track a signal created in the same run and dispose it in that run
    t.push(vec![Signal(0), Effect(vec![Read(0), Signal(1), Read(1), Dispose(1)]), s_set(0, 1)]);
    // (c) batch: write a signal of a scope, then dispose that scope
    t.push(vec![Scope(vec![Signal(0), Effect(vec![Read(0)])]), Signal(0), Batch(vec![]), s_set(1, 1)]);
    t.push(vec![Signal(0), Scope(vec![]), RunIn(1, vec![Signal(7), Effect(vec![Read(2), Read(0)])]), Batch(vec![s_set(0, 1), Dispose(1)]), s_set(0, 2)]);
    t.push(vec![Scope(vec![]), RunIn(0, vec![Signal(7), Effect(vec![Read(1)]), RunIn(0, vec![])]), Signal(3), Effect(vec![Read(1)]), Batch(vec![s_set(1, 1), Dispose(0)])]);
    // (d) a cleanup that disposes its own node
    t.push(vec![Signal(0), Scope(vec![Cleanup(vec![DisposeCur]), Signal(0)]), Dispose(1)]);
    t.push(vec![Signal(0), Effect(vec![Read(0), Cleanup(vec![DisposeCur])]), s_set(0, 1), s_set(0, 2)]);
    t.push(vec![Signal(0), Effect(vec![Read(0), Scope(vec![Cleanup(vec![])])]), s_set(0, 1)]);
    // context
    t.push(vec![Provide(0, Ex::C(1)), Scope(vec![Provide(1, Ex::C(2)), Scope(vec![Provide(0, Ex::C(3)), Use(0), Use(1), Use(2)]), Use(0)]), Use(0), Use(1), RunIn(0, vec![Use(1), Use(0)])]);
    t.push(vec![Signal(0), Provide(0, Ex::C(5)), Effect(vec![Read(0), IfPos(0, vec![Provide(0, Ex::Acc)], vec![]), Effect(vec![Use(0)])]), s_set(0, 1), s_set(0, 0), s_set(0, 2)]);
    t.push(vec![Provide(2, Ex::C(1)), Provide(2, Ex::C(2))]);
    // context lookups DURING a teardown: a cleanup of the providing scope writes a signal that a descendant
    // depends on; the descendant re-runs before the scope's children are disposed and still sees the scope's
    // provision (not the outer one, not nothing)
    for outer in [false, true] {
        // (a) a scope that is disposed
        let mut p = vec![Signal(0)];
        if outer { p.push(Provide(0, Ex::C(3))); }
        p.push(Scope(vec![Provide(0, Ex::C(7)), Provide(1, Ex::C(8)), Effect(vec![Read(0), Use(0), Use(1)]), Cleanup(vec![Set(0, Ex::C(1))])]));
        p.extend([Dispose(1), s_set(0, 2)]);
        t.push(p);
        // (b) an effect that re-runs (its cleanups run before its children are disposed)
        let mut p = vec![Signal(0), Signal(0)];
        if outer { p.push(Provide(0, Ex::C(3))); }
        p.push(Effect(vec![Read(1), Provide(0, Ex::AccPlus(10)), Effect(vec![Read(0), Use(0)]), Cleanup(vec![Set(0, Ex::AccPlus(1))])]));
        p.extend([s_set(1, 1), s_set(1, 2), Dispose(2), s_set(0, 5)]);
        t.push(p);
        // (c) a memo with a nested memo
        let mut p = vec![Signal(0), Signal(0)];
        if outer { p.push(Provide(1, Ex::C(4))); }
        p.push(Memo(vec![Read(1), Provide(1, Ex::Acc), Memo(vec![Read(0), Use(1)]), Cleanup(vec![Set(0, Ex::C(9))])]));
        p.extend([s_set(1, 3), s_set(1, 4)]);
        t.push(p);
    }
    // effects that write a second signal during the propagation of the first, and computations
    // that read both (propagations nested in a running one, over nodes of the outer wave)
    for eff_first in [true, false] {
        for indirect in [false, true] {
            for batch in [false, true] {
                // 0 = s, 1 = t
                let mut p = vec![Signal(0), Signal(0)];
                let eff = Effect(vec![Read(0), Set(1, Ex::AccPlus(10))]);
                if eff_first {
                    p.push(eff.clone());
                }
                let src = if indirect {
                    p.push(Memo(vec![Read(1), Read(1)]));
                    p.len() - 1
                } else {
                    1
                };
                p.push(Memo(vec![Read(0), Read(src)]));
                let sum = p.len() - 1;
                p.push(Effect(vec![Read(sum)]));
                if !eff_first {
                    p.push(eff);
                }
                for v in [1, 2, 2, -1] {
                    if batch {
                        p.push(Batch(vec![s_set(0, v), s_set(0, v + 1)]));
                    } else {
                        p.push(s_set(0, v));
                    }
                    p.push(ReadU(sum));
                }
                t.push(p);
            }
        }
    }
    // a chain of writing effects: s -> (E1 writes t) -> (E2 writes u) -> observer of s, t, u
    {
        let mut p = vec![Signal(0), Signal(0), Signal(0)];
        p.push(Effect(vec![Read(1), Set(2, Ex::AccPlus(1))]));
        p.push(Effect(vec![Read(0), Set(1, Ex::AccPlus(2))]));
        p.push(Memo(vec![Read(0), Read(1), Read(2)]));
        p.push(Effect(vec![Read(5)]));
        p.extend([s_set(0, 1), ReadU(5), s_set(0, 2), ReadU(5), s_set(1, 0), ReadU(5)]);
        t.push(p);
    }
    // a cleanup that WRITES a signal: a surviving effect re-runs in the middle of the disposal and subscribes to
    // the node that is being disposed; afterwards it must not keep a dangling dependency
    for memo in [true, false] {
        for extra in [false, true] {
            let m_body = vec![Read(0), Cleanup(vec![Set(1, Ex::C(1))])];
            let mut p = vec![Signal(0), Signal(0), if memo { Memo(m_body) } else { Effect(m_body) }];
            // E reads M only while t > 0 (it is alive then)
            p.push(Effect(if memo { vec![IfPos(1, vec![Read(2)], vec![])] } else { vec![IfPos(1, vec![Track(0)], vec![]), Read(1)] }));
            if extra { p.push(Effect(vec![Read(1), Read(0)])); }
            p.extend([Dispose(2), s_set(1, 0), s_set(0, 5), s_set(1, 0), s_set(1, -1)]);
            t.push(p);
        }
    }
    // a DESCENDANT's cleanup writes a signal that the (cleanup-less) node being torn down depends on
    for memo in [false, true] {
        for deep in [false, true] {
            let inner = Effect(vec![Cleanup(vec![Set(0, Ex::C(5))])]);
            let inner = if deep { Scope(vec![Effect(vec![Read(1)]), inner]) } else { inner };
            let body = vec![Read(0), Signal(1), inner];
            let mut p = vec![Signal(0), Signal(0), Scope(vec![if memo { Memo(body) } else { Effect(body) }])];
            p.extend([Dispose(2), s_set(0, 1), s_set(1, 1)]);
            t.push(p);
            // the same node disposed directly
            let inner = Effect(vec![Cleanup(vec![Set(0, Ex::AccPlus(2))])]);
            let body = vec![Read(0), Signal(1), inner];
            let mut p = vec![Signal(0), if memo { Memo(body) } else { Effect(body) }];
            p.extend([s_set(0, 1), Dispose(1), s_set(0, 2)]);
            t.push(p);
        }
    }
    // the same with the node owned by a scope that is disposed
    {
        let mut p = vec![Signal(0), Signal(0)];
        p.push(Scope(vec![Effect(vec![Read(0), Cleanup(vec![Set(1, Ex::AccPlus(1))])]), Cleanup(vec![Set(1, Ex::C(2))])]));
        p.push(Effect(vec![Read(1), Read(0)]));
        p.extend([s_set(0, 1), Dispose(2), s_set(1, 0), s_set(0, 2)]);
        t.push(p);
    }
    // nodes created in a scope WHILE that scope tears down the contents of its previous run (a cleanup that goes back
    // into its own scope through a captured handle): they belong to the scope and go with its next re-run / disposal
    for memo in [false, true] {
        for inner in [vec![Signal(5)], vec![Signal(5), Effect(vec![Read(0)])], vec![Scope(vec![Cleanup(vec![ReadU(0)])]), Memo(vec![Read(0)])]] {
            let body = vec![Read(0)];
            let mut p = vec![Signal(0), if memo { Memo(body) } else { Effect(body) }];
            p.push(RunIn(1, vec![Cleanup(vec![RunIn(1, inner.clone())])]));
            p.extend([s_set(0, 1), s_set(0, 2), Dispose(1), s_set(0, 3)]);
            t.push(p.clone());
            // the cleanup is registered again by every run (through the handle of the enclosing scope's child)
            let mut q = vec![Signal(0), Scope(vec![Effect(vec![Read(0)])])];
            q.push(RunIn(1, vec![Cleanup(vec![RunIn(1, inner.clone())])]));
            q.extend([s_set(0, 1), Dispose(1), s_set(0, 2)]);
            t.push(q);
        }
    }
    // GENERATIONS: what a cleanup puts into the dying scope is torn down in a further pass, during which it may put more
    // into it, and so on: the teardown goes on until the scope holds nothing
    for inner in [vec![Signal(5)], vec![Signal(5), Effect(vec![Read(0)])], vec![Cleanup(vec![ReadU(0)])], vec![Scope(vec![Cleanup(vec![ReadU(0)])]), Memo(vec![Read(0)])]] {
        for gens in [2usize, 3] {
            let mut b = inner.clone();
            for _ in 0..gens { b = vec![Cleanup(vec![RunIn(1, b)])]; }
            let mut q = vec![Signal(0), Scope(vec![Effect(vec![Read(0)])])];
            q.push(RunIn(1, b.clone()));
            q.extend([s_set(0, 1), Dispose(1), s_set(0, 2), s_set(0, 3)]);
            t.push(q);
            let mut p = vec![Signal(0), Effect(vec![Read(0)])];
            p.push(RunIn(1, b));
            p.extend([s_set(0, 1), s_set(0, 2), Dispose(1), s_set(0, 3)]);
            t.push(p);
        }
    }
    // a context provided by a computation's run goes with the re-run also when a cleanup put something into the scope during
    // the teardown (the re-run provides again / looks the value up)
    for memo in [false, true] {
        for inner in [vec![Signal(5)], vec![Cleanup(vec![])], vec![Effect(vec![Use(0)])]] {
            let body = vec![Read(0), Use(0), Provide(0, Ex::AccPlus(10)), Use(0)];
            let mut p = vec![Signal(0), if memo { Memo(body) } else { Effect(body) }];
            p.push(RunIn(1, vec![Cleanup(vec![RunIn(1, inner.clone())])]));
            p.extend([s_set(0, 1), RunIn(1, vec![Use(0)]), s_set(0, 2), Dispose(1)]);
            t.push(p);
            // the provision happens only in the first run: afterwards the scope provides nothing
            let body = vec![Read(0), IfPos(0, vec![Use(0)], vec![Provide(0, Ex::C(7))]), Scope(vec![Use(0)])];
            let mut q = vec![Signal(0), Provide(0, Ex::C(1)), if memo { Memo(body) } else { Effect(body) }];
            q.push(RunIn(1, vec![Cleanup(vec![RunIn(1, inner.clone())])]));
            q.extend([s_set(0, 1), RunIn(1, vec![Use(0)]), s_set(0, 0)]);
            t.push(q);
        }
    }
    // computations created INSIDE a batch whose first run reads a signal and writes it (the subscription is recorded
    // only after the run, the write is queued: the computation re-runs once when the outermost batch ends)
    for memo in [false, true] {
        for (w, nested) in [(Ex::C(5), false), (Ex::AccPlus(1), false), (Ex::C(5), true)] {
            let wr = if nested { Scope(vec![Set(0, w)]) } else { Set(0, w) };
            let body = vec![Read(0), wr];
            let c = if memo { Memo(body) } else { Effect(body) };
            t.push(vec![Signal(0), Batch(vec![c.clone()]), s_set(0, 1)]);
            t.push(vec![Signal(0), Batch(vec![Batch(vec![c.clone()]), ReadU(0)]), s_set(0, 2)]);
            // the written signal is another one, read by a computation created earlier in the same batch
            t.push(vec![Signal(0), Signal(0), Batch(vec![Effect(vec![Read(0), Set(1, Ex::AccPlus(1)), Read(1)])]), s_set(0, 1)]);
        }
    }
    // RootHandle::dispose() in the middle (Root::reinit): cleanups run once, everything of the first generation is
    // gone (orphans created by cleanups during the teardown included), the second generation starts from scratch
    {
        let first: Vec<Vec<Stmt>> = vec![
            vec![Signal(1), Memo(vec![Read(0)]), Effect(vec![Read(1), Cleanup(vec![Signal(9)])]), s_set(0, 2)],
            vec![Signal(1), Provide(0, Ex::C(4)), Scope(vec![Provide(1, Ex::C(5)), Effect(vec![Read(0), Use(0), Use(1)]), Cleanup(vec![Use(1)])]), s_set(0, 3)],
            // cleanups that write a signal which is disposed later in the same teardown (owner order) and one that
            // creates an effect while everything goes away
            vec![Scope(vec![Effect(vec![Cleanup(vec![Effect(vec![Signal(0)])])])]), Signal(0), Effect(vec![Read(1)]), Scope(vec![Cleanup(vec![Set(1, Ex::C(7))])]), s_set(1, 1)],
            // a batch left nothing pending; a selector; an effect that disposes its own scope
            vec![Signal(0), Selector(EqK::Parity, vec![Read(0)]), Effect(vec![Read(1)]), Batch(vec![s_set(0, 1), s_set(0, 3)]), Scope(vec![Effect(vec![Read(0), DisposeCur])]), s_set(0, 4)],
        ];
        // cleanups that register cleanups / create computations with cleanups in the IMPLICIT scope while the root goes away
        let mut first = first;
        first.push(vec![Signal(0), Effect(vec![Read(0), Cleanup(vec![Cleanup(vec![Signal(7)]), Signal(3), Effect(vec![Cleanup(vec![Signal(8)])])])])]);
        first.push(vec![Signal(1), Scope(vec![Cleanup(vec![Cleanup(vec![]), Scope(vec![Cleanup(vec![Cleanup(vec![])])])])])]);
        let second: Vec<Vec<Stmt>> = vec![
            vec![Signal(5), Memo(vec![Read(0)]), Effect(vec![Read(1)]), s_set(0, 6), Use(0), Use(1)],
            vec![Provide(0, Ex::C(1)), Signal(0), Scope(vec![Effect(vec![Read(0), Use(0)])]), s_set(0, 1), Reinit, Signal(3), Use(0)],
        ];
        for a in &first {
            for b in &second {
                t.push(with_reinit(a.clone(), b.clone(), None));
                t.push(with_reinit(a.clone(), b.clone(), Some(ReadU(0))));
            }
            t.push(with_reinit(a.clone(), vec![], Some(Dispose(0))));
        }
    }
    t
}

/// C11 crash-point enumeration: insert `dispose h` at every position of every body that runs during
/// a propagation, for every handle nameable there
fn with_disposals(base: &[Stmt]) -> Vec<Vec<Stmt>> {
    fn env_growth(s: &Stmt) -> usize {
        matches!(s, Stmt::Signal(_) | Stmt::Memo(_) | Stmt::ZMemo(_) | Stmt::Selector(..) | Stmt::Effect(_) | Stmt::Scope(_)) as usize
    }
    fn variants(body: &[Stmt], env_len: usize, top: bool) -> Vec<Vec<Stmt>> {
        let mut out = vec![];
        let mut len = env_len;
        for pos in 0..=body.len() {
            if !top {
                for h in 0..len {
                    let mut b = body.to_vec();
                    b.insert(pos, Stmt::Dispose(h));
                    out.push(b);
                }
                let mut b = body.to_vec();
                b.insert(pos, Stmt::DisposeCur);
                out.push(b);
            }
            if pos < body.len() {
                let put = |out: &mut Vec<Vec<Stmt>>, s: Stmt| {
                    let mut b = body.to_vec();
                    b[pos] = s;
                    out.push(b);
                };
                match &body[pos] {
                    Stmt::Memo(i) => variants(i, len, false).into_iter().for_each(|v| put(&mut out, Stmt::Memo(v))),
                    Stmt::Effect(i) => variants(i, len, false).into_iter().for_each(|v| put(&mut out, Stmt::Effect(v))),
                    Stmt::Scope(i) => variants(i, len, false).into_iter().for_each(|v| put(&mut out, Stmt::Scope(v))),
                    Stmt::Cleanup(i) => variants(i, len, false).into_iter().for_each(|v| put(&mut out, Stmt::Cleanup(v))),
                    Stmt::Batch(i) => variants(i, len, false).into_iter().for_each(|v| put(&mut out, Stmt::Batch(v))),
                    Stmt::IfPos(h, t, e) => {
                        variants(t, len, false).into_iter().for_each(|v| put(&mut out, Stmt::IfPos(*h, v, e.clone())));
                        variants(e, len, false).into_iter().for_each(|v| put(&mut out, Stmt::IfPos(*h, t.clone(), v)));
                    }
                    _ => {}
                }
                len += env_growth(&body[pos]);
            }
        }
        out
    }
    variants(base, 0, true)
}

fn crash_bases() -> Vec<Vec<Stmt>> {
    use Stmt::*;
    vec![
        vec![Signal(0), Scope(vec![Signal(1), Effect(vec![Read(0), Read(1), Cleanup(vec![ReadU(0)])]), Memo(vec![Read(0)])]), s_set(0, 1), s_set(0, 2)],
        vec![Signal(0), Effect(vec![Read(0), Effect(vec![Read(0)]), Scope(vec![Cleanup(vec![])])]), s_set(0, 1), s_set(0, 2)],
        vec![Signal(0), Signal(0), Scope(vec![Effect(vec![Read(0)])]), Effect(vec![Read(1)]), Batch(vec![s_set(0, 1), s_set(1, 1)]), s_set(0, 2)],
        vec![Signal(0), Memo(vec![Read(0)]), Scope(vec![Effect(vec![IfPos(1, vec![Read(0)], vec![])])]), s_set(0, 1), s_set(0, -1)],
    ]
}

pub fn run(args: &Args) {
    let mut sink = Sink::new(&args.out, "reactive");
    let thorough = args.tier == "thorough";
    let (corpus, only) = crate::corpus_lines(args);
    let mut cases: Vec<Vec<Stmt>> = vec![];
    for l in &corpus {
        match parse_ops(l) {
            Some(ops) => cases.push(ops),
            None => eprintln!("reactive: cannot parse corpus line {l}"),
        }
    }
    sink.note("corpus_cases", cases.len());
    if !only {
        let focus: Option<usize> = args.extra.iter().position(|x| x == "--profile").and_then(|i| args.extra.get(i + 1)).and_then(|s| s.parse().ok());
        let t = templates();
        sink.note("template_cases", t.len());
        cases.extend(t);
        let mut crash = vec![];
        for b in crash_bases() {
            crash.extend(with_disposals(&b));
        }
        sink.note("crash_point_cases", crash.len());
        cases.extend(crash);
        let mut rng = Rng::new(args.seed);
        let n = if thorough { 600_000 } else { 40_000 };
        for i in 0..n {
            let profile = focus.unwrap_or(i % 4);
            let mut g = Gen { rng: &mut rng, next_lv: 0 };
            let a = g.program(profile);
            // one program in 16: the root is disposed and used again for a second program; now and then the case
            // ends by using a handle of the first generation
            if i % 16 == 5 {
                let mut g = Gen { rng: &mut rng, next_lv: 0 };
                let b = g.program((profile + 1 + i / 16) % 4);
                let hs: Vec<bool> = a.iter().filter(|s| creates_handle(s)).map(|s| matches!(s, Stmt::Signal(_) | Stmt::Memo(_) | Stmt::Selector(..))).collect();
                let tail = if !hs.is_empty() && rng.chance(1, 4) { let h = rng.below(hs.len()); Some(if hs[h] && rng.chance(1, 2) { Stmt::ReadU(h) } else { Stmt::Dispose(h) }) } else { None };
                cases.push(with_reinit(a, b, tail));
            } else {
                cases.push(a);
            }
        }
    }
    // D20 witness (always run): a handle that survives RootHandle::dispose must not alias a node of the next
    // generation of the same root
    {
        let r = catch(|| {
            let mut old = None;
            let root = create_root(|| { let _pad = create_signal(0i64); old = Some(create_signal(1i64)); });
            let old = old.unwrap();
            root.dispose();
            let mut new = None;
            root.run_in(|| { let _pad = create_signal(0i64); new = Some(create_signal(100i64)); });
            let new = new.unwrap();
            root.run_in(|| {
                let alive = old.is_alive();
                if alive { old.set(7); }
                (alive, new.get_untracked())
            })
        });
        let (obs, verdict) = match r {
            Ok((alive, v)) => (format!("old_alive={} new={v}", alive as u8),
                if alive || v != 100 { Some(format!("[freed-early] a signal of a disposed root reports is_alive() = {alive} after the root was re-used, and a write through it left the new signal at {v} (expected 100)")) } else { None }),
            Err(m) => ("panic".into(), Some(format!("[unexpected-panic] re-using a disposed root panicked: {m}"))),
        };
        sink.case("reactive special root-reuse", &obs, verdict, true);
    }
    let trace_cases = std::env::var("VERIF_TRACE_CASES").is_ok();
    for ops in &cases {
        let line = case_line(ops);
        if trace_cases {
            // a stack overflow (unbounded cascade) kills the process: leave the culprit in a file
            let _ = std::fs::write(args.out.join("reactive.current"), &line);
        }
        begin_case(&line);
        let r = run_case(ops);
        for f in &r.flags {
            sink.count(&format!("flag:{f}"));
        }
        sink.count(&format!("ops:{}", ops.len().min(20)));
        let nt = r.flags.contains("reran");
        sink.case(&line, &r.obs, r.verdict, nt);
    }
    sink.finish();
}
