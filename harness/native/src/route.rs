//! E3 "route" (C17): RoutePath::match_path, Route::match_path and three derived enums.
use crate::util::*;
use sycamore_router::{Capture, Route, RoutePath, Segment};

// ---- derived enums (transcribed in lean/SycVerif/Driver/Route.lean: innerEnum/mainEnum/overlapEnum)

#[derive(Debug, Route, PartialEq, Eq, Clone)]
pub enum Inner {
    #[to("/")]
    Index,
    #[to("/item/<id>")]
    Item(u32),
    #[to("/name/<name>")]
    Name { name: String },
    #[to("/all/<rest..>")]
    All(Vec<String>),
    #[not_found]
    NotFound,
}

#[derive(Debug, Route, PartialEq, Eq, Clone)]
pub enum Main {
    #[to("/")]
    Home,
    #[to("/a/<id>")]
    A(u32),
    #[to("/a/<id>/<name>")]
    AB { id: u32, name: String },
    #[to("/nums/<ns..>")]
    Nums(Vec<u32>),
    #[to("/files/<path..>/end")]
    Files { path: Vec<String> },
    #[to("/x/<p..>/mid/<q>")]
    X(Vec<String>, u32),
    #[to("/sub/<inner..>")]
    Sub(Inner),
    #[to("/<a>/<b>/<c..>/end/<d..>")]
    Big(String, u32, Vec<u32>, Vec<String>),
    #[not_found]
    NotFound,
}

#[derive(Debug, Route, PartialEq, Eq, Clone)]
pub enum Overlap {
    #[to("/<n>")]
    Num(u32),
    #[to("/<s>")]
    Word(String),
    #[to("/<ns..>/end")]
    NumsEnd(Vec<u32>),
    #[to("/<ss..>/end")]
    StrsEnd { ss: Vec<String> },
    #[to("/<all..>")]
    AllNums(Vec<u32>),
    #[not_found]
    NotFound,
}

/// unit variants declared AFTER variants with captures that accept the same path: declaration order decides
#[derive(Debug, Route, PartialEq, Eq, Clone)]
pub enum Shadow {
    #[to("/<page>")]
    Page { page: String },
    #[to("/about")]
    About,
    #[to("/u/<id>")]
    User(u32),
    #[to("/u/me")]
    Me,
    #[to("/u/7")]
    Seven,
    #[to("/docs/<rest..>")]
    Docs(Vec<String>),
    #[to("/docs/index")]
    DocsIndex,
    #[to("/n/<ns..>")]
    Ns(Vec<u32>),
    #[to("/n/x/y")]
    NXY,
    #[to("/")]
    Home,
    #[not_found]
    NotFound,
}

fn nums(v: &[u32]) -> String {
    format!("N[{}]", v.iter().map(|n| n.to_string()).collect::<Vec<_>>().join(","))
}
fn strs(v: &[String]) -> String {
    format!("S[{}]", enc_list(v))
}
fn canon_inner(r: &Inner) -> (usize, Vec<String>) {
    match r {
        Inner::Index => (0, vec![]),
        Inner::Item(n) => (1, vec![format!("n{n}")]),
        Inner::Name { name } => (2, vec![format!("s{}", enc(name))]),
        Inner::All(v) => (3, vec![strs(v)]),
        Inner::NotFound => (4, vec![]),
    }
}
fn canon_main(r: &Main) -> (usize, Vec<String>) {
    match r {
        Main::Home => (0, vec![]),
        Main::A(n) => (1, vec![format!("n{n}")]),
        Main::AB { id, name } => (2, vec![format!("n{id}"), format!("s{}", enc(name))]),
        Main::Nums(v) => (3, vec![nums(v)]),
        Main::Files { path } => (4, vec![strs(path)]),
        Main::X(p, q) => (5, vec![strs(p), format!("n{q}")]),
        Main::Sub(i) => {
            let (v, f) = canon_inner(i);
            (6, vec![format!("R({v} {})", f.join(" "))])
        }
        Main::Big(a, b, c, d) => (7, vec![format!("s{}", enc(a)), format!("n{b}"), nums(c), strs(d)]),
        Main::NotFound => (8, vec![]),
    }
}
fn canon_overlap(r: &Overlap) -> (usize, Vec<String>) {
    match r {
        Overlap::Num(n) => (0, vec![format!("n{n}")]),
        Overlap::Word(s) => (1, vec![format!("s{}", enc(s))]),
        Overlap::NumsEnd(v) => (2, vec![nums(v)]),
        Overlap::StrsEnd { ss } => (3, vec![strs(ss)]),
        Overlap::AllNums(v) => (4, vec![nums(v)]),
        Overlap::NotFound => (5, vec![]),
    }
}
fn canon_shadow(r: &Shadow) -> (usize, Vec<String>) {
    match r {
        Shadow::Page { page } => (0, vec![format!("s{}", enc(page))]),
        Shadow::About => (1, vec![]),
        Shadow::User(n) => (2, vec![format!("n{n}")]),
        Shadow::Me => (3, vec![]),
        Shadow::Seven => (4, vec![]),
        Shadow::Docs(v) => (5, vec![strs(v)]),
        Shadow::DocsIndex => (6, vec![]),
        Shadow::Ns(v) => (7, vec![nums(v)]),
        Shadow::NXY => (8, vec![]),
        Shadow::Home => (9, vec![]),
        Shadow::NotFound => (10, vec![]),
    }
}
fn show((v, f): (usize, Vec<String>)) -> String {
    let mut s = format!("ok {v}");
    for x in f {
        s.push(' ');
        s += &x;
    }
    s
}

// ---- reference (oracle): independent implementation of the `Fits` relation and of field parsing

#[derive(Clone, Debug, PartialEq)]
enum Seg {
    S(String),
    P,
    D,
}
#[derive(Clone, Debug, PartialEq)]
enum Cap {
    One(String),
    Many(Vec<String>),
}

fn strip_ref(path: &[String]) -> Vec<String> {
    let mut v = path.to_vec();
    if let Some(l) = v.last_mut() {
        let cut = l.find(|c| c == '?' || c == '#').unwrap_or(l.len());
        l.truncate(cut);
    }
    v
}

/// index-based reference: for `<p..>` before static `s`, the capture ends at the first occurrence
/// of `s` at or after the current position.
fn fits_ref(pat: &[Seg], path: &[String], pi: usize, si: usize, caps: &mut Vec<Cap>) -> bool {
    if pi == pat.len() {
        return si == path.len();
    }
    match &pat[pi] {
        Seg::S(s) => si < path.len() && &path[si] == s && fits_ref(pat, path, pi + 1, si + 1, caps),
        Seg::P => {
            if si < path.len() {
                caps.push(Cap::One(path[si].clone()));
                fits_ref(pat, path, pi + 1, si + 1, caps)
            } else {
                false
            }
        }
        Seg::D => {
            if pi + 1 == pat.len() {
                caps.push(Cap::Many(path[si..].to_vec()));
                true
            } else if let Seg::S(s) = &pat[pi + 1] {
                match path[si..].iter().position(|x| x == s) {
                    None => false,
                    Some(k) => {
                        caps.push(Cap::Many(path[si..si + k].to_vec()));
                        fits_ref(pat, path, pi + 2, si + k + 1, caps)
                    }
                }
            } else {
                panic!("ill-formed pattern in reference")
            }
        }
    }
}

fn show_caps_ref(c: &[Cap]) -> String {
    if c.is_empty() {
        return "some -".into();
    }
    format!(
        "some {}",
        c.iter()
            .map(|c| match c {
                Cap::One(s) => format!("1:{}", enc(s)),
                Cap::Many(l) => format!("m:{}", enc_list(l)),
            })
            .collect::<Vec<_>>()
            .join(";")
    )
}

fn wf(pat: &[Seg]) -> bool {
    (0..pat.len()).all(|i| pat[i] != Seg::D || i + 1 == pat.len() || matches!(pat[i + 1], Seg::S(_)))
}

// reference for the enums: (pattern string, field kinds)
#[derive(Clone, Copy)]
enum K {
    U32,
    Str,
    VecStr,
    VecU32,
    Nested,
}
fn parse_pat(p: &str) -> Vec<Seg> {
    p.split('/')
        .filter(|s| !s.is_empty())
        .map(|s| {
            if s.starts_with('<') && s.ends_with("..>") {
                Seg::D
            } else if s.starts_with('<') {
                Seg::P
            } else {
                Seg::S(s.to_string())
            }
        })
        .collect()
}
fn table(e: usize) -> (Vec<(&'static str, Vec<K>)>, usize) {
    match e {
        0 => (
            vec![
                ("/", vec![]),
                ("/a/<id>", vec![K::U32]),
                ("/a/<id>/<name>", vec![K::U32, K::Str]),
                ("/nums/<ns..>", vec![K::VecU32]),
                ("/files/<path..>/end", vec![K::VecStr]),
                ("/x/<p..>/mid/<q>", vec![K::VecStr, K::U32]),
                ("/sub/<inner..>", vec![K::Nested]),
                ("/<a>/<b>/<c..>/end/<d..>", vec![K::Str, K::U32, K::VecU32, K::VecStr]),
            ],
            8,
        ),
        1 => (
            vec![
                ("/<n>", vec![K::U32]),
                ("/<s>", vec![K::Str]),
                ("/<ns..>/end", vec![K::VecU32]),
                ("/<ss..>/end", vec![K::VecStr]),
                ("/<all..>", vec![K::VecU32]),
            ],
            5,
        ),
        3 => (
            vec![
                ("/<page>", vec![K::Str]),
                ("/about", vec![]),
                ("/u/<id>", vec![K::U32]),
                ("/u/me", vec![]),
                ("/u/7", vec![]),
                ("/docs/<rest..>", vec![K::VecStr]),
                ("/docs/index", vec![]),
                ("/n/<ns..>", vec![K::VecU32]),
                ("/n/x/y", vec![]),
                ("/", vec![]),
            ],
            10,
        ),
        _ => (
            vec![
                ("/", vec![]),
                ("/item/<id>", vec![K::U32]),
                ("/name/<name>", vec![K::Str]),
                ("/all/<rest..>", vec![K::VecStr]),
            ],
            4,
        ),
    }
}
fn u32_ref(s: &str) -> Option<u32> {
    // decimal digits with an optional single leading '+', value < 2^32
    let d = s.strip_prefix('+').unwrap_or(s);
    if d.is_empty() || !d.bytes().all(|b| b.is_ascii_digit()) {
        return None;
    }
    let mut v: u64 = 0;
    for b in d.bytes() {
        v = v * 10 + (b - b'0') as u64;
        if v > u32::MAX as u64 {
            return None;
        }
    }
    Some(v as u32)
}
fn route_ref(e: usize, segs: &[String]) -> String {
    let (vars, nf) = table(e);
    let path = strip_ref(segs);
    'v: for (i, (p, ks)) in vars.iter().enumerate() {
        let pat = parse_pat(p);
        let mut caps = vec![];
        if !fits_ref(&pat, &path, 0, 0, &mut caps) || caps.len() != ks.len() {
            continue;
        }
        let mut out = vec![];
        for (c, k) in caps.iter().zip(ks) {
            match (c, k) {
                (Cap::One(s), K::U32) => match u32_ref(s) {
                    Some(n) => out.push(format!("n{n}")),
                    None => continue 'v,
                },
                (Cap::One(s), K::Str) => out.push(format!("s{}", enc(s))),
                (Cap::Many(l), K::VecStr) => out.push(strs(l)),
                (Cap::Many(l), K::VecU32) => {
                    let mut ns = vec![];
                    for s in l {
                        match u32_ref(s) {
                            Some(n) => ns.push(n),
                            None => continue 'v,
                        }
                    }
                    out.push(nums(&ns))
                }
                (Cap::Many(l), K::Nested) => {
                    let r = route_ref(2, l);
                    let body = r.strip_prefix("ok ").unwrap();
                    let (idx, rest) = body.split_once(' ').unwrap_or((body, ""));
                    out.push(format!("R({idx} {rest})"))
                }
                _ => continue 'v,
            }
        }
        let mut s = format!("ok {i}");
        for x in out {
            s.push(' ');
            s += &x;
        }
        return s;
    }
    format!("ok {nf}")
}

// ---- decoding of request lines

fn dec(s: &str) -> String {
    if s == "e" || s.is_empty() {
        String::new()
    } else {
        s.split('.').map(|n| char::from_u32(n.parse().unwrap()).unwrap()).collect()
    }
}
fn dec_list(s: &str) -> Vec<String> {
    if s == "-" {
        vec![]
    } else {
        s.split(',').map(dec).collect()
    }
}
fn dec_pat(s: &str) -> Vec<Seg> {
    if s == "-" {
        return vec![];
    }
    s.split(',')
        .map(|t| match t {
            "P" => Seg::P,
            "D" => Seg::D,
            _ => Seg::S(dec(&t[1..])),
        })
        .collect()
}
fn enc_pat(p: &[Seg]) -> String {
    if p.is_empty() {
        return "-".into();
    }
    p.iter()
        .map(|s| match s {
            Seg::P => "P".to_string(),
            Seg::D => "D".to_string(),
            Seg::S(s) => format!("S{}", enc(s)),
        })
        .collect::<Vec<_>>()
        .join(",")
}

fn panic_class(msg: &str) -> &'static str {
    if msg.contains("index out of bounds") {
        "panic index"
    } else if msg.contains("called `Option::unwrap()` on a `None` value") {
        "panic unwrap"
    } else if msg.contains("unreachable") {
        "panic unreachable"
    } else {
        "panic other"
    }
}

fn run_enum(e: usize, f: impl FnOnce() -> (usize, Vec<String>)) -> String {
    let _ = e;
    match catch(f) {
        Ok(r) => show(r),
        Err(m) => panic_class(&m).to_string(),
    }
}

/// Execute one request line on the real code. Returns (observation, oracle verdict, nontrivial).
pub fn exec(line: &str) -> (String, Option<String>, bool) {
    let t: Vec<&str> = line.split(' ').collect();
    match t[1] {
        "path" => {
            let pat = dec_pat(t[2]);
            let path = dec_list(t[3]);
            let rp = RoutePath::new(
                pat.iter()
                    .map(|s| match s {
                        Seg::S(s) => Segment::Param(s.clone()),
                        Seg::P => Segment::DynParam,
                        Seg::D => Segment::DynSegments,
                    })
                    .collect(),
            );
            let refs: Vec<&str> = path.iter().map(|s| s.as_str()).collect();
            let obs = match catch(|| {
                rp.match_path(&refs).map(|caps| {
                    caps.iter()
                        .map(|c| match c {
                            Capture::DynParam(s) => Cap::One(s.to_string()),
                            Capture::DynSegments(l) => Cap::Many(l.iter().map(|s| s.to_string()).collect()),
                        })
                        .collect::<Vec<_>>()
                })
            }) {
                Ok(None) => "none".to_string(),
                Ok(Some(c)) => show_caps_ref(&c),
                Err(m) => panic_class(&m).replace("panic ", ""),
            };
            let verdict = if wf(&pat) {
                let mut caps = vec![];
                let stripped = strip_ref(&path);
                let exp = if fits_ref(&pat, &stripped, 0, 0, &mut caps) { show_caps_ref(&caps) } else { "none".into() };
                if exp == obs { None } else { Some(format!("reference matcher says `{exp}`, match_path returned `{obs}`")) }
            } else {
                None
            };
            let nontrivial = pat.iter().any(|s| *s != Seg::S(String::new()) && !matches!(s, Seg::S(_)));
            (obs, verdict, nontrivial)
        }
        "segs" | "url" => {
            let e: usize = t[2].parse().unwrap();
            let (obs, segs): (String, Vec<String>) = if t[1] == "segs" {
                let path = dec_list(t[3]);
                let refs: Vec<&str> = path.iter().map(|s| s.as_str()).collect();
                let o = match e {
                    0 => run_enum(e, || canon_main(&Main::default().match_route(&refs))),
                    1 => run_enum(e, || canon_overlap(&Overlap::default().match_route(&refs))),
                    3 => run_enum(e, || canon_shadow(&Shadow::default().match_route(&refs))),
                    _ => run_enum(e, || canon_inner(&Inner::default().match_route(&refs))),
                };
                (o, path)
            } else {
                let url = dec(t[3]);
                let o = match e {
                    0 => run_enum(e, || canon_main(&Main::default().match_path(&url))),
                    1 => run_enum(e, || canon_overlap(&Overlap::default().match_path(&url))),
                    3 => run_enum(e, || canon_shadow(&Shadow::default().match_path(&url))),
                    _ => run_enum(e, || canon_inner(&Inner::default().match_path(&url))),
                };
                // reference URL split: cut at the first ? or #, split on '/', drop empties
                let cut = url.find(|c| c == '?' || c == '#').unwrap_or(url.len());
                let segs = url[..cut].split('/').filter(|s| !s.is_empty()).map(|s| s.to_string()).collect();
                (o, segs)
            };
            let exp = route_ref(e, &segs);
            let verdict = if obs == exp {
                None
            } else if obs.starts_with("panic") {
                Some(format!("derived enum panicked ({obs}); reference says `{exp}`"))
            } else {
                Some(format!("reference says `{exp}`, derived enum returned `{obs}`"))
            };
            (obs, verdict, !segs.is_empty())
        }
        _ => ("bad-op".into(), None, false),
    }
}

fn all_seqs<T: Clone>(alpha: &[T], max: usize) -> Vec<Vec<T>> {
    let mut out = vec![vec![]];
    let mut frontier = vec![vec![]];
    for _ in 0..max {
        let mut next = vec![];
        for s in &frontier {
            for a in alpha {
                let mut t: Vec<T> = s.clone();
                t.push(a.clone());
                next.push(t);
            }
        }
        out.extend(next.iter().cloned());
        frontier = next;
    }
    out
}

pub fn generate(args: &Args) -> Vec<String> {
    let thorough = args.tier == "thorough";
    let mut lines = vec![];
    let mut rng = Rng::new(args.seed);
    // (1) exhaustive: well-formed patterns × paths
    let (pl, sl) = if thorough { (4, 5) } else { (3, 4) };
    let alpha = [Seg::S("a".into()), Seg::S("b".into()), Seg::P, Seg::D];
    let pats: Vec<Vec<Seg>> = all_seqs(&alpha, pl).into_iter().filter(|p| wf(p)).collect();
    let paths = all_seqs(&["a".to_string(), "b".to_string(), "c".to_string()], sl);
    for p in &pats {
        for s in &paths {
            lines.push(format!("route path {} {}", enc_pat(p), enc_list(s)));
        }
    }
    // (2) query/fragment/odd characters in any segment position
    let odd = ["a", "b", "a?x", "b#y", "?", "#", "a?b#c", "a#b?c", "", "é", "a/b", "end", "\u{1F600}", "%2F", " "];
    let n_odd = if thorough { 200_000 } else { 20_000 };
    for _ in 0..n_odd {
        let p: Vec<Seg> = loop {
            let n = rng.below(5);
            let p: Vec<Seg> = (0..n)
                .map(|_| match rng.below(5) {
                    0 => Seg::P,
                    1 => Seg::D,
                    _ => Seg::S(rng.pick(&odd).to_string()),
                })
                .collect();
            if wf(&p) {
                break p;
            }
        };
        let n = rng.below(6);
        let s: Vec<String> = (0..n).map(|_| rng.pick(&odd).to_string()).collect();
        lines.push(format!("route path {} {}", enc_pat(&p), enc_list(&s)));
    }
    // (3) derived enums on all segment lists over their own vocabulary
    let vocab: [&[&str]; 4] = [
        &["a", "nums", "files", "x", "mid", "sub", "item", "end", "7", "+3", "4294967296", "q", "name", "all", "-1", "nums?q=1", "sub#f"],
        &["1", "w", "end", "4294967295", "00", "+", "e?q=1"],
        &["item", "name", "all", "5", "z", "-0", "all?x=1", "item#i"],
        &["about", "u", "me", "7", "docs", "index", "n", "x", "y", "12", "about?tab=team", "docs#top"],
    ];
    for (e, v) in vocab.iter().enumerate() {
        let v: Vec<String> = v.iter().map(|s| s.to_string()).collect();
        let max = match (e, thorough) {
            (0, false) => 4,
            (0, true) => 5,
            (3, false) => 4,
            (3, true) => 5,
            (_, false) => 5,
            (_, true) => 7,
        };
        for s in all_seqs(&v, max) {
            lines.push(format!("route segs {e} {}", enc_list(&s)));
        }
    }
    // (4) URL strings
    let pieces = ["/", "//", "a", "nums", "files", "x", "mid", "sub", "item", "end", "7", "12", "?", "#", "?q=/end", "#/end", "%", "é", "name", "all", "+3", "q", "1", "w", "about", "u", "me", "docs", "index", "n", "y"];
    let n_url = if thorough { 300_000 } else { 30_000 };
    for _ in 0..n_url {
        let e = rng.below(4);
        let n = if e == 3 { 1 + rng.below(4) } else { 1 + rng.below(9) };
        let mut u = String::new();
        for _ in 0..n {
            u += *rng.pick(&pieces[..]);
            if rng.chance(2, 3) {
                u.push('/');
            }
        }
        lines.push(format!("route url {e} {}", enc(&u)));
    }
    lines
}

pub fn run(args: &Args) {
    let mut sink = Sink::new(&args.out, "route");
    let (mut lines, only) = crate::corpus_lines(args);
    let corpus_n = lines.len();
    if !only {
        lines.extend(generate(args));
    }
    sink.note("corpus_cases", corpus_n);
    for l in &lines {
        let (obs, verdict, nt) = exec(l);
        let kind = l.split(' ').nth(1).unwrap_or("?").to_string();
        sink.count(&format!("op:{kind}"));
        sink.count(&format!(
            "result:{}",
            if obs.starts_with("some") || (obs.starts_with("ok") && !obs.ends_with(&format!(" {}", 999))) { obs.split(' ').next().unwrap() } else { obs.as_str() }
        ));
        sink.case(l, &obs, verdict, nt);
    }
    sink.finish();
}
