//! E6 "ssr" (C08, C12): render_to_string on (a) hand-built SsrNode trees and (b) views built through
//! the builder API, compared with the Lean model; the output is also parsed by an independent HTML
//! tokenizer + stack builder (the oracle) and compared with the tree that was built.
use crate::util::*;
use std::collections::HashMap;
use std::sync::{Arc, Mutex};
use sycamore::web::tags::*;
use sycamore::web::{custom_element, render_to_string, GlobalAttributes, GlobalProps, HydrationKey, SsrNode, View};

#[derive(Clone, Debug)]
enum N {
    El { tag: String, attrs: Vec<(String, String)>, battrs: Vec<(String, bool)>, children: Vec<N>, inner: Option<String>, hk: Option<(u32, u32)> },
    TD(String),
    TS(String),
    M,
    Dyn(Vec<N>),
}
#[derive(Clone, Debug)]
enum V {
    El { tag: String, attrs: Vec<(String, Option<String>)>, battrs: Vec<(String, bool)>, children: Vec<V> },
    Text(String),
    DText(String),
    DView(Vec<V>),
    Frag(Vec<V>),
    /// two dynamic regions, each empty until its flag is set, and a BATCH that sets both flags while the view is built
    /// (first field: the flag of the first region is written first): the regions re-run when the batch ends — the one written
    /// last first — and their elements take their hydration keys in that order, on a fresh and on a recycled root alike
    Batch2(bool, Vec<V>, Vec<V>),
}

fn leak(s: &str) -> &'static str {
    Box::leak(s.to_string().into_boxed_str())
}

// ---------- S-expressions
fn sx_n(n: &N) -> String {
    match n {
        N::El { tag, attrs, battrs, children, inner, hk } => format!(
            "(el {} (A{}) (B{}) (C{}) {} {})",
            enc(tag),
            attrs.iter().map(|(a, v)| format!(" ({} {})", enc(a), enc(v))).collect::<String>(),
            battrs.iter().map(|(a, v)| format!(" ({} {})", enc(a), if *v { "t" } else { "f" })).collect::<String>(),
            children.iter().map(|c| format!(" {}", sx_n(c))).collect::<String>(),
            match inner { None => "N".to_string(), Some(s) => format!("(S {})", enc(s)) },
            match hk { None => "N".to_string(), Some((s, e)) => format!("(K {s} {e})") }
        ),
        N::TD(s) => format!("(td {})", enc(s)),
        N::TS(s) => format!("(ts {})", enc(s)),
        N::M => "(m)".into(),
        N::Dyn(c) => format!("(dyn{})", c.iter().map(|c| format!(" {}", sx_n(c))).collect::<String>()),
    }
}
fn sx_v(v: &V) -> String {
    let l = |c: &Vec<V>| c.iter().map(|c| format!(" {}", sx_v(c))).collect::<String>();
    match v {
        V::El { tag, attrs, battrs, children } => format!(
            "(el {} (A{}) (B{}) (C{}))",
            enc(tag),
            attrs.iter().map(|(a, v)| format!(" ({} {})", enc(a), match v { None => "N".to_string(), Some(v) => format!("(S {})", enc(v)) })).collect::<String>(),
            battrs.iter().map(|(a, v)| format!(" ({} {})", enc(a), if *v { "t" } else { "f" })).collect::<String>(),
            l(children)
        ),
        V::Text(s) => format!("(text {})", enc(s)),
        V::DText(s) => format!("(dtext {})", enc(s)),
        V::DView(c) => format!("(dview{})", l(c)),
        V::Frag(c) => format!("(frag{})", l(c)),
        V::Batch2(ab, a, b) => format!("(batch2 {} (X{}) (Y{}))", if *ab { "ab" } else { "ba" }, l(a), l(b)),
    }
}

// S-expression reader (corpus / replay)
#[derive(Debug)]
enum Sx { A(String), L(Vec<Sx>) }
fn sx_parse(s: &str) -> Option<Sx> {
    let toks: Vec<String> = s.replace('(', " ( ").replace(')', " ) ").split_whitespace().map(|x| x.to_string()).collect();
    fn go(t: &[String], i: &mut usize) -> Option<Sx> {
        let tok = t.get(*i)?;
        *i += 1;
        if tok == "(" {
            let mut v = vec![];
            while t.get(*i)? != ")" { v.push(go(t, i)?); }
            *i += 1;
            Some(Sx::L(v))
        } else if tok == ")" { None } else { Some(Sx::A(tok.clone())) }
    }
    let mut i = 0;
    let r = go(&toks, &mut i)?;
    if i == toks.len() { Some(r) } else { None }
}
fn dec(s: &Sx) -> Option<String> {
    let Sx::A(a) = s else { return None };
    if a == "e" { return Some(String::new()); }
    a.split('.').map(|n| n.parse::<u32>().ok().and_then(char::from_u32)).collect()
}
fn tail<'a>(s: &'a Sx, head: &str) -> Option<&'a [Sx]> {
    let Sx::L(l) = s else { return None };
    match l.first()? { Sx::A(a) if a == head => Some(&l[1..]), _ => None }
}
fn rd_n(s: &Sx) -> Option<N> {
    let Sx::L(l) = s else { return None };
    let Sx::A(h) = l.first()? else { return None };
    Some(match h.as_str() {
        "el" => N::El {
            tag: dec(&l[1])?,
            attrs: tail(&l[2], "A")?.iter().map(|p| { let Sx::L(p) = p else { return None }; Some((dec(&p[0])?, dec(&p[1])?)) }).collect::<Option<_>>()?,
            battrs: tail(&l[3], "B")?.iter().map(|p| { let Sx::L(p) = p else { return None }; Some((dec(&p[0])?, matches!(&p[1], Sx::A(a) if a == "t"))) }).collect::<Option<_>>()?,
            children: tail(&l[4], "C")?.iter().map(rd_n).collect::<Option<_>>()?,
            inner: match &l[5] { Sx::A(_) => None, x => Some(dec(&tail(x, "S")?[0])?) },
            hk: match &l[6] { Sx::A(_) => None, x => { let t = tail(x, "K")?; let g = |s: &Sx| if let Sx::A(a) = s { a.parse().ok() } else { None }; Some((g(&t[0])?, g(&t[1])?)) } },
        },
        "td" => N::TD(dec(&l[1])?),
        "ts" => N::TS(dec(&l[1])?),
        "m" => N::M,
        "dyn" => N::Dyn(l[1..].iter().map(rd_n).collect::<Option<_>>()?),
        _ => return None,
    })
}
fn rd_v(s: &Sx) -> Option<V> {
    let Sx::L(l) = s else { return None };
    let Sx::A(h) = l.first()? else { return None };
    Some(match h.as_str() {
        "el" => V::El {
            tag: dec(&l[1])?,
            attrs: tail(&l[2], "A")?.iter().map(|p| { let Sx::L(p) = p else { return None }; Some((dec(&p[0])?, match &p[1] { Sx::A(_) => None, x => Some(dec(&tail(x, "S")?[0])?) })) }).collect::<Option<_>>()?,
            battrs: tail(&l[3], "B")?.iter().map(|p| { let Sx::L(p) = p else { return None }; Some((dec(&p[0])?, matches!(&p[1], Sx::A(a) if a == "t"))) }).collect::<Option<_>>()?,
            children: tail(&l[4], "C")?.iter().map(rd_v).collect::<Option<_>>()?,
        },
        "text" => V::Text(dec(&l[1])?),
        "dtext" => V::DText(dec(&l[1])?),
        "dview" => V::DView(l[1..].iter().map(rd_v).collect::<Option<_>>()?),
        "frag" => V::Frag(l[1..].iter().map(rd_v).collect::<Option<_>>()?),
        "batch2" => V::Batch2(matches!(&l[1], Sx::A(a) if a == "ab"), tail(&l[2], "X")?.iter().map(rd_v).collect::<Option<_>>()?, tail(&l[3], "Y")?.iter().map(rd_v).collect::<Option<_>>()?),
        _ => return None,
    })
}

// ---------- real objects
fn real_node(n: &N) -> SsrNode {
    match n {
        N::El { tag, attrs, battrs, children, inner, hk } => SsrNode::Element {
            tag: tag.clone().into(),
            attributes: attrs.iter().map(|(a, v)| (a.clone().into(), v.clone().into())).collect(),
            bool_attributes: battrs.iter().map(|(a, v)| (a.clone().into(), *v)).collect(),
            children: children.iter().map(real_node).collect(),
            inner_html: inner.as_ref().map(|s| Box::new(s.clone().into())),
            hk_key: hk.map(|(s, e)| HydrationKey { suspense: s, element: e }),
        },
        N::TD(s) => SsrNode::TextDynamic { text: Arc::new(Mutex::new(s.clone())) },
        N::TS(s) => SsrNode::TextStatic { text: s.clone().into() },
        N::M => SsrNode::Marker,
        N::Dyn(c) => SsrNode::Dynamic { view: Arc::new(Mutex::new(View::from_nodes(c.iter().map(real_node).collect()))) },
    }
}
fn real_view(v: &V) -> View {
    match v {
        V::El { tag, attrs, battrs, children } => {
            // a few real tag functions, everything else through custom_element (same code path)
            macro_rules! finish { ($e:expr) => {{
                let mut e = $e;
                for (a, v) in attrs { e = e.attr(leak(a), v.clone()); }
                for (a, v) in battrs { e = e.bool_attr(leak(a), *v); }
                // JS properties, event handlers and node refs leave no trace in server output
                if (attrs.len() + battrs.len()) % 2 == 1 {
                    e = e.prop("verifProp", sycamore::web::wasm_bindgen::JsValue::NULL)
                        .on(sycamore::web::events::click, |_| {})
                        .r#ref(sycamore::web::create_node_ref());
                }
                if children.is_empty() { e.into() } else { e.children(children.iter().map(real_view).collect::<Vec<View>>()).into() }
            }}; }
            // some components register cleanups that create reactive nodes while their scope is torn down after
            // the render (nodes without a live owner): the next render must not find them (C12 node count)
            if tag == "my-element" || tag == "section" {
                let sc = sycamore_reactive::use_current_scope();
                sycamore_reactive::on_cleanup(move || sc.run_in(|| { let _ = sycamore_reactive::create_signal(0u8); }));
            }
            match tag.as_str() {
                "div" => finish!(div()),
                "p" => finish!(p()),
                "span" => finish!(span()),
                "input" => finish!(input()),
                "br" => finish!(br()),
                "ul" => finish!(ul()),
                "li" => finish!(li()),
                _ => finish!(custom_element(leak(tag))),
            }
        }
        V::Text(s) => s.clone().into(),
        // every other dynamic part reads a flag that a cleanup of the page sets when the render scope is torn down:
        // the string is what the view showed when it was built, not what is left after the teardown
        V::DText(s) => {
            let s = s.clone();
            if s.len() % 2 == 0 {
                let flag = sycamore_reactive::create_signal(false);
                sycamore_reactive::on_cleanup(move || flag.set(true));
                View::from_dynamic(move || if flag.get() { "torn-down".to_string() } else { s.clone() })
            } else if s.len() % 4 == 1 {
                // the text is published by a write made after the dynamic part subscribed (needs a propagated update)
                let cell = sycamore_reactive::create_signal(String::new());
                let v = View::from_dynamic(move || cell.get_clone());
                cell.set(s.clone());
                v
            } else {
                View::from_dynamic(move || s.clone())
            }
        }
        V::DView(c) => {
            let c = c.clone();
            if c.len() % 2 == 1 {
                let flag = sycamore_reactive::create_signal(false);
                sycamore_reactive::on_cleanup(move || flag.set(true));
                View::from_dynamic(move || if flag.get() { View::new() } else { View::from(c.iter().map(real_view).collect::<Vec<View>>()) })
            } else {
                View::from_dynamic(move || View::from(c.iter().map(real_view).collect::<Vec<View>>()))
            }
        }
        V::Frag(c) => View::from(c.iter().map(real_view).collect::<Vec<View>>()),
        V::Batch2(ab, a, b) => {
            let (a, b, ab) = (a.clone(), b.clone(), *ab);
            let (sa, sb) = (sycamore_reactive::create_signal(false), sycamore_reactive::create_signal(false));
            let va = View::from_dynamic(move || if sa.get() { View::from(a.iter().map(real_view).collect::<Vec<View>>()) } else { View::new() });
            let vb = View::from_dynamic(move || if sb.get() { View::from(b.iter().map(real_view).collect::<Vec<View>>()) } else { View::new() });
            sycamore_reactive::batch(move || { if ab { sa.set(true); sb.set(true); } else { sb.set(true); sa.set(true); } });
            View::from((va, vb))
        }
    }
}

// ---------- oracle: independent tokenizer + stack builder, and the tree the view denotes
#[derive(Debug, Clone, PartialEq)]
enum H { El(String, Vec<(String, String)>, Vec<H>), T(String), C(String) }

fn decode_refs(s: &str) -> String {
    let mut out = String::new();
    let mut rest = s;
    while let Some(i) = rest.find('&') {
        out += &rest[..i];
        let r = &rest[i..];
        let mut hit = false;
        for (e, c) in [("&amp;", "&"), ("&lt;", "<"), ("&gt;", ">"), ("&quot;", "\""), ("&#39;", "'"), ("&#x27;", "'"), ("&#x2F;", "/")] {
            if r.starts_with(e) { out += c; rest = &r[e.len()..]; hit = true; break; }
        }
        if !hit { out.push('&'); rest = &r[1..]; }
    }
    out += rest;
    out
}
const VOIDS: &[&str] = &["area", "base", "br", "col", "embed", "hr", "img", "input", "link", "meta", "param", "source", "track", "wbr", "command", "keygen", "menuitem"];

/// returns None when the string is not well-formed markup of the kind SSR emits
fn parse_html(s: &str) -> Option<Vec<H>> {
    let cs: Vec<char> = s.chars().collect();
    let mut i = 0;
    let mut stack: Vec<(String, Vec<(String, String)>, Vec<H>)> = vec![];
    let mut top: Vec<H> = vec![];
    macro_rules! push { ($n:expr) => { match stack.last_mut() { Some(f) => f.2.push($n), None => top.push($n) } } }
    while i < cs.len() {
        if cs[i] == '<' {
            let rest: String = cs[i..].iter().take(4).collect();
            if rest == "<!--" {
                i += 4;
                if i < cs.len() && cs[i] == '>' { i += 1; push!(H::C(String::new())); continue; }
                if i + 1 < cs.len() && cs[i] == '-' && cs[i + 1] == '>' { i += 2; push!(H::C(String::new())); continue; }
                let mut j = i;
                let mut end = None;
                while j + 2 < cs.len() {
                    if cs[j] == '-' && cs[j + 1] == '-' && cs[j + 2] == '>' { end = Some(j); break; }
                    j += 1;
                }
                let end = end?;
                let c: String = cs[i..end].iter().collect();
                i = end + 3;
                push!(H::C(c));
            } else if i + 1 < cs.len() && cs[i + 1] == '/' {
                let mut j = i + 2;
                let mut name = String::new();
                while j < cs.len() && cs[j] != '>' && !cs[j].is_whitespace() { name.push(cs[j]); j += 1; }
                while j < cs.len() && cs[j].is_whitespace() { j += 1; }
                if j >= cs.len() || cs[j] != '>' || name.is_empty() { return None; }
                i = j + 1;
                let (t, a, k) = stack.pop()?;
                if t != name { return None; }
                push!(H::El(t, a, k));
            } else if i + 1 < cs.len() && cs[i + 1].is_ascii_alphabetic() {
                let mut j = i + 1;
                let mut name = String::new();
                while j < cs.len() && !cs[j].is_whitespace() && cs[j] != '>' && cs[j] != '/' { name.push(cs[j]); j += 1; }
                let mut attrs = vec![];
                loop {
                    while j < cs.len() && cs[j].is_whitespace() { j += 1; }
                    if j >= cs.len() { return None; }
                    if cs[j] == '>' { j += 1; break; }
                    if cs[j] == '/' && cs.get(j + 1) == Some(&'>') { j += 2; break; }
                    let mut an = String::new();
                    while j < cs.len() && !cs[j].is_whitespace() && cs[j] != '=' && cs[j] != '>' && cs[j] != '/' { an.push(cs[j]); j += 1; }
                    if an.is_empty() { return None; }
                    while j < cs.len() && cs[j].is_whitespace() { j += 1; }
                    if j < cs.len() && cs[j] == '=' {
                        j += 1;
                        while j < cs.len() && cs[j].is_whitespace() { j += 1; }
                        if j >= cs.len() || cs[j] != '"' { return None; }
                        j += 1;
                        let mut v = String::new();
                        while j < cs.len() && cs[j] != '"' { v.push(cs[j]); j += 1; }
                        if j >= cs.len() { return None; }
                        j += 1;
                        // duplicate attribute names: the first one wins
                        if !attrs.iter().any(|(n, _): &(String, String)| *n == an) { attrs.push((an, decode_refs(&v))); }
                    } else if !attrs.iter().any(|(n, _): &(String, String)| *n == an) {
                        attrs.push((an, String::new()));
                    }
                }
                i = j;
                if VOIDS.contains(&name.as_str()) { push!(H::El(name, attrs, vec![])); } else { stack.push((name, attrs, vec![])); }
            } else {
                // a lone '<' is text
                let mut t = String::from("<");
                i += 1;
                while i < cs.len() && cs[i] != '<' { t.push(cs[i]); i += 1; }
                push!(H::T(decode_refs(&t)));
            }
        } else {
            let mut t = String::new();
            while i < cs.len() && cs[i] != '<' { t.push(cs[i]); i += 1; }
            push!(H::T(decode_refs(&t)));
        }
    }
    if stack.is_empty() { Some(top) } else { None }
}

fn merge_text(v: Vec<H>) -> Vec<H> {
    let mut out: Vec<H> = vec![];
    for n in v {
        match (out.last_mut(), n) {
            (Some(H::T(a)), H::T(b)) => a.push_str(&b),
            (_, n) => out.push(n),
        }
    }
    out
}
fn expect_n(n: &N, out: &mut Vec<H>) {
    match n {
        N::El { tag, attrs, battrs, children, hk, .. } => {
            let mut a: Vec<(String, String)> = attrs.clone();
            a.extend(battrs.iter().filter(|b| b.1).map(|b| (b.0.clone(), String::new())));
            if let Some((s, e)) = hk { a.push(("data-hk".into(), format!("{s}.{e}"))); }
            let mut kids = vec![];
            for c in children { expect_n(c, &mut kids); }
            out.push(H::El(tag.clone(), a, merge_text(kids)));
        }
        N::TD(s) => { out.push(H::C("t".into())); if !s.is_empty() { out.push(H::T(s.clone())); } out.push(H::C(String::new())); }
        N::TS(s) => if !s.is_empty() { out.push(H::T(s.clone())) },
        N::M => out.push(H::C("/".into())),
        N::Dyn(c) => for x in c { expect_n(x, out) },
    }
}
/// reference key assignment: pre-order element counter, suspense scope 0
fn v_to_n(v: &V, k: &mut u32, out: &mut Vec<N>) {
    match v {
        V::El { tag, attrs, battrs, children } => {
            let key = *k;
            *k += 1;
            let mut kids = vec![];
            for c in children { v_to_n(c, k, &mut kids); }
            out.push(N::El { tag: tag.clone(), attrs: attrs.iter().filter_map(|(a, v)| v.clone().map(|v| (a.clone(), v))).collect(), battrs: battrs.clone(), children: kids, inner: None, hk: Some((0, key)) });
        }
        V::Text(s) => out.push(N::TS(s.clone())),
        V::DText(s) => out.push(N::TD(s.clone())),
        V::DView(c) => { out.push(N::M); let mut kids = vec![]; for x in c { v_to_n(x, k, &mut kids); } out.push(N::Dyn(kids)); out.push(N::M); }
        V::Frag(c) => for x in c { v_to_n(x, k, out) },
        V::Batch2(ab, a, b) => {
            let (mut ka, mut kb) = (vec![], vec![]);
            // the dependents of the signal written LAST re-run first when the batch ends
            if !*ab { for x in a { v_to_n(x, k, &mut ka); } for x in b { v_to_n(x, k, &mut kb); } }
            else { for x in b { v_to_n(x, k, &mut kb); } for x in a { v_to_n(x, k, &mut ka); } }
            out.extend([N::M, N::Dyn(ka), N::M, N::M, N::Dyn(kb), N::M]);
        }
    }
}
fn wf_n(n: &N) -> bool {
    fn name_ok(s: &str) -> bool {
        let mut c = s.chars();
        matches!(c.next(), Some(x) if x.is_ascii_alphabetic()) && c.all(|x| x.is_ascii_alphanumeric() || x == ':' || x == '_' || x == '-')
    }
    match n {
        N::El { tag, attrs, battrs, children, inner, hk } => {
            let mut names: Vec<&str> = attrs.iter().map(|a| a.0.as_str()).chain(battrs.iter().map(|a| a.0.as_str())).collect();
            if hk.is_some() { names.push("data-hk"); }
            let mut sorted = names.clone();
            sorted.sort();
            sorted.dedup();
            name_ok(tag) && names.iter().all(|n| name_ok(n)) && sorted.len() == names.len() && inner.is_none()
                && (!VOIDS.contains(&tag.as_str()) || children.is_empty()) && children.iter().all(wf_n)
        }
        N::Dyn(c) => c.iter().all(wf_n),
        _ => true,
    }
}

struct State {
    seen: HashMap<String, String>,
    base_count: Option<usize>,
}

fn judge(nodes: &[N], obs: &str) -> Option<String> {
    if !nodes.iter().all(wf_n) {
        return None; // outside the property's premise (raw inner_html, ill-formed names, duplicate attribute names, void with children)
    }
    let Some(html) = obs.strip_prefix("ok ") else { return Some(format!("[ssr-panic] rendering a well-formed view panicked: {obs}")) };
    let html: String = if html == "e" { String::new() } else { html.split('.').map(|n| char::from_u32(n.parse().unwrap()).unwrap()).collect() };
    let mut want = vec![];
    for n in nodes { expect_n(n, &mut want); }
    let want = merge_text(want);
    match parse_html(&html) {
        None => Some(format!("[ssr-unparsable] output is not well-formed markup: {html:?}")),
        Some(got) => if got == want { None } else { Some(format!("[ssr-unfaithful] output {html:?} parses to {got:?}, the view is {want:?}")) },
    }
}

fn exec(line: &str, st: &mut State) -> (String, Option<String>, bool) {
    let body = line.strip_prefix("ssr ").unwrap();
    let Some(Sx::L(l)) = sx_parse(&format!("({body})")) else { return ("bad-op".into(), None, false) };
    let kind = match &l[0] { Sx::A(a) => a.clone(), _ => return ("bad-op".into(), None, false) };
    let items = tail(&l[1], "L").unwrap();
    let (nodes, rendered, count): (Vec<N>, Result<String, String>, Option<usize>) = if kind == "nodes" {
        let ns: Vec<N> = items.iter().map(|s| rd_n(s).expect("bad node sexp")).collect();
        let ns2 = ns.clone();
        let cnt = std::rc::Rc::new(std::cell::Cell::new(None));
        let c2 = cnt.clone();
        let r = catch(move || render_to_string(move || { c2.set(Some(sycamore_reactive::verif::node_count())); View::from_nodes(ns2.iter().map(real_node).collect()) }));
        (ns, r, cnt.get())
    } else {
        let vs: Vec<V> = items.iter().map(|s| rd_v(s).expect("bad view sexp")).collect();
        let vs2 = vs.clone();
        let cnt = std::rc::Rc::new(std::cell::Cell::new(None));
        let c2 = cnt.clone();
        let r = catch(move || render_to_string(move || { c2.set(Some(sycamore_reactive::verif::node_count())); View::from(vs2.iter().map(real_view).collect::<Vec<View>>()) }));
        let mut k = 0;
        let mut ns = vec![];
        for v in &vs { v_to_n(v, &mut k, &mut ns); }
        (ns, r, cnt.get())
    };
    let obs = match &rendered {
        Ok(s) => format!("ok {}", enc(s)),
        Err(m) => if m.contains("void elements cannot") { "panic=void".into() } else if m.contains("mutually exclusive") { "panic=inner".into() } else { format!("panic=other:{}", m.replace(' ', "_")) },
    };
    let mut verdict = judge(&nodes, &obs);
    // C12: isolation and determinism across the whole history of renders on this thread
    if let Some(c) = count {
        match st.base_count {
            None => st.base_count = Some(c),
            Some(b) if b != c => { verdict.get_or_insert(format!("[ssr-node-count] {c} live reactive nodes at the start of this render, {b} at the start of the first one")); }
            _ => {}
        }
    }
    if let Some(prev) = st.seen.get(line) {
        if *prev != obs { verdict.get_or_insert(format!("[ssr-nondeterministic] the same view rendered differently later on this thread")); }
    } else {
        st.seen.insert(line.to_string(), obs.clone());
    }
    let nt = line.contains("38") || line.contains("60") || line.contains("34") || line.contains("dtext") || line.contains("dview") || line.contains("(td") || line.contains("(dyn");
    (obs, verdict, nt)
}

// ---------- generators
// every void element of ssr_node.rs is in the list (the whole table is a finite quantifier of C08), plus
// look-alikes that are NOT void (tracks, wbrx, basefont, colgroup, inputx)
const TAGS: &[&str] = &["div", "p", "span", "ul", "li", "a", "button", "h1", "section", "svg", "path", "foreignObject", "my-element", "x-y", "br", "img", "input", "hr", "textarea", "table", "td",
    "area", "base", "col", "embed", "link", "meta", "param", "source", "track", "wbr", "command", "keygen", "menuitem", "tracks", "wbrx", "basefont", "colgroup", "inputx",
    // elements whose content browsers read as raw text / RCDATA: sycamore escapes text in them like anywhere else
    "script", "style", "title", "noscript", "xmp"];
const ATTRS: &[&str] = &["class", "id", "href", "data-x", "aria-label", "viewBox", "value", "style", "xlink:href", "title"];
const BATTRS: &[&str] = &["checked", "disabled", "hidden", "open", "selected"];
const PIECES: &[&str] = &["<", ">", "&", "\"", "'", "--", "-->", "<!--", "]]>", "</script", "&amp;", "&#", "&lt;", "<b>", "</div>", "a", "b", " ", "=", "/", "x=\"y\"", "\u{e9}", "\u{1F600}", "\u{0}", "\u{FFFF}", "\u{301}", "\n", "\t", "t", "<!-->", "<!--t-->", "<!--/-->"];

fn gen_str(rng: &mut Rng) -> String {
    let n = rng.below(5);
    (0..n).map(|_| *rng.pick(PIECES)).collect()
}
fn gen_n(rng: &mut Rng, depth: usize, wild: bool) -> N {
    match rng.below(if depth == 0 { 4 } else { 9 }) {
        0 => N::TS(gen_str(rng)),
        1 => N::TD(gen_str(rng)),
        2 => N::M,
        3 => N::TS(gen_str(rng)),
        4 if depth > 0 => N::Dyn((0..rng.below(4)).map(|_| gen_n(rng, depth - 1, wild)).collect()),
        _ => {
            let tag = rng.pick(TAGS).to_string();
            let void = VOIDS.contains(&tag.as_str());
            let mut names: Vec<&str> = vec![];
            let mut attrs = vec![];
            for _ in 0..rng.below(4) {
                let a = *rng.pick(ATTRS);
                if wild || !names.contains(&a) { names.push(a); attrs.push((a.to_string(), gen_str(rng))); }
            }
            let mut battrs = vec![];
            for _ in 0..rng.below(3) {
                let a = *rng.pick(BATTRS);
                if wild || !names.contains(&a) { names.push(a); battrs.push((a.to_string(), rng.chance(1, 2))); }
            }
            let children = if void && !(wild && rng.chance(1, 4)) { vec![] } else { (0..rng.below(4)).map(|_| gen_n(rng, depth.saturating_sub(1), wild)).collect() };
            let inner = if wild && rng.chance(1, 5) { Some(gen_str(rng)) } else { None };
            let hk = if rng.chance(1, 2) { Some((rng.below(3) as u32, rng.below(1000) as u32)) } else { None };
            N::El { tag, attrs, battrs, children, inner, hk }
        }
    }
}
fn gen_v(rng: &mut Rng, depth: usize) -> V {
    match rng.below(if depth == 0 { 3 } else { 9 }) {
        0 => V::Text(gen_str(rng)),
        1 => V::DText(gen_str(rng)),
        2 => V::Text(gen_str(rng)),
        3 => V::DView((0..rng.below(3)).map(|_| gen_v(rng, depth - 1)).collect()),
        4 => V::Frag((0..rng.below(3)).map(|_| gen_v(rng, depth - 1)).collect()),
        _ => {
            let tag = rng.pick(TAGS).to_string();
            let void = VOIDS.contains(&tag.as_str());
            let mut names: Vec<&str> = vec![];
            let mut attrs = vec![];
            for _ in 0..rng.below(4) {
                let a = *rng.pick(ATTRS);
                if !names.contains(&a) { names.push(a); attrs.push((a.to_string(), if rng.chance(1, 5) { None } else { Some(gen_str(rng)) })); }
            }
            let mut battrs = vec![];
            for _ in 0..rng.below(3) {
                let a = *rng.pick(BATTRS);
                if !names.contains(&a) { names.push(a); battrs.push((a.to_string(), rng.chance(1, 2))); }
            }
            let children = if void { vec![] } else { (0..rng.below(4)).map(|_| gen_v(rng, depth - 1)).collect() };
            V::El { tag, attrs, battrs, children }
        }
    }
}

pub fn generate(args: &Args) -> Vec<String> {
    let thorough = args.tier == "thorough";
    let mut rng = Rng::new(args.seed);
    let mut l = vec![];
    // exhaustive: every string of length <= 3 (quick: <= 2) over a 9-character alphabet, as text, as
    // dynamic text and as an attribute value
    let alpha = ['<', '>', '&', '"', '\'', '-', '!', 'a', ';'];
    let maxlen = if thorough { 3 } else { 2 };
    let mut strs = vec![String::new()];
    let mut frontier = vec![String::new()];
    for _ in 0..maxlen {
        let mut next = vec![];
        for s in &frontier { for c in alpha { next.push(format!("{s}{c}")); } }
        strs.extend(next.iter().cloned());
        frontier = next;
    }
    for s in &strs {
        l.push(format!("ssr nodes (L {})", sx_n(&N::El { tag: "p".into(), attrs: vec![("title".into(), s.clone())], battrs: vec![], children: vec![N::TS(s.clone()), N::TD(s.clone()), N::TS(s.clone())], inner: None, hk: None })));
    }
    // boolean attributes by NAME: present when true, absent when false, whatever HTML says about the attribute (the client
    // back ends do the same); through the node constructor and through the builder API
    for name in ["checked", "disabled", "hidden", "open", "selected", "spellcheck", "draggable", "contenteditable", "aria-hidden", "aria-busy", "async", "data-on", "x-flag", "translate", "autocomplete"] {
        for tag in ["div", "input", "textarea"] {
            for v in [true, false] {
                l.push(format!("ssr nodes (L {})", sx_n(&N::El { tag: tag.into(), attrs: vec![("id".into(), "a".into())], battrs: vec![(name.into(), v), ("hidden".into(), !v)], children: vec![], inner: None, hk: None })));
                l.push(format!("ssr view (L {})", sx_v(&V::El { tag: tag.into(), attrs: vec![("title".into(), Some("t".into()))], battrs: vec![(name.into(), v)], children: vec![] })));
            }
        }
    }
    // a batch while the view is built that makes two regions create their elements: keys in the order of the writes, the
    // same on a fresh and on a recycled root
    {
        let e = |t: &str, c: Vec<V>| V::El { tag: t.into(), attrs: vec![], battrs: vec![], children: c };
        let parts: Vec<Vec<V>> = vec![vec![e("p", vec![])], vec![e("b", vec![e("i", vec![])]), e("u", vec![])], vec![V::Text("t".into()), e("span", vec![V::DText("d".into())])], vec![]];
        for a in &parts { for b in &parts { for ab in [true, false] {
            let v = V::Batch2(ab, a.clone(), b.clone());
            l.push(format!("ssr view (L {})", sx_v(&v)));
            l.push(format!("ssr view (L {} {})", sx_v(&e("div", vec![e("h1", vec![]), v.clone(), e("hr", vec![])])), sx_v(&e("footer", vec![]))));
            l.push(format!("ssr view (L {})", sx_v(&V::DView(vec![e("div", vec![]), V::Batch2(!ab, b.clone(), a.clone()), v.clone()]))));
        } } }
    }
    let n = if thorough { 400_000 } else { 12_000 };
    for i in 0..n {
        match i % 4 {
            0 | 1 => { let k = 1 + rng.below(3); let ns: Vec<N> = (0..k).map(|_| gen_n(&mut rng, 3, false)).collect(); l.push(format!("ssr nodes (L{})", ns.iter().map(|n| format!(" {}", sx_n(n))).collect::<String>())); }
            2 => { let k = 1 + rng.below(3); let vs: Vec<V> = (0..k).map(|_| gen_v(&mut rng, 3)).collect(); l.push(format!("ssr view (L{})", vs.iter().map(|v| format!(" {}", sx_v(v))).collect::<String>())); }
            // malformed stream: duplicate attribute names, void elements with children, inner_html
            _ => { let ns = vec![gen_n(&mut rng, 2, true)]; l.push(format!("ssr nodes (L {})", sx_n(&ns[0]))); }
        }
        // C12: re-render an earlier view later in the history
        if i % 7 == 6 { let j = rng.below(l.len()); l.push(l[j].clone()); }
    }
    l
}

pub fn run(args: &Args) {
    let mut sink = Sink::new(&args.out, "ssr");
    let (mut lines, only) = crate::corpus_lines(args);
    sink.note("corpus_cases", lines.len());
    if !only { lines.extend(generate(args)); }
    let mut st = State { seen: HashMap::new(), base_count: None };
    for (i, l) in lines.iter().enumerate() {
        // C12 "regardless of what was rendered before on the thread": now and then a render that dies inside a batch
        // (the panic is caught, as a server does per request) comes before the render under test
        if i % 41 == 7 {
            let _ = catch(|| render_to_string(|| { sycamore_reactive::batch(|| panic!("verif: a render that panics inside a batch")); View::new() }));
            sink.count("preceded-by-panic-in-batch");
        }
        let (obs, verdict, nt) = exec(l, &mut st);
        sink.count(&format!("op:{}", l.split(' ').nth(1).unwrap_or("?")));
        sink.count(if obs.starts_with("ok") { "result:ok" } else { "result:panic" });
        sink.case(l, &obs, verdict, nt);
    }
    sink.note("renders_on_one_thread", lines.len());
    sink.note("node_count_at_start_of_each_render", st.base_count.map(|c| c.to_string()).unwrap_or_default());
    sink.finish();
}
