//! E2 "listmap" (C07): the real map_keyed / map_indexed with an instrumented map_fn.
use crate::util::*;
use std::cell::RefCell;
use std::collections::{BTreeMap, BTreeSet};
use std::rc::Rc;
use sycamore_reactive::*;

type Item = (u32, u32); // (key, payload)

fn parse_lists(s: &str) -> Vec<Vec<Item>> {
    s.split(';')
        .map(|l| {
            if l == "-" || l.is_empty() {
                vec![]
            } else {
                l.split(',').map(|t| { let (k, p) = t.split_once('.').unwrap(); (k.parse().unwrap(), p.parse().unwrap()) }).collect()
            }
        })
        .collect()
}
fn show_lists(ls: &[Vec<Item>]) -> String {
    ls.iter()
        .map(|l| if l.is_empty() { "-".to_string() } else { l.iter().map(|(k, p)| format!("{k}.{p}")).collect::<Vec<_>>().join(",") })
        .collect::<Vec<_>>()
        .join(";")
}

thread_local! { static ROOT: RefCell<Option<RootHandle>> = const { RefCell::new(None) }; }
fn fresh_root() -> RootHandle {
    ROOT.with(|r| {
        let mut r = r.borrow_mut();
        if let Some(h) = *r {
            if catch(|| h.dispose()).is_ok() {
                return h;
            }
        }
        let h = create_root(|| {});
        *r = Some(h);
        h
    })
}

/// a key whose `Hash` is coarser than its `Eq` (the `Hash` contract allows that): only the parity is hashed, so different
/// keys collide all the time and it is `Eq` that tells them apart
#[derive(Clone, Copy, PartialEq, Eq, Debug)]
pub struct CoarseKey(pub u32);
impl std::hash::Hash for CoarseKey {
    fn hash<H: std::hash::Hasher>(&self, state: &mut H) { state.write_u32(self.0 % 2) }
}

/// run one chain of updates; returns (observation, verdict)
pub fn run_case(keyed: bool, lists: &[Vec<Item>]) -> (String, Option<String>) { run_case_k(keyed, false, lists) }
pub fn run_case_k(keyed: bool, coarse: bool, lists: &[Vec<Item>]) -> (String, Option<String>) {
    let root = fresh_root();
    let mut out = vec![];
    let mut verdict: Option<String> = None;
    root.run_in(|| {
        let log: Rc<RefCell<Vec<String>>> = Default::default();
        let calls: Rc<RefCell<Vec<Item>>> = Default::default(); // call id -> item
        let disposed: Rc<RefCell<Vec<u32>>> = Default::default(); // per call id: times its scope was disposed
        let sig = create_signal(lists[0].clone());
        let (l2, c2, d2) = (log.clone(), calls.clone(), disposed.clone());
        let map_fn = move |it: Item| -> usize {
            let id = c2.borrow().len();
            c2.borrow_mut().push(it);
            d2.borrow_mut().push(0);
            l2.borrow_mut().push(format!("c{id}:{}.{}", it.0, it.1));
            let (l3, d3) = (l2.clone(), d2.clone());
            on_cleanup(move || {
                d3.borrow_mut()[id] += 1;
                l3.borrow_mut().push(format!("d{id}"));
            });
            id
        };
        let r = catch(|| if keyed && coarse { map_keyed(sig, map_fn, |it: &Item| CoarseKey(it.0)) } else if keyed { map_keyed(sig, map_fn, |it: &Item| it.0) } else { map_indexed(sig, map_fn) });
        let mapped = match r {
            Ok(m) => m,
            Err(m) => {
                out.push(format!("panic={}", if m.contains("unwrap") { "unwrap" } else { "index" }));
                verdict = Some(format!("[listmap-panic] creation panicked: {m}"));
                return;
            }
        };
        // harness bookkeeping for the oracle: which call currently serves each key / position
        let mut serving: BTreeMap<u32, usize> = BTreeMap::new(); // keyed: key -> call id
        let mut prev_out: Vec<usize> = vec![];
        let mut prev_list: Vec<Item> = vec![];
        for (step, new) in lists.iter().enumerate() {
            if step > 0 {
                log.borrow_mut().clear();
            }
            let calls_before = if step > 0 { calls.borrow().len() } else { 0 };
            if step > 0 {
                let new2 = new.clone();
                if let Err(m) = catch(|| sig.set(new2)) {
                    out.push(format!("panic={}", if m.contains("unwrap") { "unwrap" } else if m.contains("end and new_end") { "assert" } else { "index" }));
                    // the property is about lists with unique keys
                    let uniq = lists[..=step].iter().all(|l| l.iter().map(|i| i.0).collect::<BTreeSet<_>>().len() == l.len());
                    if uniq {
                        verdict.get_or_insert(format!("[listmap-panic] update {step} panicked: {m}"));
                    }
                    return;
                }
            }
            let o = mapped.get_clone_untracked();
            out.push(format!("[{}] {{{}}}", o.iter().map(|x| x.to_string()).collect::<Vec<_>>().join(","), log.borrow().join(" ")));
            if verdict.is_some() {
                continue;
            }
            // ---- oracle (direct from the statement)
            if o.len() != new.len() {
                verdict = Some(format!("[listmap-length] update {step}: {} outputs for {} inputs", o.len(), new.len()));
                continue;
            }
            let dis = disposed.borrow().clone();
            let calls_now = calls.borrow().clone();
            let unique = |l: &[Item]| l.iter().map(|i| i.0).collect::<BTreeSet<_>>().len() == l.len();
            if keyed {
                if !unique(new) || !unique(&prev_list) {
                    // the property speaks about unique keys only; resynchronise the bookkeeping
                    serving.clear();
                    for (j, it) in new.iter().enumerate() { serving.insert(it.0, o[j]); }
                } else {
                    let mut expected_new = vec![];
                    for (j, it) in new.iter().enumerate() {
                        match serving.get(&it.0) {
                            Some(call) => {
                                if o[j] != *call {
                                    verdict = Some(format!("[listmap-reuse] update {step}: key {} stayed in the list but position {j} holds the result of call {} instead of call {call}", it.0, o[j]));
                                }
                            }
                            None => {
                                if o[j] < calls_before || calls_now[o[j]].0 != it.0 {
                                    verdict = Some(format!("[listmap-create] update {step}: key {} entered the list but position {j} holds call {} (not a fresh call for that key)", it.0, o[j]));
                                }
                                expected_new.push(o[j]);
                            }
                        }
                    }
                    let fresh: Vec<usize> = (calls_before..calls_now.len()).collect();
                    if verdict.is_none() && fresh != expected_new {
                        verdict = Some(format!("[listmap-calls] update {step}: map_fn calls {fresh:?} but entering keys are served by {expected_new:?} (one call per entering key, ascending)"));
                    }
                    // disposal: scopes of keys that left, exactly once; nobody else
                    let newkeys: BTreeSet<u32> = new.iter().map(|i| i.0).collect();
                    for (k, call) in serving.clone() {
                        if !newkeys.contains(&k) {
                            if dis[call] != 1 { verdict.get_or_insert(format!("[listmap-dispose] update {step}: key {k} left the list, its scope (call {call}) was disposed {} times", dis[call])); }
                            serving.remove(&k);
                        } else if dis[call] != 0 {
                            verdict.get_or_insert(format!("[listmap-dispose] update {step}: key {k} is still in the list but its scope (call {call}) was disposed"));
                        }
                    }
                    for (j, it) in new.iter().enumerate() { serving.insert(it.0, o[j]); }
                }
            } else {
                // indexed: recompute exactly the positions whose value changed or appeared; dispose exactly replaced/truncated
                for j in 0..new.len() {
                    let same = j < prev_list.len() && prev_list[j] == new[j];
                    if same && o[j] != prev_out[j] {
                        verdict.get_or_insert(format!("[listmap-reuse] update {step}: position {j} unchanged but recomputed"));
                    }
                    if !same && (o[j] < calls_before || calls_now[o[j]] != new[j]) {
                        verdict.get_or_insert(format!("[listmap-create] update {step}: position {j} changed/appeared but was not recomputed"));
                    }
                }
                for (j, call) in prev_out.iter().enumerate() {
                    let kept = j < new.len() && prev_list[j] == new[j];
                    let want = if kept { 0 } else { 1 };
                    if dis[*call] != want {
                        verdict.get_or_insert(format!("[listmap-dispose] update {step}: scope of old position {j} (call {call}) disposed {} times, expected {want}", dis[*call]));
                    }
                }
            }
            for (id, n) in dis.iter().enumerate() {
                if *n > 1 { verdict.get_or_insert(format!("[listmap-dispose] update {step}: scope of call {id} disposed {n} times")); }
            }
            prev_out = o;
            prev_list = new.clone();
        }
    });
    (out.join(" | "), verdict)
}

pub fn exec(line: &str) -> (String, Option<String>, bool) {
    let t: Vec<&str> = line.split(' ').collect();
    let lists = parse_lists(t[2]);
    // `keyedc`: the same with keys whose hashes collide (see `CoarseKey`)
    let (o, v) = run_case_k(t[1] == "keyed" || t[1] == "keyedc", t[1] == "keyedc", &lists);
    let nt = lists.len() > 1 && lists.windows(2).any(|w| !w[0].is_empty() && !w[1].is_empty() && w[0] != w[1]);
    (o, v, nt)
}

fn all_unique_lists(keys: &[u32], max: usize) -> Vec<Vec<u32>> {
    let mut out = vec![vec![]];
    let mut frontier: Vec<Vec<u32>> = vec![vec![]];
    for _ in 0..max {
        let mut next = vec![];
        for l in &frontier {
            for k in keys {
                if !l.contains(k) {
                    let mut m = l.clone();
                    m.push(*k);
                    next.push(m);
                }
            }
        }
        out.extend(next.iter().cloned());
        frontier = next;
    }
    out
}

pub fn generate(args: &Args) -> Vec<String> {
    let thorough = args.tier == "thorough";
    let mut rng = Rng::new(args.seed);
    let mut l = vec![];
    // (1) exhaustive: all ordered pairs of duplicate-free key lists (as chains old -> new), payload 0,
    //     plus a variant with changed payloads on the new side
    let nk = if thorough { 5 } else { 4 };
    let keys: Vec<u32> = (1..=nk).collect();
    let lists = all_unique_lists(&keys, nk as usize);
    for a in &lists {
        for b in &lists {
            let la: Vec<Item> = a.iter().map(|k| (*k, 0)).collect();
            let lb: Vec<Item> = b.iter().map(|k| (*k, 0)).collect();
            l.push(format!("listmap keyed {}", show_lists(&[la.clone(), lb.clone()])));
            l.push(format!("listmap keyedc {}", show_lists(&[la.clone(), lb.clone()])));
            l.push(format!("listmap indexed {}", show_lists(&[la.clone(), lb.clone()])));
            if !b.is_empty() {
                // value change under a retained key: payload = position parity
                let lb2: Vec<Item> = b.iter().enumerate().map(|(i, k)| (*k, (i % 2) as u32 + 1)).collect();
                l.push(format!("listmap keyed {}", show_lists(&[la.clone(), lb2])));
            }
        }
    }
    // (2) all chains of 3 updates over 3 keys (thorough: 4 keys)
    let k3: Vec<u32> = (1..=(if thorough { 4 } else { 3 })).collect();
    let small = all_unique_lists(&k3, k3.len());
    for a in &small {
        for b in &small {
            for c in &small {
                let f = |x: &Vec<u32>| x.iter().map(|k| (*k, 0)).collect::<Vec<Item>>();
                l.push(format!("listmap keyed {}", show_lists(&[f(a), f(b), f(c)])));
            }
        }
    }
    // (3) random chains of 4-10 updates incl. empty lists, payload changes, and (indexed / separate stream) duplicates
    let n = if thorough { 200_000 } else { 20_000 };
    for i in 0..n {
        let len = 4 + rng.below(7);
        let dup = i % 5 == 4;
        let chain: Vec<Vec<Item>> = (0..len)
            .map(|_| {
                let m = rng.below(7);
                let mut v: Vec<Item> = vec![];
                for _ in 0..m {
                    let k = 1 + rng.below(6) as u32;
                    if dup || !v.iter().any(|x| x.0 == k) {
                        v.push((k, rng.below(2) as u32));
                    }
                }
                v
            })
            .collect();
        l.push(format!("listmap {} {}", if i % 3 == 2 { "indexed" } else if i % 6 == 1 && !dup { "keyedc" } else { "keyed" }, show_lists(&chain)));
    }
    // (4) LONG lists: an update whose changed window (what is left after the common prefix and suffix) has every length
    //     2..=16 (thorough: ..=24), with 0-3 unchanged items before and after; inside the window: reversed, rotated by one
    //     and by half, ends swapped, shuffled (first and last moved, so the window is exact), half of the keys replaced;
    //     then back to the first list (a chain of three)
    let maxw = if thorough { 24 } else { 16 };
    for w in 2..=maxw {
        for (pre, suf) in [(0usize, 0usize), (1, 0), (0, 2), (3, 1)] {
            let base: Vec<u32> = (1..=(pre + w + suf) as u32).collect();
            let win = |f: &dyn Fn(&mut Vec<u32>)| -> Vec<u32> {
                let mut mid: Vec<u32> = base[pre..pre + w].to_vec();
                f(&mut mid);
                let mut v = base[..pre].to_vec(); v.extend(mid); v.extend(&base[pre + w..]); v
            };
            let mut variants: Vec<Vec<u32>> = vec![
                win(&|m| m.reverse()),
                win(&|m| m.rotate_left(1)),
                win(&|m| m.rotate_right(1)),
                win(&|m| { let h = m.len() / 2; m.rotate_left(h.max(1)) }),
                win(&|m| { let n = m.len(); m.swap(0, n - 1) }),
                win(&|m| { let n = m.len(); for i in (0..n).step_by(2) { m[i] += 100; } m.swap(0, n - 1) }),
            ];
            for _ in 0..(if thorough { 4 } else { 1 }) {
                let mut sh = base[pre..pre + w].to_vec();
                for i in (1..sh.len()).rev() { let j = rng.below(i + 1); sh.swap(i, j); }
                if sh[0] == base[pre] { sh.rotate_left(1); }
                if sh[w - 1] == base[pre + w - 1] { sh.swap(0, w - 1); }
                let mut v = base[..pre].to_vec(); v.extend(sh); v.extend(&base[pre + w..]);
                variants.push(v);
            }
            let f = |x: &Vec<u32>, pay: u32| x.iter().map(|k| (*k, pay)).collect::<Vec<Item>>();
            for v in &variants {
                l.push(format!("listmap keyed {}", show_lists(&[f(&base, 0), f(v, 0), f(&base, 0)])));
                l.push(format!("listmap keyedc {}", show_lists(&[f(&base, 0), f(v, 1), f(&base, 0)])));
                if pre == 0 && suf == 0 { l.push(format!("listmap indexed {}", show_lists(&[f(&base, 0), f(v, 0), f(&base, 1)]))); }
            }
        }
    }
    l
}

pub fn run(args: &Args) {
    let mut sink = Sink::new(&args.out, "listmap");
    let (mut lines, only) = crate::corpus_lines(args);
    sink.note("corpus_cases", lines.len());
    if !only {
        lines.extend(generate(args));
    }
    for l in &lines {
        let (obs, verdict, nt) = exec(l);
        sink.count(&format!("op:{}", l.split(' ').nth(1).unwrap_or("?")));
        sink.count(&format!("updates:{}", l.matches(';').count() + 1));
        sink.case(l, &obs, verdict, nt);
    }
    sink.finish();
}
