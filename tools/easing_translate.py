#!/usr/bin/env python3
"""Translate packages/sycamore/src/easing.rs into Lean definitions over the abstract operations of
`SycVerif.Model.EasingOps` (one generic def per `pub fn name(t: f32) -> f32`).

Accepted grammar (anything else => exit 1, nothing is guessed):
  file   ::= (inner attribute | `use …;` | `const NAME: f32 = <literal>;` | fn)*  [`#[cfg(test)] mod … { … }` ends the file]
  fn     ::= `pub fn NAME(t: f32) -> f32 { block }`
  block  ::= (`let IDENT = expr;`)* expr
  expr   ::= `if` cond `{` block `}` `else` (`if` … | `{` block `}`) | arith
  cond   ::= arith (`<` | `<=` | `>` | `>=`) arith
  arith  ::= + - * / unary-minus, parentheses, float literals, identifiers (t, let-bound, consts, PI),
             `f32::EPSILON`, calls NAME(expr) of other easing functions,
             `f32::{sqrt,sin,cos,abs}(e)`, `f32::powf(a,b)`, `f32::powi(e, <int literal>)`,
             postfix methods `.sqrt() .sin() .cos() .abs() .powf(e) .powi(<int literal>)`
Usage: easing_translate.py <easing.rs> <out.lean>
"""
import re, sys


class Err(Exception):
    pass


TOK = re.compile(r"\s*(?:(//[^\n]*)|(\d+\.\d+|\d+)|([A-Za-z_][A-Za-z0-9_]*)|(::|<=|>=|->|#!|[-+*/(){}<>=;:,.#!\[\]]))")


def tokenize(src):
    toks, i = [], 0
    src = re.sub(r"/\*.*?\*/", " ", src, flags=re.S)
    while i < len(src):
        if src[i:].strip() == "":
            break
        m = TOK.match(src, i)
        if not m:
            raise Err("cannot tokenise at: %r" % src[i:i + 30])
        i = m.end()
        if m.group(1):
            continue
        toks.append(m.group(2) or m.group(3) or m.group(4))
    return toks


class P:
    def __init__(self, toks):
        self.t, self.i = toks, 0
        self.consts, self.fns = {}, []

    def peek(self, k=0):
        return self.t[self.i + k] if self.i + k < len(self.t) else None

    def eat(self, x=None):
        tok = self.peek()
        if tok is None or (x is not None and tok != x):
            raise Err("expected %r, found %r (token %d)" % (x, tok, self.i))
        self.i += 1
        return tok

    def file(self):
        while self.peek() is not None:
            tok = self.peek()
            if tok == "#!":  # inner attribute
                self.eat(); self.skip_brackets()
            elif tok == "#":
                # `#[cfg(test)] mod tests { … }` ends the translated part; any other attribute is refused
                self.eat(); attr = self.skip_brackets()
                if attr == ["cfg", "(", "test", ")"] and self.peek() == "mod":
                    return
                raise Err("unsupported attribute %r" % attr)
            elif tok == "use":
                while self.eat() != ";":
                    pass
            elif tok == "const":
                self.eat(); name = self.eat(); self.eat(":"); self.eat("f32"); self.eat("=")
                lit = self.eat()
                if not re.fullmatch(r"\d+\.\d+|\d+", lit):
                    raise Err("const %s: only literals" % name)
                self.eat(";")
                self.consts[name] = ("lit", lit)
            elif tok == "pub":
                self.eat(); self.eat("fn"); name = self.eat(); self.eat("("); self.eat("t"); self.eat(":")
                self.eat("f32"); self.eat(")"); self.eat("->"); self.eat("f32"); self.eat("{")
                body = self.block({"t"})
                self.eat("}")
                self.fns.append((name, body))
            else:
                raise Err("unexpected top-level token %r" % tok)

    def skip_brackets(self):
        self.eat("["); depth, inner = 1, []
        while depth:
            tok = self.eat()
            if tok == "[": depth += 1
            elif tok == "]": depth -= 1
            if depth: inner.append(tok)
        return inner

    def block(self, scope):
        scope = set(scope); lets = []
        while self.peek() == "let":
            self.eat(); name = self.eat(); self.eat("="); e = self.expr(scope); self.eat(";")
            lets.append((name, e)); scope.add(name)
        e = self.expr(scope)
        for name, v in reversed(lets):
            e = ("let", name, v, e)
        return e

    def expr(self, scope):
        if self.peek() == "if":
            self.eat()
            c = self.cond(scope); self.eat("{"); a = self.block(scope); self.eat("}"); self.eat("else")
            if self.peek() == "if":
                b = self.expr(scope)
            else:
                self.eat("{"); b = self.block(scope); self.eat("}")
            return ("if", c, a, b)
        return self.arith(scope)

    def cond(self, scope):
        a = self.arith(scope)
        op = self.eat()
        if op not in ("<", "<=", ">", ">="):
            raise Err("unsupported comparison %r" % op)
        b = self.arith(scope)
        return {"<": ("lt", a, b), "<=": ("le", a, b), ">": ("lt", b, a), ">=": ("le", b, a)}[op]

    def arith(self, scope):
        e = self.term(scope)
        while self.peek() in ("+", "-"):
            op = self.eat(); r = self.term(scope)
            e = ("add" if op == "+" else "sub", e, r)
        return e

    def term(self, scope):
        e = self.unary(scope)
        while self.peek() in ("*", "/"):
            op = self.eat(); r = self.unary(scope)
            e = ("mul" if op == "*" else "div", e, r)
        return e

    def unary(self, scope):
        if self.peek() == "-":
            self.eat()
            return ("neg", self.unary(scope))   # Rust: unary minus binds tighter than * and method calls bind tighter than unary minus
        return self.postfix(scope)

    def int_lit(self):
        n = self.eat()
        if not re.fullmatch(r"\d+", n):
            raise Err("powi exponent must be an integer literal, found %r" % n)
        return int(n)

    def postfix(self, scope):
        e = self.atom(scope)
        while self.peek() == ".":
            self.eat(); m = self.eat(); self.eat("(")
            if m in ("sqrt", "sin", "cos", "abs"):
                self.eat(")"); e = (m, e)
            elif m == "powf":
                a = self.expr(scope); self.eat(")"); e = ("powf", e, a)
            elif m == "powi":
                n = self.int_lit(); self.eat(")"); e = ("powi", e, n)
            else:
                raise Err("unsupported method .%s()" % m)
        return e

    def atom(self, scope):
        tok = self.eat()
        if tok == "(":
            e = self.expr(scope); self.eat(")"); return e
        if re.fullmatch(r"\d+\.\d+", tok):
            return ("lit", tok)
        if re.fullmatch(r"\d+", tok):
            raise Err("integer literal %s in float position" % tok)
        if tok == "f32":
            self.eat("::"); name = self.eat()
            if name == "EPSILON":
                return ("eps",)
            self.eat("(")
            if name in ("sqrt", "sin", "cos", "abs"):
                a = self.expr(scope); self.eat(")"); return (name, a)
            if name == "powf":
                a = self.expr(scope); self.eat(","); b = self.expr(scope); self.eat(")"); return ("powf", a, b)
            if name == "powi":
                a = self.expr(scope); self.eat(","); n = self.int_lit(); self.eat(")"); return ("powi", a, n)
            raise Err("unsupported f32::%s" % name)
        if re.fullmatch(r"[A-Za-z_][A-Za-z0-9_]*", tok):
            if self.peek() == "(":
                self.eat(); a = self.expr(scope); self.eat(")")
                return ("call", tok, a)
            if tok in scope:
                return ("var", tok)
            if tok == "PI":
                return ("pi",)
            if tok in self.consts:
                return self.consts[tok]
            raise Err("unknown identifier %r" % tok)
        raise Err("unexpected token %r" % tok)


def lit(s):
    if "." in s:
        a, b = s.split(".")
        return "(lit %d %d)" % (int(a + b), len(b))
    return "(lit %d 0)" % int(s)


def emit(e, known):
    k = e[0]
    if k == "lit": return lit(e[1])
    if k == "var": return e[1]
    if k == "pi": return "pi"
    if k == "eps": return "eps"
    if k in ("add", "sub", "mul", "div", "powf"):
        return "(%s %s %s)" % (k, emit(e[1], known), emit(e[2], known))
    if k in ("neg", "sqrt", "sin", "cos", "abs"):
        return "(%s %s)" % (k, emit(e[1], known))
    if k == "powi":
        n = e[2]
        if n < 1 or n > 8:
            raise Err("powi exponent %d outside 1..8" % n)
        x = emit(e[1], known)
        # x.powi(n) as n-1 multiplications, left to right (exact for n = 2, which is all easing.rs uses)
        out = "p"
        for _ in range(n - 1):
            out = "(mul %s p)" % out
        return "(let p := %s; %s)" % (x, out)
    if k == "call":
        if e[1] not in known:
            raise Err("call of %s before its definition or unknown" % e[1])
        return "(%s %s)" % (e[1], emit(e[2], known))
    if k == "let":
        return "(let %s := %s; %s)" % (e[1], emit(e[2], known), emit(e[3], known))
    if k == "if":
        c = e[1]
        return "(if %s %s %s then %s else %s)" % (c[0], emit(c[1], known), emit(c[2], known), emit(e[2], known), emit(e[3], known))
    raise Err("internal: %r" % (e,))


def calls(e, acc):
    if isinstance(e, tuple):
        if e[0] == "call": acc.add(e[1])
        for x in e[1:]: calls(x, acc)
    return acc


def main():
    src = open(sys.argv[1]).read()
    # the unit-test module at the end of the file is not translated
    m = re.search(r"#\[cfg\(test\)\]\s*mod\s+\w+\s*\{", src)
    if m:
        src = src[:m.start()]
    p = P(tokenize(src)); p.file()
    # order by dependency (a function may call one defined later in the file)
    fns, done, out_order = dict(p.fns), set(), []
    pending = [n for n, _ in p.fns]
    while pending:
        progressed = False
        for n in list(pending):
            if calls(fns[n], set()) - {n} <= done:
                out_order.append(n); done.add(n); pending.remove(n); progressed = True
        if not progressed:
            raise Err("cyclic calls among %s" % pending)
    lines = ["/- GENERATED by tools/easing_translate.py from packages/sycamore/src/easing.rs — do not edit. -/",
             "import SycVerif.Model.EasingOps", "namespace SycVerif.Easing", "open EasingOps", "",
             "variable {α : Type} [EasingOps α]", ""]
    known = set()
    for n in out_order:
        lines.append("def %s (t : α) : α :=\n  %s\n" % (n, emit(fns[n], known)))
        known.add(n)
    lines.append("/-- every translated function, in source order -/")
    lines.append("def table : List (String × (α → α)) :=\n  [%s]\n" % ", ".join('("%s", %s)' % (n, n) for n, _ in p.fns))
    lines.append("end SycVerif.Easing")
    open(sys.argv[2], "w").write("\n".join(lines) + "\n")
    print("translated %d functions: %s" % (len(p.fns), " ".join(n for n, _ in p.fns)))


if __name__ == "__main__":
    try:
        main()
    except Err as e:
        print("easing_translate: REFUSED: %s" % e)
        sys.exit(1)
