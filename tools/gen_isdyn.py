#!/usr/bin/env python3
"""Authoring aid: writes the Lean model of is_dyn (Model/IsDyn.lean), the independent spec
containsEval (Spec/IsDyn.lean), the proofs (Props/C18.lean) and the S-expression reader
(Driver/IsDynRead.lean) from one table of syn constructors. The generated files are committed and
are the hand-written model of packages/sycamore-view-parser/src/codegen.rs; this script is not run
by the checks."""
import os
ROOT = os.path.join(os.path.dirname(os.path.dirname(os.path.abspath(__file__))), "lean", "SycVerif")

# field kinds: E expr, L expr list, O optional expr, B block (stmt list), P pattern, PL pattern list,
#              PO optional pattern, A arm list, I local init, b Bool
# cls (classifier):  'F' -> false, 'T' -> true, 'R' -> or over the listed field indices (None = all non-Bool),
#                    or a literal Lean expression using field names f0,f1,..
# spec:              'F' false, 'T' true, 'R' or over all non-Bool fields, or literal expression
EXPR = [
 ("lit", "", "F", "F", "Expr::Lit"), ("path", "", "F", "F", "Expr::Path"),
 ("closure", "E", "F", "F", "Expr::Closure (body is opaque)"),
 ("field", "E", "R", "R", "Expr::Field"), ("paren", "E", "R", "R", "Expr::Paren"), ("group", "E", "R", "R", "Expr::Group"),
 ("tuple", "L", "R", "R", "Expr::Tuple"), ("array", "L", "R", "R", "Expr::Array"),
 ("repeat", "EE", "R", "R", "Expr::Repeat (expr, len)"),
 ("struct", "LO", "R", "R", "Expr::Struct (field values, rest)"),
 ("cast", "E", "R", "R", "Expr::Cast"),
 ("macro", "b", "!f0", "!f0", "Expr::Macro (f0 = path is the bare ident `view`)"),
 ("block", "B", "R", "R", "Expr::Block"), ("const", "B", "F", "F", "Expr::Const (compile-time, opaque)"),
 ("loop", "B", "R", "R", "Expr::Loop"), ("while", "EB", "R", "R", "Expr::While"),
 ("forLoop", "PEB", "R", "R", "Expr::ForLoop"),
 ("break", "O", "R", "R", "Expr::Break (value)"), ("continue", "", "F", "F", "Expr::Continue"),
 ("let", "PE", "R", "R", "Expr::Let"), ("match", "EA", "R", "R", "Expr::Match"),
 ("if", "EBO", "R", "R", "Expr::If"),
 ("unary", "E", "R", "R", "Expr::Unary"), ("binary", "EE", "R", "R", "Expr::Binary"),
 ("index", "EE", "R", "R", "Expr::Index"), ("range", "OO", "R", "R", "Expr::Range"),
 # not recognised by the classifier: `_ => true`
 ("call", "EL", "T", "T", "Expr::Call"), ("methodCall", "EL", "T", "T", "Expr::MethodCall"),
 ("await", "E", "T", "T", "Expr::Await"), ("try", "E", "T", "T", "Expr::Try"), ("assign", "EE", "T", "T", "Expr::Assign"),
 ("reference", "E", "T", "R", "Expr::Reference"), ("rawAddr", "E", "T", "R", "Expr::RawAddr"),
 ("return", "O", "T", "R", "Expr::Return"), ("yield", "O", "T", "R", "Expr::Yield"),
 ("async", "B", "T", "R", "Expr::Async"), ("unsafe", "B", "T", "R", "Expr::Unsafe"), ("tryBlock", "B", "T", "R", "Expr::TryBlock"),
 ("infer", "", "T", "F", "Expr::Infer"), ("verbatim", "", "T", "F", "Expr::Verbatim / future variants"),
]
PAT = [
 ("wild", "", "F", "F", "Pat::Wild"), ("lit", "", "F", "F", "Pat::Lit"), ("path", "", "F", "F", "Pat::Path"),
 ("rest", "", "F", "F", "Pat::Rest"), ("const", "B", "F", "F", "Pat::Const (compile-time, opaque)"),
 ("type", "P", "R", "R", "Pat::Type (inner pattern)"),
 ("paren", "P", "R", "R", "Pat::Paren"), ("or", "PL", "R", "R", "Pat::Or"), ("tuple", "PL", "R", "R", "Pat::Tuple"),
 ("tupleStruct", "PL", "R", "R", "Pat::TupleStruct"), ("slice", "PL", "R", "R", "Pat::Slice"),
 ("struct", "PL", "R", "R", "Pat::Struct (field patterns)"),
 ("range", "OO", "R", "R", "Pat::Range"),
 ("reference", "bP", "f0 || patDyn f1", "R", "Pat::Reference (f0 = `mut`)"),
 ("ident", "bbPO", "(f0 && f1) || patOptDyn f2", "R", "Pat::Ident (f0 = `ref`, f1 = `mut`, subpattern)"),
 ("macro", "b", "T", "!f0", "Pat::Macro (`_ => true`)"), ("verbatim", "", "T", "F", "Pat::Verbatim / future variants"),
]
STMT = [
 ("expr", "E", "R", "R", "Stmt::Expr"), ("macro", "b", "!f0", "!f0", "Stmt::Macro"),
 ("local", "PI", "R", "R", "Stmt::Local"), ("item", "", "F", "F", "Stmt::Item (opaque)"),
]
TY = {"E": "Ex", "L": "ExList", "O": "ExOpt", "B": "StList", "P": "Pt", "PL": "PtList", "PO": "PtOpt", "A": "ArmList", "I": "Init", "b": "Bool"}
DYN = {"E": "isDyn", "L": "listDyn", "O": "optDyn", "B": "blockDyn", "P": "patDyn", "PL": "patListDyn", "PO": "patOptDyn", "A": "armsDyn", "I": "initDyn"}
EV = {"E": "ev", "L": "evL", "O": "evO", "B": "evB", "P": "evP", "PL": "evPL", "PO": "evPO", "A": "evA", "I": "evI"}
THM = {"E": "cons_e", "L": "cons_L", "O": "cons_O", "B": "cons_B", "P": "cons_P", "PL": "cons_PL", "PO": "cons_PO", "A": "cons_A", "I": "cons_I"}


def kinds(s):
    out, i = [], 0
    while i < len(s):
        if s[i] == "P" and i + 1 < len(s) and s[i + 1] in "LO":
            out.append(s[i:i + 2]); i += 2
        else:
            out.append(s[i]); i += 1
    return out


def ctor_decl(name, fs):
    ks = kinds(fs)
    return "  | %s%s" % (esc(name), "".join(" (f%d : %s)" % (i, TY[k]) for i, k in enumerate(ks)))


KW = {"match", "if", "let", "macro", "type", "const", "return", "break", "continue", "unsafe", "struct", "local", "try", "await", "loop", "while", "or", "async", "yield", "infer"}


def esc(n):
    return n + "_" if n in KW else n


def body(fs, cls, fn):
    ks = kinds(fs)
    if cls == "F": return "false"
    if cls == "T": return "true"
    if cls == "R":
        parts = ["%s f%d" % (fn[k], i) for i, k in enumerate(ks) if k != "b"]
        return " || ".join(parts) if parts else "false"
    return cls


def pat_args(fs, used=True):
    ks = kinds(fs)
    return "".join(" f%d" % i for i in range(len(ks)))


def defs(fn_main, table, ty, which, fnmap):
    lines = ["def %s : %s → Bool" % (fn_main, ty)]
    for (name, fs, cls, spec, doc) in table:
        c = cls if which == "cls" else spec
        b = body(fs, c, fnmap)
        args = pat_args(fs)
        # unused variables -> underscores
        ks = kinds(fs)
        argl = []
        for i in range(len(ks)):
            argl.append("f%d" % i if ("f%d" % i) in b else "_")
        lines.append("  | .%s%s => %s" % (esc(name), "".join(" " + a for a in argl), b))
    return "\n".join(lines)


HELPERS_TY = """inductive ExOpt where
  | none | some (e : Ex)
inductive ExList where
  | nil | cons (e : Ex) (es : ExList)
inductive PtOpt where
  | none | some (p : Pt)
inductive PtList where
  | nil | cons (p : Pt) (ps : PtList)
/-- `Local::init`: `= expr` with an optional `else { diverge }` -/
inductive Init where
  | none | some (e : Ex) (diverge : ExOpt)
inductive StList where
  | nil | cons (s : St) (ss : StList)
/-- one `match` arm: pattern, optional guard, body -/
inductive ArmList where
  | nil | cons (p : Pt) (guard : ExOpt) (body : Ex) (rest : ArmList)"""


def helper_defs(fn):
    return """def %(O)s : ExOpt → Bool
  | .none => false | .some e => %(E)s e
def %(L)s : ExList → Bool
  | .nil => false | .cons e es => %(E)s e || %(L)s es
def %(PO)s : PtOpt → Bool
  | .none => false | .some p => %(P)s p
def %(PL)s : PtList → Bool
  | .nil => false | .cons p ps => %(P)s p || %(PL)s ps
def %(I)s : Init → Bool
  | .none => false | .some e d => %(E)s e || %(O)s d
def %(B)s : StList → Bool
  | .nil => false | .cons s ss => %(S)s s || %(B)s ss
def %(A)s : ArmList → Bool
  | .nil => false | .cons p g b rest => %(P)s p || %(O)s g || %(E)s b || %(A)s rest""" % fn


def main():
    model = ["/-", "Model of `is_dyn`, `is_dyn_pattern`, `is_dyn_macro`, `is_dyn_block` in",
             "packages/sycamore-view-parser/src/codegen.rs: one constructor per `syn::Expr` (40), `syn::Pat` (17) and",
             "`syn::Stmt` (4) variant, carrying the sub-terms the classifier could look at. Lists and options are",
             "explicit mutual types so that all recursion is structural. (Written with tools/gen_isdyn.py.)", "-/",
             "namespace SycVerif.IsDyn", "", "mutual", "inductive Ex where"]
    for (n, fs, c, s, d) in EXPR: model.append(ctor_decl(n, fs) + "   -- " + d)
    model.append("inductive Pt where")
    for (n, fs, c, s, d) in PAT: model.append(ctor_decl(n, fs) + "   -- " + d)
    model.append("inductive St where")
    for (n, fs, c, s, d) in STMT: model.append(ctor_decl(n, fs) + "   -- " + d)
    model.append(HELPERS_TY)
    model.append("end\n")
    dyn = dict(DYN); dyn["S"] = "stmtDyn"
    model.append("mutual")
    model.append("/-- `is_dyn` -/")
    model.append(defs("isDyn", EXPR, "Ex", "cls", DYN))
    model.append("/-- `is_dyn_pattern` -/")
    model.append(defs("patDyn", PAT, "Pt", "cls", DYN))
    model.append("/-- the closure passed to `any` in `is_dyn_block` -/")
    model.append(defs("stmtDyn", STMT, "St", "cls", DYN))
    model.append(helper_defs(dyn))
    model.append("end\n")
    model.append("/-- `Codegen::node` for `Node::Dyn` / `Codegen::attribute`: wrap in a reactive closure iff `is_dyn`. -/")
    model.append("def emitsDynamic (e : Ex) : Bool := isDyn e\n")
    model.append("end SycVerif.IsDyn")
    open(os.path.join(ROOT, "Model", "IsDyn.lean"), "w").write("\n".join(model) + "\n")

    ev = dict(EV); ev["S"] = "evS"
    spec = ["/-", "Specification for C18, independent of the classifier: `ev e` (\"contains an evaluation\") holds iff,",
            "outside closures, `const` blocks, items and nested `view!` bodies, the expression contains a function call,",
            "method call, macro invocation other than a bare `view!`, `await`, `?` or an `=` assignment.", "-/",
            "import SycVerif.Model.IsDyn", "namespace SycVerif.IsDyn", "", "mutual"]
    spec.append(defs("ev", EXPR, "Ex", "spec", EV))
    spec.append(defs("evP", PAT, "Pt", "spec", EV))
    spec.append(defs("evS", STMT, "St", "spec", EV))
    spec.append(helper_defs(ev))
    spec.append("end\n\nend SycVerif.IsDyn")
    open(os.path.join(ROOT, "Spec", "IsDyn.lean"), "w").write("\n".join(spec) + "\n")

    # proofs
    pr = ["/-", "C18 — view! never treats a reactive interpolation as static.", "-/",
          "import SycVerif.Spec.IsDyn", "namespace SycVerif.IsDyn", "",
          "set_option maxRecDepth 4000", "", "mutual"]

    def thm(name, table, ty, evf, dynf):
        out = ["theorem %s : ∀ (x : %s), %s x = true → %s x = true" % (name, ty, evf, dynf)]
        for (n, fs, c, s, d) in table:
            ks = kinds(fs)
            args = "".join(" f%d" % i for i in range(len(ks)))
            haves = "; ".join("have h%d := %s f%d" % (i, THM[k], i) for i, k in enumerate(ks) if k != "b")
            tac = "simp only [%s] at h; simp only [%s]; " % (evf, dynf)
            if haves: haves += "; "
            out.append("  | .%s%s, h => by %s%sfirst | done | grind" % (esc(n), args, haves, tac))
        return "\n".join(out)
    pr.append(thm("cons_e", EXPR, "Ex", "ev", "isDyn"))
    pr.append(thm("cons_P", PAT, "Pt", "evP", "patDyn"))
    pr.append(thm("cons_S", STMT, "St", "evS", "stmtDyn"))
    pr.append("""theorem cons_O : ∀ (x : ExOpt), evO x = true → optDyn x = true
  | .none, h => by simp [evO] at h
  | .some e, h => by have := cons_e e; simp only [evO] at h; simp only [optDyn]; grind
theorem cons_L : ∀ (x : ExList), evL x = true → listDyn x = true
  | .nil, h => by simp [evL] at h
  | .cons e es, h => by have := cons_e e; have := cons_L es; simp only [evL] at h; simp only [listDyn]; grind
theorem cons_PO : ∀ (x : PtOpt), evPO x = true → patOptDyn x = true
  | .none, h => by simp [evPO] at h
  | .some p, h => by have := cons_P p; simp only [evPO] at h; simp only [patOptDyn]; grind
theorem cons_PL : ∀ (x : PtList), evPL x = true → patListDyn x = true
  | .nil, h => by simp [evPL] at h
  | .cons p ps, h => by have := cons_P p; have := cons_PL ps; simp only [evPL] at h; simp only [patListDyn]; grind
theorem cons_I : ∀ (x : Init), evI x = true → initDyn x = true
  | .none, h => by simp [evI] at h
  | .some e d, h => by have := cons_e e; have := cons_O d; simp only [evI] at h; simp only [initDyn]; grind
theorem cons_B : ∀ (x : StList), evB x = true → blockDyn x = true
  | .nil, h => by simp [evB] at h
  | .cons s ss, h => by have := cons_S s; have := cons_B ss; simp only [evB] at h; simp only [blockDyn]; grind
theorem cons_A : ∀ (x : ArmList), evA x = true → armsDyn x = true
  | .nil, h => by simp [evA] at h
  | .cons p g b rest, h => by
    have := cons_P p; have := cons_O g; have := cons_e b; have := cons_A rest
    simp only [evA] at h; simp only [armsDyn]; grind
end
""")
    pr.append("""/-- (conservative) An interpolated expression that contains an evaluation outside closures is
always emitted as a reactive closure — for every expression of the grammar, any size, any nesting. -/
theorem C18_conservative (e : Ex) (h : ev e = true) : emitsDynamic e = true := cons_e e h

/-- (static ⇒ call-free) Only expressions without any evaluation are emitted as static values. -/
theorem C18_static_sound (e : Ex) (h : emitsDynamic e = false) : ev e = false := by
  cases hev : ev e with
  | false => rfl
  | true => have := C18_conservative e hev; simp [h] at this

/-- Non-vacuity / the three shapes the pinned tree classified as static:
`Foo { ..make() }`, `loop { break f(); }`, `{ let m!(): T = 1; 0 }`, and `match x { &m!() => 0 }`. -/
example : ev (.struct_ .nil (.some (.call .path .nil))) = true
    ∧ emitsDynamic (.struct_ .nil (.some (.call .path .nil))) = true := by decide
example : emitsDynamic (.loop_ (.cons (.expr (.break_ (.some (.call .path .nil)))) .nil)) = true := by decide
example : emitsDynamic (.block (.cons (.local_ (.type_ (.macro_ false)) (.some .lit .none)) (.cons (.expr .lit) .nil))) = true := by
  decide
example : emitsDynamic (.match_ .path (.cons (.reference false (.macro_ false)) .none .lit .nil)) = true := by decide
/-- and static things stay static: `(a.b, [1, x], |y| f(y), view! { })` -/
example : emitsDynamic (.tuple (.cons (.field .path) (.cons (.array (.cons .lit (.cons .path .nil)))
    (.cons (.closure (.call .path .nil)) (.cons (.macro_ true) .nil))))) = false := by decide

end SycVerif.IsDyn
""")
    open(os.path.join(ROOT, "Props", "C18.lean"), "w").write("\n".join(pr))

    # S-expression reader for the driver
    RD = {"E": "readEx", "L": "readExList", "O": "readExOpt", "B": "readStList", "P": "readPt", "PL": "readPtList",
          "PO": "readPtOpt", "A": "readArms", "I": "readInit", "b": "readBool"}
    rd = ["import SycVerif.Model.IsDyn", "import SycVerif.Driver.Sexp",
          "/-! S-expression → `Ex` (written with tools/gen_isdyn.py). Format: `(ctor field…)`, options `N` / `(S x)`,",
          "lists `(L x…)`, init `N` / `(I e opt)`, arms `(A (arm p g b)…)`, booleans `t` / `f`. -/",
          "namespace SycVerif.Driver.IsDynRead", "open SycVerif.IsDyn SycVerif.Driver", "",
          "def readBool : Sexp → Option Bool", "  | .atom \"t\" => some true", "  | .atom \"f\" => some false", "  | _ => none", "", "mutual"]

    def reader(fn, table, ty):
        out = ["partial def %s : Sexp → Option %s" % (fn, ty)]
        for (n, fs, c, sp, d) in table:
            ks = kinds(fs)
            if not ks:
                out.append("  | .list [.atom \"%s\"] => some .%s" % (n, esc(n)))
            else:
                pat = ", ".join(["a%d" % i for i in range(len(ks))])
                binds = "".join("    let f%d ← %s a%d\n" % (i, RD[k], i) for i, k in enumerate(ks))
                out.append("  | .list [.atom \"%s\", %s] => do\n%s    pure (.%s%s)" % (n, pat, binds, esc(n), "".join(" f%d" % i for i in range(len(ks)))))
        out.append("  | _ => none")
        return "\n".join(out)
    rd.append(reader("readEx", EXPR, "Ex"))
    rd.append(reader("readPt", PAT, "Pt"))
    rd.append(reader("readSt", STMT, "St"))
    rd.append("""partial def readExOpt : Sexp → Option ExOpt
  | .atom "N" => some .none
  | .list [.atom "S", x] => do let e ← readEx x; pure (.some e)
  | _ => none
partial def readPtOpt : Sexp → Option PtOpt
  | .atom "N" => some .none
  | .list [.atom "S", x] => do let p ← readPt x; pure (.some p)
  | _ => none
partial def readInit : Sexp → Option Init
  | .atom "N" => some .none
  | .list [.atom "I", e, d] => do let e ← readEx e; let d ← readExOpt d; pure (.some e d)
  | _ => none
partial def readExList : Sexp → Option ExList
  | .list (.atom "L" :: xs) => xs.foldrM (fun x acc => do let e ← readEx x; pure (.cons e acc)) .nil
  | _ => none
partial def readPtList : Sexp → Option PtList
  | .list (.atom "L" :: xs) => xs.foldrM (fun x acc => do let p ← readPt x; pure (.cons p acc)) .nil
  | _ => none
partial def readStList : Sexp → Option StList
  | .list (.atom "L" :: xs) => xs.foldrM (fun x acc => do let s ← readSt x; pure (.cons s acc)) .nil
  | _ => none
partial def readArms : Sexp → Option ArmList
  | .list (.atom "A" :: xs) => xs.foldrM (fun x acc => match x with
      | .list [.atom "arm", p, g, b] => do
        let p ← readPt p; let g ← readExOpt g; let b ← readEx b; pure (.cons p g b acc)
      | _ => none) .nil
  | _ => none
end

/-- `isdyn classify <sexp>` → `dyn` | `static` (+ the spec's verdict `ev=…`) -/
def handle (line : String) : String :=
  match Sexp.parse line >>= readEx with
  | none => "bad-op"
  | some e => (if emitsDynamic e then "dyn" else "static")

end SycVerif.Driver.IsDynRead
""")
    open(os.path.join(ROOT, "Driver", "IsDynRead.lean"), "w").write("\n".join(rd))


main()
