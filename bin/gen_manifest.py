#!/usr/bin/env python3
"""Regenerate MANIFEST.json from bin/checks_config.py (claimed properties) and properties.jsonl."""
import json, os, sys
VERIF = os.path.dirname(os.path.dirname(os.path.abspath(__file__)))
sys.path.insert(0, os.path.join(VERIF, "bin"))
from checks_config import CHECKS, NOT_APPLICABLE, HOOK_COMMITS
props = [json.loads(l) for l in open(os.path.join(VERIF, "properties.jsonl"))]
m = {
    "version": 1,
    "setup_cmd": "bin/setup",
    "hooks": {"guard": "--cfg sycamore_verif (reactive introspection), --cfg sycamore_verif_dom (native DOM back end)",
              "enable": "rustflags in harness/*/.cargo/config.toml (only the harness crates set the cfgs)",
              "baseline_off_cmd": "cd /repo && cargo test --workspace --no-fail-fast --offline",
              "source_commits": HOOK_COMMITS, "add_only": True},
    "engines": [
        {"name": "native", "path": "harness/native", "serves_properties": sorted(p for p, c in CHECKS.items() if any(e["harness"] == "native" for e in c["engines"])),
         "kind_free_text": "Rust correspondence harness linked against /repo (path deps, rebuilt on every run) + compiled Lean driver lean/.lake/build/bin/syc_driver"},
        {"name": "dom", "path": "harness/dom", "serves_properties": sorted(p for p, c in CHECKS.items() if any(e["harness"] == "dom" for e in c["engines"])),
         "kind_free_text": "same, for the wasm32-only DOM/hydrate back ends run natively against an in-process DOM (shim/web-sys, shim/js-sys, shim/wasm-bindgen)"}],
    "checks": [],
    "notes": "Every check: Lean theorems re-checked (lake build, source audit for sorry/axiom/native_decide, #print axioms; thorough: leanchecker), harness rebuilt against /repo's working tree, corpus + generated cases run on the real code and on the Lean model (compiled driver) and compared, real code judged by an independent oracle. See DESIGN.md.",
    "not_applicable": [],
}
for p in props:
    pid = p["id"]
    if pid in CHECKS:
        c = CHECKS[pid]
        m["checks"].append({
            "property_id": pid, "quick_cmd": "bin/check %s --tier quick" % pid, "thorough_cmd": "bin/check %s --tier thorough" % pid,
            "evidence_file": "evidence/%s.json" % pid, "replay_cmd_template": "bin/check %s --replay {path}" % pid,
            "engine": c["engines"][0]["harness"],
            "level_claimed": {"category": "proof", "text": c["manifest_text"], "design_ref": "DESIGN.md §5 " + pid},
            "level_note": c["manifest_note"],
            "technique": c.get("technique", "Lean 4 machine-checked proof over a model + model/implementation correspondence (differential) check")})
    else:
        m["not_applicable"].append({"property_id": pid, "reason": NOT_APPLICABLE.get(pid, "check not built yet in this round (planned at proof level, see DESIGN.md §5); will be claimed when its theorems, harness and evidence exist")})
json.dump(m, open(os.path.join(VERIF, "MANIFEST.json"), "w"), indent=1)
print("claimed:", " ".join(c["property_id"] for c in m["checks"]))
