"""Per-property configuration of bin/check."""

NOT_APPLICABLE = {}
HOOK_COMMITS = []

ALLOWED_AXIOMS = {"propext", "Classical.choice", "Quot.sound"}

COMMON_TRUSTED = [
    "Lean 4.33.0 kernel (thorough tier: re-checked by leanchecker); axioms allowed: propext, Classical.choice, Quot.sound; no sorry/admit/native_decide/bv_decide/own axioms (source audit + #print axioms on every run)",
    "the statements in lean/SycVerif/Props/*.lean and Spec/*.lean (to be read by a human)",
    "hand-written Lean model tied to /repo by the correspondence check only: agreement is shown on the cases run (counts in this file), not proved",
    "Rust harness (generators, canonicaliser, implementation-side oracle), Python orchestrator, Lean compiler for the driver binary",
]

R = "SycVerif.Route."
CHECKS = {
    "C17": {
        "manifest_text": "Lean 4 theorems over a model of RoutePath::match_path, Route::match_path and the derive(Route) expansion: matcher succeeds iff the path fits (declarative Fits relation, shortest-run <p..>), fit unique, captures align and reproduce the path, URL query/fragment ignored, derived enums never panic and pick the first accepting variant — all patterns/paths/enums, no bound. Model tied to /repo by exhaustive+random correspondence on the real code.",
        "manifest_note": "Trusted: Lean kernel; hand model <-> code agreement only on the cases run (~140k quick, exhaustive blocks listed in evidence); u32::from_str modelled; derive macro's compile-time checks assumed.",
        "lean_modules": ["SycVerif.Props.C17"],
        "theorems": [R + "C17_matchPath_iff_fits", R + "C17_fit_unique", R + "C17_captures_align",
                     R + "C17_captures_reproduce", R + "C17_urlSegments_clean",
                     R + "C17_url_ignores_query_fragment", R + "C17_matchRoute_total", R + "C17_matchRoute_first"],
        "engines": [{"harness": "native", "engine": "route"}],
        "status": "full statement proved over the model (all patterns, all paths, all enums of the modelled shape)",
        "rule": "exhaustive: every well-formed pattern over {a,b,<p>,<p..>} (len<=3 quick / <=4 thorough) x every path over {a,b,c} (len<=4 / <=5); "
                "random patterns/paths with ?,#,/,empty and non-ASCII segments; every segment list over each derived enum's vocabulary (len<=4..7); "
                "random URL strings. distinct = distinct request line; non-trivial = pattern has a dynamic segment / URL yields >=1 segment",
        "exhaustive_blocks_quick": "patterns len<=3 x paths len<=4 (alphabets above); enum vocabularies up to len 4/5/5",
        "exhaustive_blocks_thorough": "patterns len<=4 x paths len<=5; enum vocabularies up to len 5/7/7",
        "trusted": ["u32::from_str modelled by parseU32 (optional '+', ASCII digits, < 2^32); String::from_str is the identity",
                    "derive(Route) expansion is modelled (matchVariants/parseFields), the three harness enums are transcribed by hand into Driver/Route.lean; the macro's compile-time checks (field count) are assumed as WFVariant"],
        "assumptions": ["patterns satisfy the property's own premise: <p..> is last or followed by a static segment"],
    },
    "C19": {
        "manifest_text": "Lerp: Lean theorems (endpoints, betweenness, arrays pointwise) for the repaired integer lerp over EVERY round-to-nearest arithmetic whose representable set contains the integers up to 2^24; the same polymorphic definition runs on Float32 in the driver and agrees bit for bit with the real code on all 8-bit pairs. Easing: definitions REGENERATED from easing.rs by a translator on every run; endpoints and well-definedness on [0,1] proved over the reals for every function of the regenerated table; f32 bounds enumerated on the real code (partial).",
        "manifest_note": "Partial: the binary32 statements about easing (1e-5, finiteness) are enumerated, not proved. Trusted: translator, IEEE round-to-nearest as an instance of Nearest, real semantics of sqrt/sin/cos/rpow, libm.",
        "pre_lean": "python3 tools/easing_translate.py /repo/packages/sycamore/src/easing.rs lean/SycVerif/Model/EasingGen.lean",
        "lean_modules": ["SycVerif.Props.C19", "SycVerif.Props.C19Easing"],
        "theorems": ["SycVerif.Lerp.C19_lerp_between", "SycVerif.Lerp.C19_lerp_zero", "SycVerif.Lerp.C19_lerp_one",
                     "SycVerif.Lerp.C19_lerpArr_pointwise",
                     "SycVerif.Easing.C19_easing_endpoints", "SycVerif.Easing.C19_easing_welldefined"]
                    + ["SycVerif.Easing.%s_chk_val" % n for n in
                       "linear quad_in quad_out quad_inout cubic_in cubic_out cubic_inout quart_in quart_out quart_inout quint_in quint_out quint_inout circ_in circ_out circ_inout expo_in expo_out expo_inout sine_in sine_out sine_inout bounce_out bounce_in bounce_inout".split()],
        "engines": [{"harness": "native", "engine": "num"}],
        "status": "lerp: full statement proved for every round-to-nearest arithmetic (Nearest R) — endpoints, betweenness; totality is by construction of the repaired model (no checked integer operation left) + exhaustive 8-bit correspondence. easing: endpoints and well-definedness on [0,1] proved over the reals for the definitions regenerated from easing.rs; the f32 statements (|f(0)|,|f(1)-1| <= 1e-5, finite on [0,1]) are NOT proved: enumerated on the real code (quick: 2^20+1 grid + 2^22 random bit patterns per function; thorough: every f32 in [0,1])",
        "partial": [{"theorem": "C19_easing_endpoints / C19_easing_welldefined", "missing": "statement in binary32 (error bound 1e-5, finiteness): IEEE-754 rounding and libm sin/cos/pow are outside the proof; checked by enumeration on the implementation"},
                    {"theorem": "C19_lerp_*", "missing": "that IEEE-754 binary32 round-to-nearest-even is an instance of Nearest (it is the definition of the rounding mode; not derived from Lean's Float32.Model, which ships without lemmas)"}],
        "rule": "per-case lines: every pair of u8 and of i8 x 4 (quick) / 9 (thorough) scalars; digests: for every 8-bit start value all targets x scalars j/k (k=16 quick, 256 thorough); boundary+random pairs of i16..u64 (model) and up to i128/usize (implementation only), i32 arrays; easing: special points, 200 random points, k/2^16 (quick) or k/2^20 (thorough) grid digest per function, thorough: every 64th f32 bit pattern of [0,1] vs the model and every f32 of [0,1] on the implementation. non-trivial = a != b and 0 < t < 1 (lerp) / 0 < t < 1 (easing); distinct = distinct request line",
        "exhaustive_blocks_quick": "all 2*65536 8-bit pairs x scalars {0,1,0.5,0.25}; all 8-bit pairs x scalars j/16 (digest)",
        "exhaustive_blocks_thorough": "all 8-bit pairs x 9 scalars and x j/256 (digest); every f32 in [0,1] for all 25 easing functions (implementation-side oracle)",
        "trusted": ["tools/easing_translate.py (refuses anything outside its grammar); the generated definitions are compared bit for bit with the real functions through the Float32 instance (same libm)",
                    "IEEE-754 binary32 arithmetic: modelled as an arbitrary round-to-nearest onto a set containing the integers up to 2^24 (proofs) and run as Lean Float32 (correspondence, bit-exact)",
                    "real-number semantics of sqrt/sin/cos/rpow and the real pi for the easing proofs"],
        "assumptions": ["|a|,|b| <= 2^23 for the exact lerp claims (the property's own premise)"],
    },
    "C18": {
        "manifest_text": "Lean theorems over a model of is_dyn/is_dyn_pattern/is_dyn_block/is_dyn_macro with one constructor per syn::Expr (40), syn::Pat (17) and syn::Stmt (4) variant: every expression that contains a call, method call, macro other than view!, await, ? or assignment outside closures/const blocks/items is emitted as a reactive closure (C18_conservative), and whatever is emitted static is evaluation-free (C18_static_sound) — mutual structural induction, all expressions, no depth bound. Tied to /repo by running the real Codegen (direct IR and through the view! parser, child + 3 attribute positions) on source text parsed by syn and comparing with the model on the converted AST.",
        "manifest_note": "Trusted: syn's parser and the hand-written syn->model AST conversion in the harness (a structural map; errors show up as divergences); reading decisions in DESIGN.md §5 C18 (compound assignment is a binary operator; const blocks/items/closures opaque; types are compile-time).",
        "lean_modules": ["SycVerif.Props.C18"],
        "theorems": ["SycVerif.IsDyn.C18_conservative", "SycVerif.IsDyn.C18_static_sound"],
        "engines": [{"harness": "native", "engine": "isdyn", "proto": "isdyn"}],
        "status": "full statement proved over the model (all expressions of the grammar)",
        "rule": "source text built from 66 expression, 24 pattern and 14 statement templates: depth<=1 over all leaves and depth 2 over depth-1 fillers (complete per template when within the per-template budget 1500 quick / 40000 thorough, otherwise a seeded sample of that size), plus 20k (quick) / 300k (thorough) random expressions of depth 2..6; each parsed by syn, classified by the real Codegen at 6 sites. distinct = distinct model S-expression; non-trivial = at least one sub-term",
        "exhaustive_blocks_quick": "templates whose filler product is <= 1500 are enumerated completely (all one-hole templates over all leaves)",
        "exhaustive_blocks_thorough": "templates whose filler product is <= 40000 are enumerated completely",
        "trusted": ["syn 2 parser; the syn->S-expression converter in harness/native/src/isdyn.rs; the independent containsEval visitor (oracle) in the same file"],
        "assumptions": ["the view! macro passes interpolations to Codegen::node/attribute unchanged (sycamore-macro/src/lib.rs: parse -> Codegen::root)"],
    },
}
